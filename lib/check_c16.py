"""C16 - the SOCKS5 handler serves only enabled commands and only authenticated clients."""
import json
import os
import subprocess

from common import *

LEVEL = "model_checking"


def run(res, tier, only=None):
    """only: restrict the reported clauses (C04 reuses the grid for K0)"""
    vdrive = build_harness()
    cov = res.coverage if only is None else {}
    with Scratch("verif-socks-") as tmp:
        copy_specs(tmp)
        g = run_tlc(tmp, "L4Socks5Grid.tla", f"L4Socks5Grid_{tier}.cfg", timeout=1800)
        tlc_ok(g, "L4Socks5Grid")
        gf = os.path.join(tmp, "cases.ndjson")
        with open(gf, "w") as f:
            for x in g["vout"]:
                f.write(json.dumps(x) + "\n")
        tr = os.path.join(tmp, "socks.ndjson")
        summ = os.path.join(tmp, "socks.sum.json")
        errf = os.path.join(tmp, "socks.err")
        with open(errf, "w") as ef:
            p = subprocess.run([vdrive, "socks-run", "-in", gf, "-out", tr, "-summary", summ], stdout=subprocess.PIPE, stderr=ef, text=True, timeout=3000)
        if p.returncode != 0:
            raise Inconclusive(f"socks-run failed rc={p.returncode}: {p.stdout[-1500:]} " + open(errf).read()[-1500:])
        s = json.load(open(summ))
        if s["errors"]:
            raise Inconclusive("socks-run errors: " + "; ".join(s["errors"][:3]))
        if s["cases"] != len(g["vout"]) or s["served"] == 0:
            raise Inconclusive(f"socks-run ran {s['cases']} of {len(g['vout'])} cases, {s['served']} served (vacuous?)")
        n, bad, st = validate_traces(tmp, tr, "socks_traces.ndjson", "L4Socks5Trace.tla", "L4Socks5Trace.cfg")
        cov.update(states=g["distinct"], transitions=g["generated"], traces_validated_against_impl=n,
                   cases=dict(enumerated=len(g["vout"]), served_by_real_handler=s["served"], reference_allows=s["may_serve"],
                              rule="7 command lists (default, single, mixed case, placeholder) x 8 credential maps (none, one, two, empty name, empty name + real, empty password, placeholders set / unset) x 6 method lists x 6 sub-negotiation variants x 5 command codes x address types; enumerated exhaustively by TLC"),
                   exhaustive=True, samples=s["samples"][:3],
                   server_sequence=dict(connections=s["server_sequence_connections"], legitimate_sessions_served=s["server_sequence_served"],
                                        rule="through one real layer4 Server (socks5 matcher -> socks5 handler with credentials), consecutively: a non-SOCKS stream, a legitimate whole session, a one-byte client, a silent client, a session whose version byte arrives alone and whose remaining bytes name an unknown user (they would read as a valid login if the bytes the matcher looked at were lost), a legitimate session split the same way, a session with a two-byte first segment in front of a valid one (to be refused as a whole); 8 rounds on one P without garbage collection (pooled matching buffers pass from connection to connection)"))
        traces = {}
        for line in open(tr):
            t = json.loads(line)
            traces[t["id"]] = t
        for b in bad:
            t = traces[b["id"]]
            cl = [x for x in b["clauses"] if only is None or x.split()[0] in only]
            if not cl:
                continue
            sig = "socks:cmd%d:" % t["sc"]["cmd"] + ("authreq" if t["cfg"]["creds"] else "noauth") + ":" + t["sc"]["auth"] + ":" + "+".join(sorted(x.split()[0] for x in cl))
            res.violation(sig, "; ".join(cl) + f" (trace {b['id']}: cfg {t['cfg']} script {t['sc']})", t)
        # vacuity of the server sequence - only when nothing was reported (a defect may well be the reason)
        if not res.violations and s.get("server_sequence_served", 0) * 7 != s.get("server_sequence_connections", -1) * 2:
            raise Inconclusive(f"server sequence: {s.get('server_sequence_served')} legitimate sessions served out of {s.get('server_sequence_connections')} connections (vacuous?)")
        if only is not None:
            return dict(cases=len(g["vout"]))
    res.assumptions += ["the client side is a scripted RFC 1928/1929 byte sequence over net.Pipe; outbound effect = a TCP connection accepted by the harness's loopback target, or a success reply to ASSOCIATE (an unannounced listener would be invisible)",
                        "only the 'only' direction is judged: an allowed request that is refused (e.g. BIND, unsupported by the library) is not a violation"]


def replay(res, path):
    raise Inconclusive("C16 replays are single cases; re-run bin/check C16")
