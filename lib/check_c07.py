"""C07 - the TLS matcher reads SNI/ALPN/versions exactly as a real TLS server does."""
import json
import os
import subprocess

import check_c13
import wire
from common import *

LEVEL = "exploration"


def run(res, tier):
    vdrive = build_harness()
    # (i) record framing: non-handshake records never match, an incomplete hello stays undecided
    #     (vectors of protocol "tls" in L4Wire: V1 + M1/M2 on every prefix of a real ClientHello)
    sub = Result("C07", tier, LEVEL)
    wire.CLAUSES["C07"] = ("V1", "M1", "M2", "M3", "A1")
    wire.run(sub, "C07", tier, protos=["tls"])
    res.violations += sub.violations
    cov = res.coverage
    cov["framing"] = dict(vectors=sub.coverage["vectors"], evaluations=sub.coverage["evaluations_of_real_matchers"])
    with Scratch("verif-tls-") as tmp:
        copy_specs(tmp)
        g = run_tlc(tmp, "L4TLSGrid.tla", f"L4TLSGrid_{tier}.cfg", timeout=900)
        tlc_ok(g, "L4TLSGrid")
        gf = os.path.join(tmp, "cases.ndjson")
        with open(gf, "w") as f:
            for x in g["vout"]:
                f.write(json.dumps(x) + "\n")
        tr = os.path.join(tmp, "tls.ndjson")
        summ = os.path.join(tmp, "tls.sum.json")
        errf = os.path.join(tmp, "tls.err")
        with open(errf, "w") as ef:
            p = subprocess.run([vdrive, "tls-run", "-in", gf, "-out", tr, "-summary", summ], stdout=subprocess.PIPE, stderr=ef, text=True, timeout=3000)
        if p.returncode != 0:
            raise Inconclusive(f"tls-run failed rc={p.returncode}: {p.stdout[-1500:]} " + open(errf).read()[-1500:])
        s = json.load(open(summ))
        if s["errors"]:
            raise Inconclusive("tls-run errors: " + "; ".join(s["errors"][:3]))
        if s["cases"] != len(g["vout"]) or s["matched"] == 0:
            raise Inconclusive(f"tls-run ran {s['cases']} of {len(g['vout'])} cases, {s['matched']} matched (vacuous?)")
        n, bad, st = validate_traces(tmp, tr, "tls_traces.ndjson", "L4TLSTrace.tla", "L4TLSTrace.cfg")
        cov.update(evaluations=s["cases"] + cov["framing"]["evaluations"], distinct_nontrivial=len(g["vout"]),
                   rule="client configurations (server name x ALPN list x version range x curve preferences x cipher suites x session resumption) x matcher configurations (sni exact/wildcard lists x alpn lists), enumerated exhaustively by TLC from L4TLS; each hello is produced by a real crypto/tls client; every case is distinct",
                   samples=s["samples"][:2], matched=s["matched"], exhaustive=True)
        traces = {}
        for line in open(tr):
            t = json.loads(line)
            traces[t["id"]] = t
        for b in bad:
            t = traces[b["id"]]
            res.violation("tls:" + "+".join(sorted(c.split()[0] for c in b["clauses"])) + f":vers{t['c']['vers']}:resume{t['c']['resume']}",
                          "; ".join(b["clauses"]) + f" (case {t['c']} matcher {t['cfg']})", t)
    # (iii) the routing decision taken on the hello, in listener-wrapper mode: TLS clients among other connections through one
    #       wrapper (pooled matching buffers pass from connection to connection); a TLS connection must be recognised as such
    #       (L8: handed over with its TLS state after termination) and nothing consumed may be handed over (L2)
    check_c13.add_to(res, tier, ("L2", "L8"), "C07", only_mix="tlsfall")
    res.assumptions += ["ground truth for field extraction is crypto/tls (GetConfigForClient on a server fed the same bytes); the TLA+ text contributes the case space, the sni/alpn decision function and the clauses",
                        "byte-level mutations of hellos beyond truncation and other record types are not generated"]


def replay(res, path):
    raise Inconclusive("C07 replays are single cases; re-run bin/check C07")
