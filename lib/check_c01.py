"""C01 - match-and-rewind: handlers read the client's stream exactly once, in order."""
import router
from common import *

LEVEL = "model_checking"


def run(res, tier):
    cfgs = ["L4Router_MC_c01.cfg", "L4Router_MC_q3.cfg"] if tier == "quick" else ["L4Router_MC_c01.cfg", "L4Router_MC_q3.cfg", "L4Router_MC_q.cfg", "L4Router_MC_t2.cfg"]
    router.run(res, "C01", tier, cfgs=cfgs)
    # the consumer behind the listener wrapper (plain and TLS-terminated hand-over) is a handler that consumes the connection too:
    # it must read the client's stream intact from the first unconsumed byte (clause L3 of L4ListenerAbs)
    import check_c13
    check_c13.add_to(res, tier, ("L3",), "C01")
    # connections through ONE real Server (Server.handle: the matching buffer comes from a pool that prefetch's scratch
    # chunks go back to): every connection's handlers read that connection's own stream, from its first byte (clause X2)
    import check_c08
    check_c08.conc_add_to(res, tier, ("X2",), "C01")
    # UDP: a virtual connection's stream is its datagrams in arrival order; datagrams larger than the prefetch chunk / than the
    # handler's buffer are read in pieces (packetConn.Read keeps the rest) - the handler must get every byte of them, once, in
    # order (clauses U1, U2, U2b of L4UdpTrace on the 9000-byte scenarios of the C09 grid, real servePacket loop)
    import check_c09
    check_c09.free_add_to(res, tier, ("U1", "U2", "U2b"), "C01", only=lambda g: g["size"] == 9000)
    res.coverage["checker_cmd"] = "tlc L4Router_MC.tla (c01: shipped wrapping handlers, real sizes) + vdrive router-replay/router-random + tlc L4RouterTrace.tla"


def replay(res, path):
    router.replay(res, "C01", path)
