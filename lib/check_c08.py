"""C08 - concurrent connections never interfere: no cross-talk, no data races."""
import json
import os
import re
import subprocess

import check_c09
import check_c13
from common import *

LEVEL = "model_checking"

RACE_BLOCK = re.compile(r"WARNING: DATA RACE\n(.*?)\n==================", re.S)


def race_reports(stderr_text):
    """data-race reports that involve a frame of the code under test"""
    out = []
    for m in RACE_BLOCK.finditer(stderr_text):
        block = m.group(1)
        frames = re.findall(r"\s+(/\S*?/(?:layer4|modules/\w+)/[\w.]+\.go):(\d+)", block)
        frames = [(f, l) for f, l in frames if "/zz_verif" not in f and "/verif/" not in f]
        if not frames:
            continue
        rel = [re.sub(r"^.*/((?:layer4|modules/\w+)/[\w.]+\.go)$", r"\1", f) + ":" + l for f, l in frames]
        # first repository frame of each of the two accesses
        parts = re.split(r"\n\s*\n", block)
        firsts = []
        for part in parts[:2]:
            fr = re.findall(r"\s+/\S*?/((?:layer4|modules/\w+)/[\w.]+\.go):(\d+)", part)
            fr = [x for x in fr if "zz_verif" not in x[0]]
            if fr:
                firsts.append(fr[0][0] + ":" + fr[0][1])
        out.append(dict(sites=sorted(set(firsts)) or rel[:2], block=block[:3000]))
    return out


def conc_add_to(res, tier, clauses, pid):
    """the connections-through-one-server run as a PART of another property's check (clauses of L4ConcTrace)"""
    vdrive = build_harness()
    with Scratch("verif-conc-") as tmp:
        copy_specs(tmp)
        tr = os.path.join(tmp, "conc.ndjson")
        summ = os.path.join(tmp, "conc.sum.json")
        errf = os.path.join(tmp, "conc.err")
        with open(errf, "w") as ef:
            p = subprocess.run([vdrive, "conc-run", "-out", tr, "-summary", summ, "-n", "64", "-seed", str(seed())], stdout=subprocess.PIPE, stderr=ef, text=True, timeout=3000)
        if p.returncode != 0:
            rcr = repo_crash(open(errf).read())
            if rcr:
                raise RepoCrash(rcr[0], rcr[1], "conc-run", open(errf).read()[-3000:])
            raise Inconclusive(f"conc-run failed rc={p.returncode}: {p.stdout[-1500:]} " + open(errf).read()[-1500:])
        n, bad, st = validate_traces(tmp, tr, "conc_traces.ndjson", "L4ConcTrace.tla", "L4ConcTrace.cfg", max_shards=4)
        res.coverage["traces_validated_against_impl"] = res.coverage.get("traces_validated_against_impl", 0) + n
        res.coverage["through_one_server"] = dict(connections=64, clauses=list(clauses), rule="connections of several kinds through ONE provisioned Server (Server.handle, pooled matching buffers), one after the other and all at once")
        traces = {json.loads(l)["id"]: json.loads(l) for l in open(tr)}
        for b in bad:
            mine = [c for c in b["clauses"] if c.split()[0] in clauses]
            if mine:
                res.violation("conc:" + "+".join(sorted(c.split()[0] for c in mine)), "; ".join(mine) + f" (trace {b['id']})", traces[b["id"]])


def run(res, tier):
    # 1. cross-talk through the listener wrapper and its buffer pool: model + real runs (clause L3)
    check_c13.listener_pipeline(res, tier, ("L3",), "C08")
    cov = res.coverage
    vdrive = build_harness()
    with Scratch("verif-conc-") as tmp:
        copy_specs(tmp)
        # 2. each connection among N others = the same connection alone (shared server, matchers, throttle, tee, echo)
        tr = os.path.join(tmp, "conc.ndjson")
        summ = os.path.join(tmp, "conc.sum.json")
        nconn = 64 if tier == "quick" else 512
        errf = os.path.join(tmp, "conc.err")
        with open(errf, "w") as ef:
            p = subprocess.run([vdrive, "conc-run", "-out", tr, "-summary", summ, "-n", str(nconn), "-seed", str(seed())], stdout=subprocess.PIPE, stderr=ef, text=True, timeout=3000)
        if p.returncode != 0:
            rcr = repo_crash(open(errf).read())
            if rcr:
                raise RepoCrash(rcr[0], rcr[1], "conc-run", open(errf).read()[-3000:])
            raise Inconclusive(f"conc-run failed rc={p.returncode}: {p.stdout[-1500:]} " + open(errf).read()[-1500:])
        s = json.load(open(summ))
        n, bad, st = validate_traces(tmp, tr, "conc_traces.ndjson", "L4ConcTrace.tla", "L4ConcTrace.cfg", max_shards=4)
        cov["traces_validated_against_impl"] += n
        cov["concurrent_connections"] = dict(n=nconn, rule="4 connection kinds (consuming handler + shared throttle, tee, wrap + echo, fallback) x 5 stream lengths through ONE provisioned server, first alone then all at once; every policy selected from by 8 goroutines; one upstream with two peers writing to the client at once")
        cov["samples"] += s["samples"][:1]
        traces = {}
        for line in open(tr):
            t = json.loads(line)
            traces[t["id"]] = t
        for b in bad:
            res.violation("conc:" + "+".join(sorted(c.split()[0] for c in b["clauses"])), "; ".join(b["clauses"]) + f" (trace {b['id']})", traces[b["id"]])
        # 3. data races: the same concurrent drivers under the Go race detector
        vrace = build_harness(race=True)
        races = []
        runs = []

        def under_race(args, name):
            e = os.path.join(tmp, name + ".race.err")
            hung = False
            with open(e, "w") as ef:
                try:
                    pr = subprocess.run([vrace] + args, stdout=subprocess.PIPE, stderr=ef, text=True, timeout=600,
                                        env=dict(os.environ, GORACE="halt_on_error=0 exitcode=0"))
                except subprocess.TimeoutExpired:
                    # a driver that does not come to an end (a scenario waits for something the code under test never does):
                    # what the detector reported until then still counts; without any report the run is inconclusive
                    hung = True
            txt = open(e).read()
            if hung:
                if "DATA RACE" not in txt:
                    raise Inconclusive(f"{name} under -race did not finish within 600 s and reported no race")
                runs.append(name + " (did not finish)")
                return race_reports(txt)
            if pr.returncode != 0 and "DATA RACE" not in txt:
                rcr = repo_crash(txt)
                if rcr:
                    raise RepoCrash(rcr[0], rcr[1], name + " under -race", txt[-3000:])
                raise Inconclusive(f"{name} under -race failed rc={pr.returncode}: {pr.stdout[-800:]} {txt[-1500:]}")
            runs.append(name)
            return race_reports(txt)

        races += under_race(["conc-run", "-out", os.path.join(tmp, "c2.ndjson"), "-summary", os.path.join(tmp, "c2.sum"), "-n", "48", "-seed", str(seed())], "conc-run")
        gf = os.path.join(tmp, "lngrid.ndjson")
        g = run_tlc(tmp, "L4ListenerGrid.tla", "L4ListenerGrid_quick.cfg", workers=1, timeout=300)
        with open(gf, "w") as f:
            for x in g["vout"][::6]:
                f.write(json.dumps(x) + "\n")
        races += under_race(["listener-run", "-in", gf, "-out", os.path.join(tmp, "l2.ndjson"), "-summary", os.path.join(tmp, "l2.sum")], "listener-run")
        ug = os.path.join(tmp, "udpgrid.ndjson")
        g2 = run_tlc(tmp, "L4UdpGrid.tla", "L4UdpGrid_quick.cfg", workers=1, timeout=300)
        with open(ug, "w") as f:
            for x in g2["vout"][::4]:
                f.write(json.dumps(x) + "\n")
        races += under_race(["udp-run", "-in", ug, "-out", os.path.join(tmp, "u2.ndjson"), "-summary", os.path.join(tmp, "u2.sum")], "udp-run")
        cov["race_detector"] = dict(runs=runs, reports_in_repository_code=len(races),
                                    note="the Go race detector is a monitor attached to the concurrent conformance drivers; a TLA+ model cannot observe Go memory-model races")
        for r in races:
            res.violation("race:" + "~".join(r["sites"]), "data race in repository code between " + " and ".join(r["sites"]), r)
    res.assumptions += ["data races are only found on the schedules the race-enabled drivers happen to execute"]


def replay(res, path):
    raise Inconclusive("C08 replays are race reports / traces; re-run bin/check C08")
