import wire
from common import *

LEVEL = "exploration"


def run(res, tier):
    wire.run(res, "C04", tier)
    # the protocol-parsing handlers: the PROXY protocol and SOCKS5 grids of C12 / C16, judged here for panics only
    import check_c12
    import check_c16
    n_asm = len(res.assumptions)
    pp = check_c12.run(res, tier, only=("Q0",))
    sk = check_c16.run(res, tier, only=("K0",))
    del res.assumptions[n_asm:]
    res.coverage["handlers"] = dict(proxy_protocol_cases=pp["cases"], socks5_cases=sk["cases"],
                                    rule="every case of the PROXY protocol receive/send grid (C12) and of the SOCKS5 configuration x script grid (C16) run on the real handlers under recover(); a panic is a violation (clauses Q0 / K0)")
    c = res.coverage
    c["evaluations"] = c.pop("evaluations_of_real_matchers")
    c["distinct_nontrivial"] = c["vectors"]
    c["rule"] = "vectors = abstract first messages over boundary field domains x filter configurations, enumerated exhaustively per protocol by TLC from L4Wire; every vector is distinct; non-trivial: all (each one is evaluated on the real matcher at every sampled prefix length)"


def replay(res, path):
    raise Inconclusive("C04 replays are single vectors; re-run bin/check C04")
