"""C10 - selection policies return an available upstream iff one exists, per contract."""
import json
import os

from common import *

LEVEL = "model_checking"


def run(res, tier):
    vdrive = build_harness()
    cov = res.coverage
    cov.update(states=0, transitions=0, traces_validated_against_impl=0, samples=[])
    with Scratch("verif-lb-") as tmp:
        copy_specs(tmp)
        # 1. every pool state of the boundary grammar, enumerated by TLC
        g = run_tlc(tmp, "L4LBGrid.tla", f"L4LB_pool_{tier}.cfg", timeout=1800)
        tlc_ok(g, "L4LBGrid")
        cov["states"] += g["distinct"]
        cov["transitions"] += g["generated"]
        # 1b. pools of 4..8 upstreams (the property speaks of pool sizes 0..8): random walks of TLC through the same grammar
        walks = 4 if tier == "quick" else 100   # TLC judges every successor it generates along a walk: ~250 pools per walk
        gs = run_tlc(tmp, "L4LBGrid.tla", "L4LB_pool_sim.cfg", workers=4, timeout=1800, simulate=f"num={walks}", extra=["-depth", "9", "-seed", str(seed())])
        big = {}
        for x in gs["vout"]:
            if len(x["pool"]) >= 4:
                big.setdefault(json.dumps(x, sort_keys=True), x)
        if len(big) < walks:
            raise Inconclusive(f"TLC simulation produced only {len(big)} pools of 4..8 upstreams: {gs['errors'][:2]}")
        gf = os.path.join(tmp, "pools.ndjson")
        with open(gf, "w") as f:
            for x in g["vout"] + list(big.values()):
                f.write(json.dumps(x) + "\n")
        cov["large_pools"] = dict(n=len(big), sizes=sorted({len(x["pool"]) for x in big.values()}), rule=f"{walks} random walks per TLC worker (4 workers) through the pool grammar up to 8 upstreams, every generated successor kept, seed {seed()}")
        tr = os.path.join(tmp, "lb.ndjson")
        summ = os.path.join(tmp, "lb.sum.json")
        run_driver(vdrive, ["lb-single", "-in", gf, "-out", tr, "-summary", summ, "-draws", "64" if tier == "quick" else "256"], timeout=3000)
        s1 = json.load(open(summ))
        # 2. selection sequences: the round_robin counter model, exhaustively; ip_hash on the same sequences
        seqtr = os.path.join(tmp, "lbseq.ndjson")
        open(seqtr, "w").close()
        seqs = 0
        ident = 0
        cfgs = ["L4LB_seq_3.cfg", "L4LB_seq_4.cfg"]
        if tier == "thorough":
            cfgs += ["L4LB_seq_3t.cfg", "L4LB_seq_5t.cfg"]
        for cfg in cfgs:
            beh = os.path.join(tmp, cfg + ".beh")
            r = run_tlc(tmp, "L4LBSeq.tla", cfg, beh_out=beh, timeout=3000)
            tlc_ok(r, cfg)    # RRInv holds on the counter model
            cov["states"] += r["distinct"]
            cov["transitions"] += r["generated"]
            o = os.path.join(tmp, cfg + ".tr")
            sm = os.path.join(tmp, cfg + ".sum")
            run_driver(vdrive, ["lb-seq", "-in", beh, "-out", o, "-summary", sm], timeout=3000)
            s2 = json.load(open(sm))
            if s2["sequences"] != r["beh"] or r["beh"] == 0:
                raise Inconclusive(f"{cfg}: {r['beh']} behaviours emitted, {s2['sequences']} replayed")
            seqs += s2["sequences"]
            ident += s2["round_robin_identical_to_model"]
            cov["samples"] += s2["samples"][:1]
            with open(seqtr, "a") as f:
                for line in open(o):
                    f.write(line)
        with open(tr, "a") as f:
            for line in open(seqtr):
                f.write(line)
        # 3. the same contract on pools PROVISIONED from JSON by the real handler (max_fails written or left to its documented
        # default) whose peers counted failures through the real accounting - the state a user's configuration produces
        ptr = os.path.join(tmp, "lbprov.ndjson")
        psum = os.path.join(tmp, "lbprov.sum.json")
        run_driver(vdrive, ["lb-prov", "-out", ptr, "-summary", psum], timeout=1800)
        s3 = json.load(open(psum))
        if s3["handlers"] < 500:
            raise Inconclusive(f"lb-prov ran only {s3['handlers']} handlers")
        with open(tr, "a") as f:
            for line in open(ptr):
                f.write(line)
        cov["provisioned_pools"] = dict(handlers=s3["handlers"], selections=s3["selections"],
                                        rule="7 policy configurations x max_fails omitted / 1 / 2 (fail_duration 30s) x 0-2 failures counted against each of 3 upstreams (one of them with two dial addresses) through the handler's own failure accounting; the pool state is read back from the provisioned handler, availability is judged with the documented max_fails (default 1)")
        n, bad, st = validate_traces(tmp, tr, "lb_traces.ndjson", "L4LBTrace.tla", "L4LBTrace.cfg")
        cov["traces_validated_against_impl"] = n + ident
        cov["single_selection"] = dict(pool_states=s1["pool_states"], selections=s1["selections"],
                                       rule="every pool of 0..3 upstreams (and sampled pools of 4..8, see large_pools) x 1-2 peers from boundary peer states (idle, busy, at max_connections, one failure short, at max_fails, unhealthy) x max_conns on/off x max_fails on/off; 8 policy configurations each; random policies drawn repeatedly")
        cov["sequences"] = dict(n=seqs, round_robin_identical_to_model=ident)
        cov["samples"] += s1["samples"][:2]
        traces = {}
        for line in open(tr):
            t = json.loads(line)
            traces[t["id"]] = t
        for b in bad:
            t = traces[b["id"]]
            pol = t.get("policy", t["kind"])
            res.violation("lb:" + pol + ":" + "+".join(sorted(c.split()[0] for c in b["clauses"])),
                          "; ".join(b["clauses"]) + f" (trace {b['id']})", t)
    res.assumptions += ["pools are built in-package through an overlay accessor (peer counters set directly)",
                        "random policies: every allowed result need not appear; every observed result must be allowed"]


def replay(res, path):
    raise Inconclusive("C10 replays are pool states; re-run bin/check C10")
