"""C03 - the proxy relays both directions byte-exactly, with half-close and cleanup."""
import json
import os
import subprocess

from common import *

LEVEL = "model_checking"
ENDS = ["fin", "close", "rst"]


def run(res, tier):
    vdrive = build_harness()
    cov = res.coverage
    cov.update(states=0, transitions=0, traces_validated_against_impl=0, samples=[], model_runs=[])
    with Scratch("verif-proxy-") as tmp:
        copy_specs(tmp)
        combos = [(c, u) for c in ENDS for u in ENDS]
        if tier == "quick":
            combos = [("fin", "fin"), ("fin", "close"), ("rst", "fin"), ("close", "rst")]
        for c, u in combos:
            cfg = f"L4Proxy_{c}_{u}.cfg"
            r = run_tlc(tmp, "L4Proxy.tla", cfg, timeout=1800)
            tlc_ok(r, cfg)   # UpExact, DownOrdered, HalfCloseSeen + liveness Cleanup
            cov["states"] += r["distinct"]
            cov["transitions"] += r["generated"]
            cov["model_runs"].append(dict(cfg=cfg, distinct_states=r["distinct"], depth=r["depth"]))
        # a client that sends only after it has seen the upstreams' end of stream: fine when the proxy's downstream offers
        # CloseWrite, stuck for good when a wrapper hides it (the behaviour before fixes 35dca3a / 89753ce; must fail = self-test)
        for cfg, must_hold in (("L4ProxyW_wait.cfg", True), ("L4ProxyW_nowait_hidden.cfg", True), ("L4ProxyW_wait_hidden.cfg", False)):
            if must_hold:
                r = run_tlc(tmp, "L4Proxy.tla", cfg, timeout=1800)
                tlc_ok(r, cfg)
            else:
                r = run_tlc_expect(tmp, "L4Proxy.tla", cfg, ["Cleanup"], f"{cfg}: the model of a hidden half-close was expected to violate Cleanup", timeout=1800)
            cov["states"] += r["distinct"]
            cov["transitions"] += r["generated"]
            cov["model_runs"].append(dict(cfg=cfg, distinct_states=r["distinct"], depth=r["depth"], expected="holds" if must_hold else "Cleanup violated (self-test)"))
        g = run_tlc(tmp, "L4ProxyGrid.tla", f"L4ProxyGrid_{tier}.cfg", workers=1, timeout=300)
        tlc_ok(g, "L4ProxyGrid")
        gf = os.path.join(tmp, "grid.ndjson")
        with open(gf, "w") as f:
            for x in g["vout"]:
                f.write(json.dumps(x) + "\n")
        tr = os.path.join(tmp, "proxy.ndjson")
        summ = os.path.join(tmp, "proxy.sum.json")
        errf = os.path.join(tmp, "proxy.err")
        with open(errf, "w") as ef:
            p = subprocess.run([vdrive, "proxy-run", "-in", gf, "-out", tr, "-summary", summ], stdout=subprocess.PIPE, stderr=ef, text=True, timeout=3000)
        if p.returncode != 0:
            raise Inconclusive(f"proxy-run failed rc={p.returncode}: {p.stdout[-1500:]} " + open(errf).read()[-1500:])
        s = json.load(open(summ))
        if s["errors"]:
            raise Inconclusive("proxy-run errors: " + "; ".join(s["errors"][:3]))
        n, bad, st = validate_traces(tmp, tr, "proxy_traces.ndjson", "L4ProxyTrace.tla", "L4ProxyTrace.cfg")
        cov["traces_validated_against_impl"] = n
        cov["runs"] = dict(scenarios=s["runs"], bytes_relayed_to_upstreams=s["bytes_relayed_up"],
                           grid="who finishes first and how (client/upstream half-close first, simultaneous, client reset, upstream reset, client close) x client payload x upstream payload x 1|2 peers x chunking x bytes prefetched into the matching buffer; enumerated by TLC from L4ProxyGrid")
        cov["samples"] = s["samples"][:2]
        traces = {}
        for line in open(tr):
            t = json.loads(line)
            traces[t["id"]] = t
            if "udp" in t:
                for x in t["udp"]["recv"]:
                    if x.get("pieces", 1) > 1 and x["intact"]:
                        log(f"OBSERVATION udp relay: a client datagram of {x['n']} bytes reached the upstream as {x['pieces']} datagrams (the relay reads through an 8192-byte buffer); C03 speaks of bytes, so this is reported, not judged")
        for b in bad:
            t = traces[b["id"]]
            ks = "+".join(sorted(c.split()[0] for c in b["clauses"]))
            if "udp" in t:
                res.violation("proxy:udp:" + ks, "; ".join(b["clauses"]) + f" (trace {b['id']}: sent {[x['n'] for x in t['udp']['sent']][:12]}..., upstream received {[(x['seq'], x['n'], x['intact']) for x in t['udp']['recv']][:12]}...)", t)
                continue
            res.violation("proxy:" + t["scen"]["order"] + f":peers{t['scen']['peers']}:" + ks,
                          "; ".join(b["clauses"]) + f" (trace {b['id']}, scenario {t['scen']})", t)
    res.assumptions += ["loopback TCP, Unix stream sockets and TLS (kernel and crypto/tls trusted)",
                        "upstream bytes carry the peer index in their high bit so that the client can attribute interleaved bytes"]


def replay(res, path):
    raise Inconclusive("C03 replays are scenario descriptions; re-run bin/check C03")
