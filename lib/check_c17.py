"""C17 - throttled reads never exceed burst + rate x time; the stream stays intact."""
import json
import os
import subprocess

from common import *

LEVEL = "model_checking"


def run(res, tier):
    vdrive = build_harness()
    cov = res.coverage
    with Scratch("verif-thr-") as tmp:
        copy_specs(tmp)
        r = run_tlc(tmp, "L4Throttle.tla", "L4Throttle_ok.cfg", timeout=900)
        tlc_ok(r, "L4Throttle ok")
        rm = run_tlc_expect(tmp, "L4Throttle.tla", "L4Throttle_mut.cfg", ["Bound"], "TLC no longer finds the bound violation when the limiter is charged after the read", timeout=900)
        cov.update(states=r["distinct"], transitions=r["generated"],
                   model_selftest="BoundLocal/BoundTotal hold on the token-bucket model, fail when the read happens before the wait")
        g = run_tlc(tmp, "L4ThrottleGrid.tla", f"L4ThrottleGrid_{tier}.cfg", workers=1, timeout=300)
        tlc_ok(g, "L4ThrottleGrid")
        gf = os.path.join(tmp, "grid.ndjson")
        with open(gf, "w") as f:
            for x in g["vout"]:
                f.write(json.dumps(x) + "\n")
        tr = os.path.join(tmp, "thr.ndjson")
        summ = os.path.join(tmp, "thr.sum.json")
        errf = os.path.join(tmp, "thr.err")
        with open(errf, "w") as ef:
            p = subprocess.run([vdrive, "throttle-run", "-in", gf, "-out", tr, "-summary", summ], stdout=subprocess.PIPE, stderr=ef, text=True, timeout=3000)
        if p.returncode != 0:
            raise Inconclusive(f"throttle-run failed rc={p.returncode}: {p.stdout[-1500:]} " + open(errf).read()[-1500:])
        s = json.load(open(summ))
        if s["errors"]:
            raise Inconclusive("throttle-run errors: " + "; ".join(s["errors"][:3]))
        n, bad, st = validate_traces(tmp, tr, "throttle_traces.ndjson", "L4ThrottleTrace.tla", "L4ThrottleTrace.cfg")
        cov.update(traces_validated_against_impl=n, runs=dict(scenarios=s["runs"], pull_events=s["pull_events"],
                   udp_runs=s.get("udp_runs", 0),
                   grid="per-connection rate x burst, total limit none | equal | total only | none at all (latency only), latency 0 | 120 ms, reader buffer 1..65536, 1-4 concurrent connections of one handler; enumerated by TLC from L4ThrottleGrid; plus the throttle over UDP virtual connections (three datagrams of 1x, 2x, 2.5x and 3x the burst through the real servePacket loop, judged by G4; one more run with a slow throttle behind a 150 ms matching timeout: the association is read long after the matching deadline has passed)"),
                   samples=s["samples"][:2] or [dict(note="no short sample")])
        traces = {}
        for line in open(tr):
            t = json.loads(line)
            traces[t["id"]] = t
        for b in bad:
            t = traces[b["id"]]
            t = dict(t, ev=t["ev"][:200])
            res.violation("throttle:" + "+".join(sorted(c.split()[0] for c in b["clauses"])), "; ".join(b["clauses"]) + f" (trace {b['id']}, scenario {t['scen']})", t)
    # the throttle in a non-terminal route of a listener wrapper: the wrapped listener's consumer reads the stream through the
    # throttled connection after layer4 has let go of it ("thrfall" mixes of the C13 grid, clause L3 = G4 for that reader)
    import check_c13
    check_c13.add_to(res, tier, ("L3",), "C17", only_mix="thrfall")
    res.assumptions += ["the underlying connection always has data and stamps each read when it serves it; 'the first read' is the instant the reader issued its first read; ms resolution with 1 ms rounding slack",
                        "real time: the limiter is golang.org/x/time/rate (trusted)"]


def replay(res, path):
    raise Inconclusive("C17 replays are scenario descriptions; re-run bin/check C17")
