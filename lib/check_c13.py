"""C13 - listener wrapper hands unconsumed connections over intact, exactly once."""
import json
import re
import os
import subprocess

from common import *

LEVEL = "model_checking"
MC = ["L4Listener_A_FALSE.cfg", "L4Listener_B_FALSE.cfg", "L4Listener_C_FALSE.cfg"]


def listener_pipeline(res, tier, clauses, pid, only_mix=None):
    vdrive = build_harness()
    cov = res.coverage
    cov.update(states=0, transitions=0, traces_validated_against_impl=0, samples=[], model_runs=[])
    with Scratch("verif-ln-") as tmp:
        copy_specs(tmp)
        for cfg in MC:
            r = run_tlc(tmp, "L4Listener_MC.tla", cfg, timeout=1800)
            tlc_ok(r, cfg)   # safety invariants + Drain (liveness under fairness)
            cov["states"] += r["distinct"]
            cov["transitions"] += r["generated"]
            cov["model_runs"].append(dict(cfg=cfg, distinct_states=r["distinct"], depth=r["depth"]))
        rp = run_tlc_expect(tmp, "L4Listener_MC.tla", "L4Listener_A_TRUE.cfg", ["NoReuseWhileReferenced"], "TLC no longer finds the pooled-buffer reuse with PutOnHijack=TRUE", timeout=600)
        cov["model_selftest"] = "NoReuseWhileReferenced fails in L4Listener with PutOnHijack=TRUE (pinned commit), holds with FALSE"
        g = run_tlc(tmp, "L4ListenerGrid.tla", f"L4ListenerGrid_{tier}.cfg", workers=1, timeout=300)
        tlc_ok(g, "L4ListenerGrid")
        if only_mix:
            g["vout"] = [x for x in g["vout"] if only_mix in x["mix"]]
        gf = os.path.join(tmp, "grid.ndjson")
        with open(gf, "w") as f:
            for x in g["vout"]:
                f.write(json.dumps(x) + "\n")
        tr = os.path.join(tmp, "ln.ndjson")
        summ = os.path.join(tmp, "ln.sum.json")
        errf = os.path.join(tmp, "ln.err")
        with open(errf, "w") as ef:
            p = subprocess.run([vdrive, "listener-run", "-in", gf, "-out", tr, "-summary", summ, "-seed", str(seed())],
                               stdout=subprocess.PIPE, stderr=ef, text=True, timeout=3000)
        if p.returncode != 0:
            errtxt = open(errf).read()
            rc = repo_crash(errtxt)
            if rc:
                # a panic / fatal runtime error in a goroutine of the code under test kills the whole server process
                res.violation("listener:crash:" + re.sub(r"\W+", "-", rc[0])[:40],
                              f"L0 the listener wrapper crashed the process: {rc[0]} at {rc[1]}", dict(stderr=errtxt[-3000:]))
                return
            raise Inconclusive(f"listener-run failed rc={p.returncode}: {p.stdout[-1500:]} " + errtxt[-1500:])
        s = json.load(open(summ))
        n, bad, st = validate_traces(tmp, tr, "listener_traces.ndjson", "L4ListenerTrace.tla", "L4ListenerTrace.cfg")
        cov["traces_validated_against_impl"] = n
        cov["runs"] = dict(scenarios=len(g["vout"]), delivered_connections=s["delivered"],
                           grid="connection mixes (fall-through / eaten prefix then fall-through / terminal / rejected) x consumer fast|slow|absent x GOMAXPROCS 1|2|16 x stream length x close instant, enumerated by TLC from L4ListenerGrid")
        cov["samples"] = s["samples"][:2] or [dict(note="no short sample in this run")]
        traces = {}
        for line in open(tr):
            t = json.loads(line)
            traces[t["id"]] = t
        for b in bad:
            mine = [c for c in b["clauses"] if c.split()[0] in clauses]
            if mine:
                res.violation("listener:" + "+".join(sorted(c.split()[0] for c in mine)), "; ".join(mine) + f" (trace {b['id']})", traces[b["id"]])
    res.assumptions += ["scripted inner listener and connections (no kernel sockets); the wrapped listener's user is the harness's consumer goroutine",
                        "TLS-terminated fall-through uses the real l4tls matcher and handler (in-process Caddy with a self-signed certificate) and a crypto/tls client over loopback TCP"]


def add_to(res, tier, clauses, pid, only_mix=None):
    """the listener-wrapper runs as a PART of another property's check: violations of `clauses` are reported under
    pid, the coverage goes into res.coverage['listener_wrapper']"""
    sub = Result(pid, tier, res.level)
    listener_pipeline(sub, tier, clauses, pid, only_mix)
    res.violations += sub.violations
    runs = sub.coverage.get("runs", {})
    res.coverage["listener_wrapper"] = dict(clauses=list(clauses), traces_validated_against_impl=sub.coverage["traces_validated_against_impl"],
                                            scenarios=runs.get("scenarios", 0), delivered_connections=runs.get("delivered_connections", 0))
    res.coverage["traces_validated_against_impl"] = res.coverage.get("traces_validated_against_impl", 0) + sub.coverage["traces_validated_against_impl"]


def run(res, tier):
    listener_pipeline(res, tier, ("L1", "L2", "L3", "L4", "L5", "L6", "L7", "L8", "L9", "L10", "L11", "L12"), "C13")


def replay(res, path):
    raise Inconclusive("C13 replays are scenario descriptions; re-run bin/check C13")
