"""C05 - matching is bounded by timeout and buffer limit, never early, fails closed."""
import json
import os

import router
from common import *

LEVEL = "model_checking"


def run(res, tier):
    vdrive = build_harness()
    cov = res.coverage
    # (a) untimed clauses D1-D3 / B1-B2 / R4 on the router model and its replays (scripted socket)
    router.run(res, "C05", tier, want_random=True,
               cfgs=["L4Router_MC_q3.cfg", "L4Router_MC_full.cfg"] if tier == "quick" else None)
    with Scratch("verif-timed-") as tmp:
        copy_specs(tmp)
        # (b) the timed model: one deadline per route list, exact for TCP and UDP
        r = run_tlc(tmp, "L4Timed.tla", "L4Timed_exact.cfg", timeout=600)
        tlc_ok(r, "L4Timed exact")
        cov["states"] += r["distinct"]
        cov["transitions"] += r["generated"]
        rs = run_tlc_expect(tmp, "L4Timed.tla", "L4Timed_seconds.cfg", ["NotEarly"], "TLC no longer finds the early timeout with a deadline stored in whole seconds", timeout=600)
        cov["model_selftest"] = "NotEarly fails in L4Timed with Store=seconds (the pinned commit's packetConn), holds with Store=exact"
        # (c) scaled real time on the real Server.handle / servePacket, TCP and UDP
        g = run_tlc(tmp, "L4TimedGrid.tla", f"L4TimedGrid_{tier}.cfg", workers=1, timeout=300)
        tlc_ok(g, "L4TimedGrid")
        gf = os.path.join(tmp, "grid.ndjson")
        with open(gf, "w") as f:
            for x in g["vout"]:
                f.write(json.dumps(x) + "\n")
        def timed_once(k):
            tr = os.path.join(tmp, f"timed{k}.ndjson")
            summ = os.path.join(tmp, f"timed{k}.sum.json")
            for attempt in range(3):
                run_driver(vdrive, ["timed-run", "-in", gf, "-out", tr, "-summary", summ], timeout=1800)
                s = json.load(open(summ))
                if s["errors"]:
                    raise Inconclusive("timed-run errors: " + "; ".join(s["errors"][:3]))
                if s["max_sleep_overshoot_ms"] <= 100:
                    break
            else:
                raise Inconclusive(f"timed runs disturbed: a 5 ms sleep overshot by {s['max_sleep_overshoot_ms']} ms in three attempts")
            n, bad, st = validate_traces(tmp, tr, "timed_traces.ndjson", "L4TimedTrace.tla", "L4TimedTrace.cfg", max_shards=4)
            traces = {}
            for line in open(tr):
                t = json.loads(line)
                traces[t["id"]] = t
            found = {}
            for b in bad:
                t = traces[b["id"]]
                found[(b["id"], tuple(sorted(b["clauses"])))] = t
            return s, n, found

        # Real time on a shared machine: a scenario is reported only when the same clauses fail for it in three runs of the grid
        # one after the other (a defect of the code fails every time; a goroutine that was not scheduled in time does not);
        # what fails once or twice is counted as disturbed, and too many of those make the check inconclusive.
        s, n, found = timed_once(0)
        first_found = dict(found)
        runs = 1
        while found and runs < 3:
            _, _, again = timed_once(runs)
            found = {k: v for k, v in found.items() if k in again}
            runs += 1
        disturbed = len(first_found) - len(found)
        if disturbed > 5:
            raise Inconclusive(f"timed runs disturbed: {disturbed} scenarios failed a clause once or twice but not three times: " + "; ".join(k[0] for k in list(first_found)[:5]))
        cov["traces_validated_against_impl"] += n
        cov["timed_runs"] = dict(scenarios=s["scenarios"], max_sleep_overshoot_ms=s["max_sleep_overshoot_ms"], grid_runs=runs, disturbed_not_reproduced=disturbed,
                                 grid="transport x {silent,trickle,flood,slowhandler} x timeout(ms) x wall-clock phase(ms), enumerated by TLC from L4TimedGrid")
        cov["samples"] += s["samples"][:2]
        for (tid, clauses), t in found.items():
            sig = "timed:" + t["transport"] + ":" + "+".join(sorted(c.split()[0] for c in clauses))
            res.violation(sig, "; ".join(clauses) + f" (trace {tid}; failed in {runs} runs of the grid in a row)", t)
    res.assumptions += ["scaled real time: early = more than 2 ms before the timeout, late = more than max(250 ms, 25%) after it; runs are repeated when a calibrated sleep overshoots by more than 100 ms; a timed scenario is reported only when it fails the same clauses in three runs of the grid in a row",
                        "times are taken before the connection is handed to the server and after a read returns (one-sided)"]
    cov["checker_cmd"] = "tlc L4Router_MC/L4Timed + vdrive router-replay/router-random/timed-run + tlc L4RouterTrace/L4TimedTrace"


def replay(res, path):
    raise Inconclusive("C05 replays are scenario descriptions; re-run bin/check C05")
