"""C11 - upstream health, failure windows, retries and limits are accounted exactly."""
import json
import os
import subprocess

from common import *

LEVEL = "model_checking"


def run(res, tier):
    vdrive = build_harness()
    cov = res.coverage
    cov.update(states=0, transitions=0, traces_validated_against_impl=0, samples=[], model_runs=[])
    with Scratch("verif-health-") as tmp:
        copy_specs(tmp)
        for cfg in (["L4Health_a.cfg"] if tier == "quick" else ["L4Health_a.cfg", "L4Health_b.cfg", "L4Health_t.cfg"]):
            r = run_tlc(tmp, "L4Health_MC.tla", cfg, timeout=3000)
            tlc_ok(r, cfg)
            cov["states"] += r["distinct"]
            cov["transitions"] += r["generated"]
            cov["model_runs"].append(dict(cfg=cfg, distinct_states=r["distinct"], depth=r["depth"]))
        g = run_tlc(tmp, "L4HealthGrid.tla", f"L4HealthGrid_{tier}.cfg", workers=1, timeout=300)
        tlc_ok(g, "L4HealthGrid")
        gf = os.path.join(tmp, "grid.ndjson")
        with open(gf, "w") as f:
            for x in g["vout"]:
                f.write(json.dumps(x) + "\n")
        def once(k):
            tr = os.path.join(tmp, f"health{k}.ndjson")
            summ = os.path.join(tmp, f"health{k}.sum.json")
            errf = os.path.join(tmp, f"health{k}.err")
            for attempt in range(3):
                with open(errf, "w") as ef:
                    p = subprocess.run([vdrive, "health-run", "-in", gf, "-out", tr, "-summary", summ], stdout=subprocess.PIPE, stderr=ef, text=True, timeout=3000)
                if p.returncode != 0:
                    raise Inconclusive(f"health-run failed rc={p.returncode}: {p.stdout[-1500:]} " + open(errf).read()[-1500:])
                s = json.load(open(summ))
                if s["errors"]:
                    raise Inconclusive("health-run errors: " + "; ".join(s["errors"][:3]))
                if s["max_sleep_overshoot_ms"] <= 40:
                    break
            else:
                raise Inconclusive(f"timed runs disturbed: a 5 ms sleep overshot by {s['max_sleep_overshoot_ms']} ms in three attempts")
            n, bad, st = validate_traces(tmp, tr, "health_traces.ndjson", "L4HealthTrace.tla", "L4HealthTrace.cfg", max_shards=4)
            traces = {}
            for line in open(tr):
                t = json.loads(line)
                traces[t["id"]] = t
            return s, n, {(b["id"], tuple(sorted(b["clauses"]))): traces[b["id"]] for b in bad}

        # real time on a shared machine: a scenario is reported only when it fails the same clauses in three runs of the grid
        # in a row (a defect of the code fails every time); what fails once or twice counts as disturbed
        s, n, found = once(0)
        first_found = dict(found)
        runs = 1
        while found and runs < 3:
            _, _, again = once(runs)
            found = {k: v for k, v in found.items() if k in again}
            runs += 1
        disturbed = len(first_found) - len(found)
        if disturbed > 5:
            raise Inconclusive(f"timed runs disturbed: {disturbed} scenarios failed a clause once or twice but not three times: " + "; ".join(k[0] for k in list(first_found)[:5]))
        cov["traces_validated_against_impl"] = n
        cov["runs"] = dict(scenarios=s["runs"], max_sleep_overshoot_ms=s["max_sleep_overshoot_ms"], grid_runs=runs, disturbed_not_reproduced=disturbed,
                           grid="window (fail_duration x max_fails x failure/wait/sample scripts), retry (try_duration x try_interval x passive checks x upstreams), limit (max_connections | unhealthy_connection_count x upstreams x selection policy; a refusing upstream listed before the serving one, connections retried), active (interval, health port, default interval), fresh (a peer marked down by a handler that is then unloaded, a new handler for the same dial address written host:port or tcp/host:port); enumerated by TLC from L4HealthGrid")
        cov["samples"] = s["samples"][:3]
        for (tid, clauses), t in found.items():
            res.violation("health:" + t["kind"] + ":" + "+".join(sorted(c.split()[0] for c in clauses)),
                          "; ".join(clauses) + f" (trace {tid}, scenario {t['scen']}; failed in {runs} runs of the grid in a row)", t)
    res.assumptions += ["scaled real time (fail_duration 300-600 ms, try_interval 50-250 ms, tolerance 45 ms at window edges, disturbed runs repeated)",
                        "refusing peers are TCP ports bound but not listening; dial failures and failure counting are observed through build-tag hooks, counters through an overlay accessor"]


def replay(res, path):
    raise Inconclusive("C11 replays are scenario descriptions; re-run bin/check C11")
