"""Matcher pipeline (L4Wire / L4WireGrid / L4WireTrace): C14 (V1), C06 (M1-M5; M5 also under C14), C04 (A1-A2)."""
import concurrent.futures
import json
import os
import re
import subprocess

from common import *

PROTOS = ["ssh", "xmpp", "postgres", "socks4", "socks5", "proxy_protocol", "regexp", "clock", "ip", "wireguard", "dns", "rdp", "http", "tls", "winbox", "openvpn", "quic"]
CLAUSES = {"C14": ("V1", "M5"), "C06": ("M1", "M2", "M3", "M4", "M5"), "C04": ("A1", "A2")}


def limit_as():
    """cap the child's address space: a matcher that tries to allocate gigabytes makes the Go
    runtime die with 'out of memory' (attributed to the vector) instead of exhausting the machine"""
    import resource
    resource.setrlimit(resource.RLIMIT_AS, (3 << 30, 3 << 30))


def run(res, pid, tier, protos=None):
    vdrive = build_harness()
    if protos is None and os.environ.get("VERIF_PROTOS"):
        protos = os.environ["VERIF_PROTOS"].split(",")      # debugging aid: a subset of the protocols
    cov = res.coverage
    cov.update(states=0, transitions=0, traces_validated_against_impl=0, samples=[], by_proto={})
    mine = CLAUSES[pid]
    with Scratch("verif-wire-") as tmp:
        copy_specs(tmp)
        vec = os.path.join(tmp, "vectors.ndjson")
        nvec = 0
        with open(vec, "w") as f:
            for p in (protos or PROTOS):
                cfg = f"L4WireGrid_{p}.cfg"
                with open(os.path.join(tmp, cfg), "w") as c:
                    c.write(f'INIT Init\nNEXT Next\nCONSTANTS Proto = "{p}" Tier = "{tier}"\nINVARIANT Emit\nCHECK_DEADLOCK FALSE\n')
                g = run_tlc(tmp, "L4WireGrid.tla", cfg, workers=4, timeout=1800)
                tlc_ok(g, cfg)
                if not g["vout"]:
                    raise Inconclusive(f"no vectors for {p}")
                cov["states"] += g["distinct"]
                cov["transitions"] += g["generated"]
                cov["by_proto"][p] = len(g["vout"])
                for x in g["vout"]:
                    x["gid"] = nvec
                    f.write(json.dumps(x) + "\n")
                    nvec += 1
        # shard over processes; a process killed by the code under test is resumed after the fatal vector
        shards = shard_file(vec, NCPU, tmp, "vec.ndjson")
        fatal = []

        def one(dc):
            d, cnt = dc
            out = os.path.join(d, "obs.ndjson")
            skip = 0
            evals = 0
            for attempt in range(20):
                p = subprocess.run([vdrive, "wire-run", "-in", os.path.join(d, "vec.ndjson"), "-out", out, "-summary", os.path.join(d, "sum.json"), "-skip", str(skip)],
                                   capture_output=True, text=True, timeout=3000, preexec_fn=limit_as, env=dict(os.environ, TMPDIR=d))
                if p.returncode == 0:
                    evals += json.load(open(os.path.join(d, "sum.json")))["evaluations"]
                    return evals
                last = [l for l in p.stdout.splitlines() if l.startswith("VECTOR ")]
                if not last or ("fatal error" not in p.stderr and "panic" not in p.stderr and "signal" not in p.stderr and "out of memory" not in p.stderr):
                    raise Inconclusive(f"wire-run failed rc={p.returncode}: {p.stdout[-800:]} {p.stderr[-1500:]}")
                # a death is the matcher's only if the dying goroutine was inside the code under test (or memory ran out)
                first_block = p.stderr.split("\n\ngoroutine ")[0] + (p.stderr.split("\n\ngoroutine ")[1] if "\n\ngoroutine " in p.stderr else "")
                if "out of memory" not in p.stderr and "github.com/mholt/caddy-l4/" not in first_block:
                    raise Inconclusive(f"wire-run died outside the code under test: {p.stderr[-1500:]}")
                idx = int(last[-1].split()[1])
                line = open(os.path.join(d, "vec.ndjson")).read().splitlines()[idx]
                fatal.append(dict(vector=json.loads(line), stderr=p.stderr[-1500:]))
                skip = idx + 1
            raise Inconclusive("wire-run kept dying")

        with concurrent.futures.ThreadPoolExecutor(max_workers=len(shards)) as ex:
            evals = sum(ex.map(one, shards))
        tr = os.path.join(tmp, "wire_all.ndjson")
        with open(tr, "w") as o:
            for d, _ in shards:
                p = os.path.join(d, "obs.ndjson")
                if os.path.exists(p):
                    for line in open(p):
                        o.write(line)
        with open(os.path.join(tmp, "L4WireTrace.cfg"), "w") as c:
            c.write(f'INIT TInit\nNEXT TNext\nCONSTANT Tier = "{tier}"\nINVARIANT Done\nCHECK_DEADLOCK FALSE\n')
        n, bad, st = validate_traces(tmp, tr, "wire_traces.ndjson", "L4WireTrace.tla", "L4WireTrace.cfg")
        cov["traces_validated_against_impl"] = n
        cov["evaluations_of_real_matchers"] = evals
        cov["vectors"] = nvec
        cov["exhaustive"] = True
        traces = {}
        shown = 0
        for line in open(tr):
            t = json.loads(line)
            traces[t["id"]] = t
            if shown < 3 and len(t["o"]["verdicts"]) < 30:
                cov["samples"].append(t)
                shown += 1
        if pid == "C04":
            for fz in fatal:
                v = fz["vector"]
                res.violation(f"wire:{v['proto']}:fatal:" + sig_of(v), f"A2/A1 the process died evaluating the matcher ({v['proto']} {v['msg']}): " + fz["stderr"][-300:], fz)
        for b in bad:
            t = traces[b["id"]]
            cl = [c for c in b["clauses"] if c.split()[0] in mine]
            if not cl:
                continue
            sig = f"wire:{t['v']['proto']}:" + "+".join(sorted(c.split()[0] for c in cl)) + ":" + sig_of(t["v"])
            res.violation(sig, "; ".join(cl) + f" (vector {t['v']})", t)
    res.assumptions += ["abstract messages are turned into bytes by the harness's own encoders; the reference predicates are the TLA+ operators of L4Wire",
                        "prefix lengths: all up to 96 bytes, then every 61st, and the neighbourhood of the message end; datagram matchers are evaluated on whole and truncated datagrams only",
                        "allocation bound 512 KiB per evaluation (64 x the matching limit; the smaller of two evaluations), measured with runtime/metrics in a single-goroutine process"]


def sig_of(v):
    m = v["msg"]
    keys = sorted(k for k in m if isinstance(m[k], (str, int)) and not isinstance(m[k], bool))
    return ",".join(f"{k}={m[k]}" for k in keys)[:80]
