"""Shared machinery of /verif/bin/check: building the harness from the repository's working
tree, running TLC in scratch directories, sharded trace validation, evidence, verdicts.

Verdict policy (DESIGN.md 2.3): exit 1 only for an execution of the REAL code that TLC rejects
against the property operators; exit 2 for anything inconclusive; never the other way round."""
import fcntl
import hashlib
import json
import os
import re
import shutil
import subprocess
import sys
import tempfile
import time

VERIF = os.path.dirname(os.path.dirname(os.path.abspath(__file__)))
REPO = os.environ.get("VERIF_REPO", "/repo")
SPEC = os.path.join(VERIF, "spec")
HARNESS = os.path.join(VERIF, "harness")
BUILD = os.path.join(VERIF, "build")
NCPU = os.cpu_count() or 4


class Inconclusive(Exception):
    pass


def seed():
    try:
        return int(os.environ.get("VERIF_SEED", "1"))
    except ValueError:
        return 1


def goenv():
    env = dict(os.environ)
    env.update(GOFLAGS="-mod=mod", GOPROXY="off", GOSUMDB="off", GOTOOLCHAIN="local")
    return env


def log(*a):
    print(*a, flush=True)


def repo_fingerprint():
    """hash of the repository's Go sources (working tree, not HEAD)"""
    h = hashlib.sha256()
    for root, dirs, files in os.walk(REPO):
        dirs[:] = sorted(d for d in dirs if d != ".git")
        for f in sorted(files):
            if f.endswith(".go") or f in ("go.mod", "go.sum"):
                p = os.path.join(root, f)
                h.update(p.encode())
                with open(p, "rb") as fh:
                    h.update(fh.read())
    return h.hexdigest()[:16]


def build_harness(race=False):
    """(Re)build the driver from REPO's current working tree with hooks on. Returns its path."""
    os.makedirs(BUILD, exist_ok=True)
    name = "vdrive-race" if race else "vdrive"
    tag = hashlib.sha256(REPO.encode()).hexdigest()[:8]
    out = os.path.join(BUILD, f"{name}-{tag}")
    lock = open(os.path.join(BUILD, ".lock"), "w")
    fcntl.flock(lock, fcntl.LOCK_EX)
    try:
        tmpl = open(os.path.join(HARNESS, "go.mod.tmpl")).read().replace("@REPO@", REPO)
        with open(os.path.join(HARNESS, "go.mod"), "w") as f:
            f.write(tmpl)
        shutil.copy(os.path.join(REPO, "go.sum"), os.path.join(HARNESS, "go.sum"))
        # overlay: files ADDED to repository packages (accessors / in-package replayers); never replaces a file
        overlay = {"Replace": {}}
        ovroot = os.path.join(HARNESS, "overlay")
        for root, _, files in os.walk(ovroot):
            for f in files:
                if f.endswith(".go"):
                    rel = os.path.relpath(os.path.join(root, f), ovroot)
                    overlay["Replace"][os.path.join(REPO, rel)] = os.path.join(root, f)
        ovfile = os.path.join(BUILD, f"overlay-{tag}.json")
        with open(ovfile, "w") as f:
            json.dump(overlay, f)
        for target in overlay["Replace"]:
            if os.path.exists(target):
                raise Inconclusive(f"overlay would replace an existing repository file: {target}")
        cmd = ["go", "build", "-tags", "verif", "-overlay", ovfile, "-o", out]
        if race:
            cmd.append("-race")
        cmd.append("./cmd/vdrive")
        t0 = time.time()
        p = subprocess.run(cmd, cwd=HARNESS, env=goenv(), capture_output=True, text=True)
        if p.returncode != 0:
            raise Inconclusive("harness build failed:\n" + p.stdout + p.stderr)
        log(f"[build] {name} from {REPO} in {time.time() - t0:.1f}s")
    finally:
        fcntl.flock(lock, fcntl.LOCK_UN)
        lock.close()
    return out


class Scratch:
    """a scratch directory outside /repo and /verif, removed on exit"""

    def __init__(self, prefix="verif-"):
        self.prefix = prefix

    def __enter__(self):
        base = os.environ.get("VERIF_TMP") or tempfile.gettempdir()
        self.path = tempfile.mkdtemp(prefix=self.prefix, dir=base)
        return self.path

    def __exit__(self, *exc):
        if os.environ.get("VERIF_KEEP_SCRATCH"):   # debugging aid
            log(f"[scratch kept] {self.path}")
            return
        shutil.rmtree(self.path, ignore_errors=True)


def copy_specs(dst):
    for f in os.listdir(SPEC):
        if f.endswith(".tla") or f.endswith(".cfg"):
            shutil.copy(os.path.join(SPEC, f), dst)


_TLC_NOISE = re.compile(r"^(Parsing file|Semantic processing|Linting of|TLC2 Version|Running|Starting|Computing initial|Finished computing|Progress\()")


def run_tlc(workdir, module, cfg, workers=None, timeout=1800, beh_out=None, extra=None, simulate=None):
    """Run TLC in workdir (specs already copied). Streams stdout: lines <<"BEH", "json">> go to
    beh_out (unescaped, one JSON per line); <<"VBAD", "json">> and <<"VDONE", n>> are collected.
    Returns dict(generated, distinct, depth, errors[list], vbad[list], vdone, beh, wall_s, rc)."""
    workers = workers or NCPU
    md = os.path.join(workdir, "md-" + module + "-" + str(os.getpid()) + "-" + str(time.time_ns()))
    env = dict(os.environ)
    env["JAVA_TOOL_OPTIONS"] = (env.get("JAVA_TOOL_OPTIONS", "") + f" -Djava.io.tmpdir={workdir} -Xss64m").strip()
    cmd = ["timeout", str(timeout), "tlc", "-workers", str(workers), "-metadir", md, "-config", cfg]
    if simulate:
        cmd += ["-simulate", simulate]
    if extra:
        cmd += extra
    cmd.append(module)
    t0 = time.time()
    res = dict(generated=0, distinct=0, depth=0, errors=[], vbad=[], vdone=None, beh=0, out_tail=[], vout=[])
    behf = open(beh_out, "w") if beh_out else None
    p = subprocess.Popen(cmd, cwd=workdir, env=env, stdout=subprocess.PIPE, stderr=subprocess.STDOUT, text=True, bufsize=1 << 20)
    err_ctx = 0
    for line in p.stdout:
        if line.startswith('<<"BEH", "'):
            s = line.rstrip("\n")[len('<<"BEH", "'):-3].replace('\\"', '"').replace("\\\\", "\\")
            res["beh"] += 1
            if behf:
                behf.write(s + "\n")
            continue
        if line.startswith('<<"VBAD", "'):
            s = line.rstrip("\n")[len('<<"VBAD", "'):-3].replace('\\"', '"').replace("\\\\", "\\")
            res["vbad"].append(json.loads(s))
            continue
        if line.startswith('<<"VOUT", "'):
            s = line.rstrip("\n")[len('<<"VOUT", "'):-3].replace('\\"', '"').replace("\\\\", "\\")
            res["vout"].append(json.loads(s))
            continue
        if line.startswith('<<"VDONE", '):
            res["vdone"] = int(line.rstrip("\n")[len('<<"VDONE", '):-2])
            continue
        if _TLC_NOISE.match(line):
            continue
        m = re.match(r"^(\d+) states generated, (\d+) distinct states found", line)
        if m:
            res["generated"], res["distinct"] = int(m.group(1)), int(m.group(2))
        m = re.match(r"^The depth of the complete state graph search is (\d+)", line)
        if m:
            res["depth"] = int(m.group(1))
        if line.startswith("Error:") or "Exception" in line:
            res["errors"].append(line.strip())
            err_ctx = 60
        if err_ctx > 0:
            err_ctx -= 1
        res["out_tail"].append(line.rstrip("\n"))
        if len(res["out_tail"]) > 400:
            del res["out_tail"][:200]
    p.wait()
    if behf:
        behf.close()
    res["rc"] = p.returncode
    res["wall_s"] = time.time() - t0
    shutil.rmtree(md, ignore_errors=True)
    if p.returncode == 124:
        raise Inconclusive(f"TLC timed out after {timeout}s on {module}/{cfg}")
    return res


def run_tlc_expect(workdir, module, cfg, needles, what, timeout=900):
    """A model run that MUST report a violation naming one of `needles` (vacuity self-tests: the model of the
    behaviour before a fix, a deliberately wrong variant). Tried a second time with one worker before the check
    gives up, and then the reason carries TLC's own output - a JVM that could not start on a busy machine is not
    'the invariant has become vacuous'."""
    last = None
    for attempt, workers in enumerate((None, 1)):
        r = run_tlc(workdir, module, cfg, workers=workers, timeout=timeout)
        if any(any(n in e for n in needles) for e in r["errors"]):
            return r
        last = r
        time.sleep(2)
    raise Inconclusive(f"self-test: {what} (TLC rc={last['rc']}, errors {last['errors'][:3]}, {last['distinct']} states)\n" + "\n".join(last["out_tail"][-25:]))


def tlc_ok(res, what):
    """TLC finished without any error (invariant violations are errors too)"""
    if res["errors"] or res["rc"] not in (0,):
        raise Inconclusive(f"TLC reported errors on {what}: rc={res['rc']} " + " | ".join(res["errors"][:3]) + "\n" + "\n".join(res["out_tail"][-40:]))


def shard_file(path, n, outdir, name):
    """split an NDJSON file round-robin into at most n shards; returns [(shard_path, count)]"""
    outs = []
    files = []
    counts = []
    with open(path) as f:
        for i, line in enumerate(f):
            k = i % n
            if k >= len(files):
                d = os.path.join(outdir, f"shard{k}")
                os.makedirs(d, exist_ok=True)
                p = os.path.join(d, name)
                files.append(open(p, "w"))
                outs.append(d)
                counts.append(0)
            files[k].write(line)
            counts[k] += 1
    for fh in files:
        fh.close()
    return list(zip(outs, counts))


def validate_traces(scratch, trace_file, trace_name, module, cfg, max_shards=None, timeout=1800):
    """Trace validation: shard trace_file over parallel single-worker TLC runs of module/cfg.
    Returns (validated_count, vbad_list, states). Raises Inconclusive when a shard does not
    consume all its lines."""
    import concurrent.futures
    n = sum(1 for _ in open(trace_file))
    if n == 0:
        return 0, [], 0
    keep = os.environ.get("VERIF_KEEP_TRACES")
    if keep:
        # harvest a few recorded traces (tools/selftest_binding.py corrupts them to demonstrate the binding)
        os.makedirs(keep, exist_ok=True)
        with open(os.path.join(keep, module.replace(".tla", "") + "." + trace_name), "a") as o:
            for i, line in enumerate(open(trace_file)):
                if i % max(1, n // 12) == 0:
                    o.write(line)
    # at most 25 000 lines per TLC run (one JVM deserialises its whole shard), at most NCPU runs at a time
    want = max(min(max_shards or NCPU, max(1, n // 50 + 1)), (n + 24999) // 25000)
    shards = shard_file(trace_file, want, scratch, trace_name)
    for d, _ in shards:
        copy_specs(d)

    def one(dc):
        d, cnt = dc
        r = run_tlc(d, module, cfg, workers=1, timeout=timeout)
        if r["vdone"] != cnt or r["errors"]:
            raise Inconclusive(f"trace validation did not consume every line ({r['vdone']} of {cnt}) in {d}: " + " | ".join(r["errors"][:3]) + "\n" + "\n".join(r["out_tail"][-30:]))
        return r

    bad = []
    states = 0
    with concurrent.futures.ThreadPoolExecutor(max_workers=min(len(shards), NCPU)) as ex:
        for r in ex.map(one, shards):
            bad += r["vbad"]
            states += r["distinct"]
    return n, bad, states


def load_known():
    p = os.path.join(VERIF, "known_findings.json")
    try:
        return json.load(open(p))
    except Exception as e:
        raise Inconclusive(f"cannot read {p}: {e}")


class Result:
    def __init__(self, pid, tier, level):
        self.pid, self.tier, self.level = pid, tier, level
        self.violations = []   # dicts: signature, what, replay (object written to replays/)
        self.coverage = {}
        self.assumptions = []
        self.t0 = time.time()

    def violation(self, signature, what, replay):
        self.violations.append(dict(signature=signature, what=what, replay=replay))


def finish(res):
    """apply known findings, write replays and evidence, print verdict lines, return exit code"""
    known = [k for k in load_known().get("known", []) if k.get("property") == res.pid]
    os.makedirs(os.path.join(VERIF, "replays"), exist_ok=True)
    new, kf = [], {}
    for v in res.violations:
        hit = None
        for k in known:
            if re.fullmatch(k["signature"], v["signature"]):
                hit = k
                break
        if hit:
            kf.setdefault(hit["signature"], [hit, 0])
            kf[hit["signature"]][1] += 1
        else:
            new.append(v)
    for sig, (k, cnt) in kf.items():
        log(f"KNOWN-FINDING: property={res.pid} {k['what']} (signature {sig}, {cnt} occurrence(s) in this run)")
    # replays of earlier runs of this property are stale
    for old in os.listdir(os.path.join(VERIF, "replays")):
        if old.startswith(res.pid + "-"):
            os.remove(os.path.join(VERIF, "replays", old))
    rc = 0
    seen = set()
    for v in new:
        if v["signature"] in seen:
            continue
        seen.add(v["signature"])
        name = re.sub(r"[^A-Za-z0-9_.-]+", "_", f"{res.pid}-{v['signature']}")[:120] + ".json"
        path = os.path.join(VERIF, "replays", name)
        with open(path, "w") as f:
            json.dump(dict(property=res.pid, signature=v["signature"], what=v["what"], replay=v["replay"]), f, indent=1)
        log(f"VIOLATION property={res.pid} replay={path}")
        log(f"  {v['what']}")
        rc = 1
        if len(seen) >= 10:
            break
    if new:
        sigs = {}
        for v in new:
            sigs[v["signature"]] = sigs.get(v["signature"], 0) + 1
        res.coverage["violation_signatures"] = dict(sorted(sigs.items(), key=lambda kv: -kv[1])[:100])
    ev = dict(property_id=res.pid, tier=res.tier, seed=seed(), level=res.level, coverage=res.coverage,
              assumptions=res.assumptions, wall_s=round(time.time() - res.t0, 2), violations=len(new),
              known_findings=sum(c for _, c in kf.values()), repo=REPO)
    os.makedirs(os.path.join(VERIF, "evidence"), exist_ok=True)
    with open(os.path.join(VERIF, "evidence", res.pid + ".json"), "w") as f:
        json.dump(ev, f, indent=1)
    log(f"[{res.pid}] tier={res.tier} seed={seed()} violations={len(new)} known={ev['known_findings']} wall={ev['wall_s']}s")
    return rc


class RepoCrash(Exception):
    """a driver process died in a goroutine that was running code of the repository under test"""
    def __init__(self, msg, site, driver, tail):
        super().__init__(msg)
        self.msg, self.site, self.driver, self.tail = msg, site, driver, tail


def repo_crash(errtxt):
    """(message, site) when the process was killed by a panic or a fatal runtime error (e.g. concurrent map writes) raised in
    a goroutine whose stack holds frames of the repository under test; None otherwise (harness fault, OOM, timeout ...)"""
    m = re.search(r"^(panic|fatal error): (.*)$", errtxt, re.M)
    if not m:
        return None
    blocks = errtxt[m.start():].split("\n\ngoroutine ")
    first = blocks[0] + (blocks[1] if len(blocks) > 1 else "")
    if "github.com/mholt/caddy-l4/" not in first:
        return None
    site = re.search(r"/((?:layer4|modules/\w+)/[\w.]+\.go:\d+)", first)
    return m.group(1) + ": " + m.group(2), (site.group(1) if site else "?")


def run_driver(binpath, args, timeout=1800, env=None, ok_codes=(0,)):
    e = dict(os.environ)
    if env:
        e.update(env)
    p = subprocess.run([binpath] + args, capture_output=True, text=True, timeout=timeout, env=e)
    if p.returncode not in ok_codes:
        rc = repo_crash(p.stderr)
        if rc:
            raise RepoCrash(rc[0], rc[1], " ".join(args[:1]), p.stderr[-3000:])
        raise Inconclusive(f"driver {' '.join(args[:1])} failed rc={p.returncode}:\n{p.stdout[-3000:]}\n{p.stderr[-3000:]}")
    return p
