"""C02 - routes run in order and only when matched; otherwise the fallback runs once."""
import json

import router
from common import *

LEVEL = "model_checking"


def run(res, tier):
    router.run(res, "C02", tier)
    # fallback = hand-off to a wrapped listener: exactly once, only fall-through connections, stream intact, not closed before
    import check_c13
    check_c13.add_to(res, tier, ("L1", "L2", "L3", "L4"), "C02")
    res.coverage["checker_cmd"] = "tlc L4Router_MC.tla (PropsHold on RouterImpl) + vdrive router-replay/router-random + tlc L4RouterTrace.tla"


def replay(res, path):
    router.replay(res, "C02", path)
