"""C12 - PROXY protocol: received headers stripped and honoured, sent headers exact."""
import json
import os
import subprocess

from common import *

LEVEL = "model_checking"


def run(res, tier, only=None, pid="C12"):
    """only: restrict the reported clauses to those whose name is in `only` (C04 reuses the receive grid for Q0)"""
    vdrive = build_harness()
    cov = res.coverage if only is None else {}
    with Scratch("verif-pp-") as tmp:
        copy_specs(tmp)
        g = run_tlc(tmp, "L4ProxyProtoGrid.tla", f"L4ProxyProtoGrid_{tier}.cfg", timeout=900)
        tlc_ok(g, "L4ProxyProtoGrid")
        gf = os.path.join(tmp, "cases.ndjson")
        with open(gf, "w") as f:
            for x in g["vout"]:
                f.write(json.dumps(x) + "\n")
        tr = os.path.join(tmp, "pp.ndjson")
        summ = os.path.join(tmp, "pp.sum.json")
        errf = os.path.join(tmp, "pp.err")
        with open(errf, "w") as ef:
            p = subprocess.run([vdrive, "pp-run", "-in", gf, "-out", tr, "-summary", summ], stdout=subprocess.PIPE, stderr=ef, text=True, timeout=3000)
        if p.returncode != 0:
            raise Inconclusive(f"pp-run failed rc={p.returncode}: {p.stdout[-1500:]} " + open(errf).read()[-1500:])
        s = json.load(open(summ))
        if s["errors"]:
            raise Inconclusive("pp-run errors: " + "; ".join(s["errors"][:3]))
        if s["recv"] + s["send"] != len(g["vout"]):
            raise Inconclusive(f"pp-run ran {s['recv'] + s['send']} of {len(g['vout'])} cases")
        n, bad, st = validate_traces(tmp, tr, "pp_traces.ndjson", "L4ProxyProtoTrace.tla", "L4ProxyProtoTrace.cfg")
        cov.update(states=g["distinct"], transitions=g["generated"], traces_validated_against_impl=n, exhaustive=True,
                   cases=dict(receive=s["recv"], send=s["send"],
                              rule="receive: version x family (TCP4, TCP6, v1 UNKNOWN, v2 LOCAL) x boundary addresses x peer (no allow list / one range: inside, outside / two ranges: in the more specific, in the broader, in neither) x segmentation (whole, header|rest, mid-header, byte-wise) x bytes prefetched by an earlier matcher (none, part, header, header+1, all) x payload; send: v1|v2 x direct / behind a receiving proxy_protocol handler x family x addresses x 1-2 peers x payload x prefetched bytes; enumerated exhaustively by TLC from L4ProxyProtoGrid"),
                   samples=s["samples"][:3])
        traces = {}
        for line in open(tr):
            t = json.loads(line)
            traces[t["id"]] = t
        for b in bad:
            t = traces[b["id"]]
            c = t["case"]
            cl = [x for x in b["clauses"] if only is None or x.split()[0] in only]
            if not cl:
                continue
            sig = "pp:" + c["kind"] + ":" + str(c["fam"]) + ":" + (c["peer"] or c["via"]) + ":" + "+".join(sorted(x.split()[0] for x in cl))
            res.violation(sig, "; ".join(cl) + f" (trace {b['id']}, case {c}, observed {t['obs']})", t)
        if only is not None:
            return dict(cases=s["recv"] + s["send"])
    if only is None:
        # the handler in a non-terminal route of a LISTENER WRAPPER (pooled matching buffers handed from connection to
        # connection): the wrapped listener's consumer reads the stream from the first byte after the header ("ppfall" mixes of
        # the C13 grid, clause L3 = Q1 for that reader)
        import check_c13
        check_c13.add_to(res, tier, ("L3",), "C12", only_mix="ppfall")
    res.assumptions += ["headers are produced and parsed by the harness's own encoder/parser (written from the haproxy specification); v2 TLVs are not generated (the library the handler uses rejects them)",
                        "receive cases run on a scripted connection, send cases over loopback TCP"]


def replay(res, path):
    raise Inconclusive("C12 replays are single cases; re-run bin/check C12")
