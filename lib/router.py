"""Router pipeline (L4Router / L4RouterAbs / L4RouterTrace): used by C02, and for their router
clauses by C01 (R7) and C05 (D1-D3, B1, B2)."""
import json
import os

from common import *

CLAUSES = {
    "C02": ("R1", "R2", "R3", "R4", "R5a", "R5b", "R5c", "R7", "P0"),
    "C01": ("R7", "R8", "P0"),
    "C05": ("D0", "D1", "D2", "D2b", "D3", "B1", "B2", "B3", "R1e", "R4", "R5a", "R5b"),
}

# bytes per model unit when a configuration's behaviours are replayed on the real code
SCALE = {"L4Router_MC_c01.cfg": 4}

# (cfg file, tier) : exhaustive model configurations; every terminal behaviour is replayed
MC_CFGS = {
    "quick": ["L4Router_MC_q.cfg", "L4Router_MC_q3.cfg", "L4Router_MC_full.cfg"],
    "thorough": ["L4Router_MC_q.cfg", "L4Router_MC_q3.cfg", "L4Router_MC_full.cfg", "L4Router_MC_t3.cfg", "L4Router_MC_t2.cfg"],
}


def signature_of(trace, clauses):
    """a violation is identified by the violated clauses and the handler kinds involved"""
    kinds = set()
    for lst in trace["cfg"]["lists"]:
        for r in lst:
            for h in r["hs"]:
                kinds.add(h["k"])
    return "router:" + "+".join(sorted(c.split()[0] for c in clauses)) + ":" + "+".join(sorted(kinds & {"wrap", "sub", "eat", "term", "pp", "thr", "tee", "echo", "tls"}))


def run(res, pid, tier, want_random=True, cfgs=None):
    vdrive = build_harness()
    clauses_of = CLAUSES[pid]
    cov = res.coverage
    cov.setdefault("states", 0)
    cov.setdefault("transitions", 0)
    cov.setdefault("traces_validated_against_impl", 0)
    cov.setdefault("samples", [])
    cov["model_runs"] = []
    traces_by_id = {}
    with Scratch("verif-router-") as tmp:
        copy_specs(tmp)
        alltr = os.path.join(tmp, "all_traces.ndjson")
        open(alltr, "w").close()
        replayed = identical = 0
        for cfg in (cfgs or MC_CFGS[tier]):
            beh = os.path.join(tmp, cfg + ".beh.ndjson")
            r = run_tlc(tmp, "L4Router_MC.tla", cfg, beh_out=beh, timeout=3000)
            tlc_ok(r, cfg)   # PropsHold / TypeOK hold on every state of RouterImpl
            cov["states"] += r["distinct"]
            cov["transitions"] += r["generated"]
            diff = os.path.join(tmp, cfg + ".diff.ndjson")
            summ = os.path.join(tmp, cfg + ".sum.json")
            run_driver(vdrive, ["router-replay", "-in", beh, "-out", diff, "-summary", summ, "-scale", str(SCALE.get(cfg, 1024)),
                                "-reps", "2" if tier == "thorough" else "1"], timeout=3000)
            s = json.load(open(summ))
            if s["replayed"] < r["beh"] or r["beh"] == 0:
                raise Inconclusive(f"{cfg}: TLC emitted {r['beh']} behaviours, driver replayed {s['replayed']}")
            replayed += s["replayed"]
            identical += s["identical_to_prediction"]
            cov["model_runs"].append(dict(cfg=cfg, distinct_states=r["distinct"], depth=r["depth"], behaviours=r["beh"],
                                          replayed_on_real_code=s["replayed"], identical_to_prediction=s["identical_to_prediction"],
                                          different=s["different"], tlc_wall_s=round(r["wall_s"], 1)))
            if len(cov["samples"]) < 3 and s["samples"]:
                cov["samples"].append(dict(kind="TLC behaviour replayed on real RouteList.Compile, recorded history identical", behaviour=s["samples"][0]))
            with open(alltr, "a") as o:
                for line in open(diff):
                    o.write(line)
        cov["drift"] = dict(replayed=replayed, identical_to_prediction=identical,
                            note="behaviours whose recorded history differs from the model's prediction are judged individually by TLC (L4RouterTrace); a difference that violates no clause is model drift, not a violation")
        nrandom = 0
        if want_random:
            n = 400 if tier == "quick" else 20000
            rnd = os.path.join(tmp, "random.ndjson")
            summ = os.path.join(tmp, "random.sum.json")
            run_driver(vdrive, ["router-random", "-out", rnd, "-summary", summ, "-seed", str(seed()), "-n", str(n)], timeout=3000)
            s = json.load(open(summ))
            nrandom = s["instances"]
            cov["random_instances"] = dict(n=nrandom, with_handled_route=s["with_handled_route"],
                                           rule="<=8 routes, <=3 sets x <=3 matchers incl. not, handler chains <=3, subroute nesting <=3, streams 0..40960 bytes, trickle / chunk-aligned / random read schedules, eof or silent end")
            if s["samples"]:
                cov["samples"].append(dict(kind="random instance recorded from real code, validated by TLC", trace=s["samples"][0]))
            with open(alltr, "a") as o:
                for line in open(rnd):
                    o.write(line)
        for line in open(alltr):
            t = json.loads(line)
            traces_by_id[t["id"]] = t
        n, bad, st = validate_traces(tmp, alltr, "router_traces.ndjson", "L4RouterTrace.tla", "L4RouterTrace.cfg")
        cov["traces_validated_against_impl"] += identical + n
        cov["traces_judged_individually_by_tlc"] = n
        for b in bad:
            mine = [c for c in b["clauses"] if c.split()[0] in clauses_of]
            if not mine:
                continue
            t = traces_by_id[b["id"]]
            res.violation(signature_of(t, mine), "; ".join(mine) + f" (trace {b['id']})", t)
    res.assumptions += [
        "scripted matchers are monotone threshold matchers (need-more below a byte count, then a fixed verdict); scripted handlers terminal/pass/eat/wrap plus the real l4subroute",
        "a recorded history identical to a behaviour of RouterImpl is accepted because TLC evaluated the same property operators on that behaviour in the exhaustive run",
        "socket reads are scripted (no real time): timing clauses of C05 are checked by the timed driver, not here",
    ]


def replay(res, pid, path):
    """re-run one stored violation on the real code and let TLC judge it again"""
    vdrive = build_harness()
    with Scratch("verif-router-") as tmp:
        copy_specs(tmp)
        tr = os.path.join(tmp, "one.ndjson")
        run_driver(vdrive, ["router-one", "-in", path, "-out", tr])
        n, bad, st = validate_traces(tmp, tr, "router_traces.ndjson", "L4RouterTrace.tla", "L4RouterTrace.cfg")
        t = json.loads(open(tr).readline())
        res.coverage.update(states=max(st, 1), transitions=max(st, 1), traces_validated_against_impl=n, samples=[t])
        for b in bad:
            mine = [c for c in b["clauses"] if c.split()[0] in CLAUSES[pid]]
            if mine:
                res.violation(signature_of(t, mine), "; ".join(mine) + f" (trace {b['id']})", t)
