"""C18 - wire-message codecs (OpenVPN, WireGuard, Winbox, RDP) are exact inverses."""
import json
import os
import subprocess

from common import *

LEVEL = "exploration"
TYPES = ["rdp.TPKTHeader", "rdp.X224Crq", "rdp.RDPNegReq", "rdp.RDPCorrInfo", "rdp.RDPToken", "wireguard.MessageInitiation", "wireguard.MessageTransport",
         "openvpn.MessageHeader", "openvpn.MessagePlain", "openvpn.MessageAuth", "openvpn.MessageCrypt", "openvpn.WrappedKey", "openvpn.MessageCrypt2",
         "winbox.MessageAuth"]
SEAL_TYPES = ["openvpn.MessageAuth", "openvpn.MessageCrypt", "openvpn.WrappedKey", "openvpn.MessageCrypt2"]


def run(res, tier):
    vdrive = build_harness()
    cov = res.coverage
    cov.update(evaluations=0, distinct_nontrivial=0, exhaustive=True, by_type={}, samples=[])
    dev = 1 if tier == "quick" else 2
    with Scratch("verif-codec-") as tmp:
        copy_specs(tmp)
        gf = os.path.join(tmp, "cases.ndjson")
        n = 0
        with open(gf, "w") as f:
            for t in TYPES:
                cfg = "L4CodecGrid_" + t.replace(".", "_") + ".cfg"
                with open(os.path.join(tmp, cfg), "w") as c:
                    c.write(f'INIT Init\nNEXT Next\nCONSTANTS Type = "{t}" Dev = {dev}\nINVARIANT Emit\nCHECK_DEADLOCK FALSE\n')
                g = run_tlc(tmp, "L4CodecGrid.tla", cfg, workers=4, timeout=3000)
                tlc_ok(g, cfg)
                if not g["vout"]:
                    raise Inconclusive(f"no cases for {t}")
                for x in g["vout"]:
                    f.write(json.dumps(x) + "\n")
                    n += 1
        tr = os.path.join(tmp, "codec.ndjson")
        summ = os.path.join(tmp, "codec.sum.json")
        run_driver(vdrive, ["codec-run", "-in", gf, "-out", tr, "-summary", summ], timeout=3000)
        s = json.load(open(summ))
        if s["cases"] != n:
            raise Inconclusive(f"codec-run ran {s['cases']} of {n} cases")
        # vacuity: every type must have accepted inputs, round-trips and (where it holds) agreement with the reference layout
        for t in TYPES:
            st = s["by_type"].get(t, {})
            if not st.get("accepted") or not st.get("roundtrips"):
                raise Inconclusive(f"vacuous run for {t}: {st}")
        nv, bad, st = validate_traces(tmp, tr, "codec_traces.ndjson", "L4CodecTrace.tla", "L4CodecTrace.cfg")
        cov.update(evaluations=n, distinct_nontrivial=n, by_type=s["by_type"], samples=s["samples"][:2], traces_validated_against_impl=nv,
                   rule="per exported wire-message type: the base message (distinct ascending byte patterns per field) with up to %d field(s) replaced by boundary values (zero, all ones, high bit, low bit; boundary lengths of variable fields; legal and illegal opcodes / parities / user names), serialised by the real ToBytes and parsed back; and the reference encoding Encode(T, m) of L4Codec offered to the real FromBytes whole, cut by 1-2 bytes and extended by 1, 2 and 257 bytes; enumerated exhaustively by TLC" % dev)
        traces = {}
        for line in open(tr):
            t = json.loads(line)
            traces[t["id"]] = t
        for b in bad:
            t = traces[b["id"]]
            c = t["c"]
            ks = "+".join(sorted(x.split()[0] for x in b["clauses"]))
            res.violation(f"codec:{c['type']}:{ks}:delta{c['delta']}", "; ".join(b["clauses"]) + f" (type {c['type']}, delta {c['delta']}, {len(c['bytes'])} bytes offered)", t)
        # clause K4: the OpenVPN types whose wire form is made by signing / encrypting a message
        sf = os.path.join(tmp, "seal_cases.ndjson")
        ns = 0
        with open(sf, "w") as f:
            for t in SEAL_TYPES:
                cfg = "L4CodecSealGrid_" + t.replace(".", "_") + ".cfg"
                with open(os.path.join(tmp, cfg), "w") as c:
                    c.write(f'INIT Init\nNEXT Next\nCONSTANTS Type = "{t}"\nINVARIANT Emit\nCHECK_DEADLOCK FALSE\n')
                g = run_tlc(tmp, "L4CodecSealGrid.tla", cfg, workers=2, timeout=900)
                tlc_ok(g, cfg)
                if not g["vout"]:
                    raise Inconclusive(f"no sealed cases for {t}")
                for x in g["vout"]:
                    f.write(json.dumps(x) + "\n")
                    ns += 1
        str_ = os.path.join(tmp, "seal.ndjson")
        ssum = os.path.join(tmp, "seal.sum.json")
        run_driver(vdrive, ["codec-seal", "-in", sf, "-out", str_, "-summary", ssum], timeout=1800)
        ss = json.load(open(ssum))
        if ss["cases"] != ns:
            raise Inconclusive(f"codec-seal ran {ss['cases']} of {ns} cases")
        nsv, sbad, _ = validate_traces(tmp, str_, "seal_traces.ndjson", "L4CodecSealTrace.tla", "L4CodecSealTrace.cfg")
        cov["sealed"] = dict(cases=ns, by_type=ss["by_type"], validated=nsv,
                             rule="MessageAuth / MessageCrypt / WrappedKey / MessageCrypt2: boundary values of session id, replay packet id, timestamp, packet id, "
                                  "client key (ascending / all ones / all zero), meta data absent / 4 / 32 bytes of both types; signed (and encrypted) by the real code with a fixed key, "
                                  "ToBytes, FromBytes, authenticated (and decrypted) with the same key; enumerated exhaustively by TLC")
        cov["evaluations"] += ns
        cov["traces_validated_against_impl"] += nsv
        straces = {}
        for line in open(str_):
            t = json.loads(line)
            straces[t["id"]] = t
        seen = set()
        for b in sbad:
            t = straces[b["id"]]
            c = t["c"]
            why = "; ".join(b["clauses"])
            key = (c["type"], why)
            if key in seen:
                continue
            seen.add(key)
            res.violation(f"codec-seal:{c['type']}:K4:meta{len(c['clear']['meta'])}", why + f" (type {c['type']}, meta data {len(c['clear']['meta'])} bytes, {t['o'].get('err', '')})", t)
    res.assumptions += ["the reference layouts (field order, widths, byte order, chunking) are the TLA+ data of L4Codec, transcribed from the layouts documented in the repository and the protocol documents it cites",
                        "agreement of ToBytes with the reference layout is counted in by_type.layout_agrees, not demanded: the property speaks of inverses",
                        "the harness adapters only move field values between the abstract message and the repository's structs"]


def replay(res, path):
    raise Inconclusive("C18 replays are single cases; re-run bin/check C18")
