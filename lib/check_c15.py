"""C15 - Caddyfile and JSON configurations are equivalent, loadable and round-trip."""
import json
import os
import subprocess

from common import *

LEVEL = "exploration"


def run(res, tier):
    vdrive = build_harness()
    cov = res.coverage
    with Scratch("verif-cfg-") as tmp:
        copy_specs(tmp)
        g = run_tlc(tmp, "L4ConfigGrid.tla", f"L4ConfigGrid_{tier}.cfg", timeout=1800)
        tlc_ok(g, "L4ConfigGrid")
        gf = os.path.join(tmp, "terms.ndjson")
        with open(gf, "w") as f:
            for x in g["vout"]:
                f.write(json.dumps(x) + "\n")
        tr = os.path.join(tmp, "cfg.ndjson")
        summ = os.path.join(tmp, "cfg.sum.json")
        errf = os.path.join(tmp, "cfg.err")
        with open(errf, "w") as ef:
            p = subprocess.run([vdrive, "cfg-run", "-in", gf, "-out", tr, "-summary", summ], stdout=subprocess.PIPE, stderr=ef, text=True, timeout=3000)
        if p.returncode != 0:
            raise Inconclusive(f"cfg-run failed rc={p.returncode}: {p.stdout[-1500:]} " + open(errf).read()[-1500:])
        s = json.load(open(summ))
        if s["terms"] != len(g["vout"]):
            raise Inconclusive(f"cfg-run handled {s['terms']} of {len(g['vout'])} terms")
        n, bad, st = validate_traces(tmp, tr, "cfg_traces.ndjson", "L4ConfigTrace.tla", "L4ConfigTrace.cfg")
        cov.update(evaluations=n, distinct_nontrivial=len(g["vout"]), exhaustive=True,
                   rule="configuration terms of the bounded grammar of L4Config (18 matchers incl. options, matcher sets of 1-2 matchers, 0-2 sets per route, 9 terminal handlers incl. proxy with health checks / load balancing / multi-address upstreams / proxy_protocol, socks5, nested subroute, behind proxy_protocol / tls / throttle / tee prefixes; 1-2 servers, option-order and number-of-global-blocks printing choices, global-option and listener-wrapper forms); every term is distinct",
                   samples=s["samples"][:2])
        traces = {}
        for line in open(tr):
            t = json.loads(line)
            traces[t["id"]] = t
        for b in bad:
            t = traces[b["id"]]
            res.violation("cfg:" + "+".join(sorted(c.split()[0] for c in b["clauses"])) + ":" + (t.get("err") or "")[:60],
                          "; ".join(b["clauses"]) + f" ({t.get('err', '')}) Caddyfile:\n" + t["caddyfile"][:1500], t)
    res.assumptions += ["the Caddyfile printer is harness code written from the syntax documented on each UnmarshalCaddyfile; options whose Caddyfile form is undocumented are left out",
                        "TLC is used as a bounded-exhaustive term generator; the oracle is the identity between the term and the adapted JSON"]


def replay(res, path):
    raise Inconclusive("C15 replays are single terms; re-run bin/check C15")
