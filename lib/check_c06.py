import wire
from common import *

LEVEL = "exploration"


def run(res, tier):
    wire.run(res, "C06", tier)
    c = res.coverage
    c["evaluations"] = c.pop("evaluations_of_real_matchers")
    c["distinct_nontrivial"] = c["vectors"]
    c["rule"] = "vectors = abstract first messages over boundary field domains x filter configurations, enumerated exhaustively per protocol by TLC from L4Wire; every vector is distinct; non-trivial: all (each one is evaluated on the real matcher at every sampled prefix length)"


def replay(res, path):
    raise Inconclusive("C06 replays are single vectors; re-run bin/check C06")
