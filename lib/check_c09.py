"""C09 - UDP datagrams are demultiplexed per client, in order; the loop never crashes."""
import json
import os
import re
import subprocess

from common import *

LEVEL = "model_checking"


def grid(tmp, module, tier):
    r = run_tlc(tmp, module + ".tla", f"{module}_{tier}.cfg", workers=1, timeout=300)
    tlc_ok(r, module)
    return r["vout"]


def run_child(vdrive, args, timeout=1500):
    """run a driver that may be killed by a panic of the code under test; returns (rc, stdout, stderr)"""
    p = subprocess.run([vdrive] + args, capture_output=True, text=True, timeout=timeout)
    return p.returncode, p.stdout, p.stderr


def crash_violation(res, out, err, kind):
    m = re.search(r"^(?:panic|fatal error): (.*)$", err, re.M)
    msg = m.group(1) if m else "driver died"
    site = re.search(r"(layer4/\w+\.go:\d+)", err)
    scen = [l for l in out.splitlines() if l.startswith("SCENARIO")]
    sig = "udp:crash:" + re.sub(r"[^a-z]+", "-", msg.lower()).strip("-")
    res.violation(sig, f"U0 the server loop crashed: panic: {msg} at {site.group(1) if site else '?'} during {scen[-1] if scen else '?'}",
                  dict(kind=kind, scenario=scen[-1] if scen else None, panic=msg, stack=err[-3000:]))


def run(res, tier):
    vdrive = build_harness()
    cov = res.coverage
    with Scratch("verif-udp-") as tmp:
        copy_specs(tmp)
        # 1. the protocol itself: exhaustive small scope (repaired protocol = what the code does now)
        r = run_tlc(tmp, "L4Udp.tla", "L4Udp_fixed.cfg" if tier == "quick" else "L4Udp_fixed_t.cfg", timeout=3000)
        tlc_ok(r, "L4Udp fixed")
        cov.update(states=r["distinct"], transitions=r["generated"], depth=r["depth"])
        # vacuity / self-test: the same invariants must FAIL on the protocol as it was at the pinned commit
        rp = run_tlc_expect(tmp, "L4Udp.tla", "L4Udp_pinned.cfg", ["NoCrash", "NoStaleDelete"], "TLC no longer finds the crash in the pinned-commit protocol (invariants vacuous?)", timeout=600)
        cov["model_selftest"] = "TLC finds the send-on-closed-channel crash in Mode=pinned in %d states" % rp["distinct"]
        # shutdown with handlers still running (beyond C09's "never crashes"): safety holds; the liveness property ClosersEnd
        # (a handler that has come back gets through Close) fails for the code as it is and holds for a Close that gives up
        rs = run_tlc(tmp, "L4Udp.tla", "L4Udp_shutdown.cfg", timeout=900)
        rsf = run_tlc(tmp, "L4Udp.tla", "L4Udp_shutdown_fixed.cfg", timeout=900)
        tlc_ok(rsf, "L4Udp shutdown, Close gives up")
        if any(x in e for e in rs["errors"] for x in ("NoCrash", "NoStaleDelete", "OwnClientOnly", "InOrder")):
            raise Inconclusive(f"L4Udp_shutdown: a safety invariant fails in the model of the repaired protocol: {rs['errors'][:2]}")
        cov["model_shutdown"] = dict(states=rs["distinct"], closers_end_violated_as_is=any("ClosersEnd" in e for e in rs["errors"]), closers_end_holds_when_close_gives_up=True,
                                     note="observation, not judged: C09 speaks about crashes; see handlers_outlive_loop for the real code")
        # 2. free-running bursts on the real loop, in a child process
        g = grid(tmp, "L4UdpGrid", tier)
        gf = os.path.join(tmp, "grid.ndjson")
        with open(gf, "w") as f:
            for x in g:
                f.write(json.dumps(x) + "\n")
        tr = os.path.join(tmp, "udp_all.ndjson")
        summ = os.path.join(tmp, "sum.json")
        rc, out, err = run_child(vdrive, ["udp-run", "-in", gf, "-out", tr, "-summary", summ, "-reps", "2" if tier == "quick" else "10"])
        if rc != 0:
            if "panic:" in err or "fatal error:" in err:
                crash_violation(res, out, err, "udp-run")
                cov.update(traces_validated_against_impl=0, samples=[dict(crash=err[-800:])])
                return
            raise Inconclusive(f"udp-run failed rc={rc}: {out[-1000:]} {err[-2000:]}")
        s = json.load(open(summ))
        n, bad, st = validate_traces(tmp, tr, "udp_traces.ndjson", "L4UdpTrace.tla", "L4UdpTrace.cfg")
        cov.update(traces_validated_against_impl=n, free_running=dict(scenarios=len(g), runs=s["runs"], deliveries=s["deliveries"]),
                   samples=s["samples"][:2] or [dict(note="no short sample")])
        # 3. gate-scheduled interleavings (hooks): the close / next-datagram race, forced
        trg = os.path.join(tmp, "udp_gated.ndjson")
        sumg = os.path.join(tmp, "sumg.json")
        rc, out, err = run_child(vdrive, ["udp-gated", "-out", trg, "-summary", sumg, "-reps", "30" if tier == "quick" else "300", "-closes", "30000" if tier == "quick" else "600000"] + (["-idle"] if tier == "thorough" else []))
        if rc != 0:
            if "panic:" in err or "fatal error:" in err:
                crash_violation(res, out, err, "udp-gated")
                return
            raise Inconclusive(f"udp-gated failed rc={rc}: {out[-1000:]} {err[-2000:]}")
        sg = json.load(open(sumg))
        if sg["infeasible"] > sg["runs"] // 2:
            raise Inconclusive(f"gate schedule infeasible in {sg['infeasible']} of {sg['runs']} runs (hooks compiled out or moved?)")
        ng, badg, _ = validate_traces(tmp, trg, "udp_traces.ndjson", "L4UdpTrace.tla", "L4UdpTrace.cfg")
        cov["traces_validated_against_impl"] += ng
        cov["concurrent_close_stress"] = dict(associations=sg.get("multiclose_associations"), closers_each=8, note="brute force, no forced interleaving: a panic (double close) kills the child process and is reported as U0")
        cov["gate_scheduled"] = dict(schedule="handler returns -> Close closes done -> [gate] same client's next datagram reaches the loop -> release", runs=sg["runs"], infeasible=sg["infeasible"])
        cov["samples"] += sg["samples"][:1]
        # shutdown while handlers are still running: judged for crashes (U0); handler goroutines that stay blocked in Close
        # for ever (more live associations than the notification channel holds, and no loop to read it) are an observation
        late = [e for line in open(trg) for e in json.loads(line)["hist"] if e.get("e") == "LateEnd"]
        cov["handlers_outlive_loop"] = dict(runs=[dict(handlers=e["handlers"], stuck_in_close=e["stuckInClose"]) for e in late],
                                            note="no crash demanded (U0); goroutines stuck in packetConn.Close after the loop has gone are reported, not judged (C09 speaks about crashes)")
        for e in late:
            if e["stuckInClose"]:
                log(f"OBSERVATION udp shutdown: {e['stuckInClose']} of {e['handlers']} handler goroutines stay blocked in packetConn.Close after the server loop has returned (closeCh holds 10 notifications and nobody reads it any more)")
        bad += badg
        with open(tr, "a") as o:
            for line in open(trg):
                o.write(line)
        traces = {}
        for line in open(tr):
            t = json.loads(line)
            traces[t["id"]] = t
        for b in bad:
            res.violation("udp:" + "+".join(sorted(c.split()[0] for c in b["clauses"])), "; ".join(b["clauses"]) + f" (trace {b['id']})", traces[b["id"]])
    res.assumptions += ["the socket is a scripted net.PacketConn; handlers are the harness's recording handler (reads N datagrams, replies, returns)",
                        "global event order is the order of recording under one lock"]


def free_add_to(res, tier, clauses, pid, only):
    """the free-running UDP bursts as a PART of another property's check: the scenarios of the C09 grid selected by `only`
    run on the real servePacket loop, violations of `clauses` are reported under pid"""
    vdrive = build_harness()
    with Scratch("verif-udpx-") as tmp:
        copy_specs(tmp)
        g = [x for x in grid(tmp, "L4UdpGrid", tier) if only(x)]
        if not g:
            raise Inconclusive("no UDP scenario selected")
        # every other scenario with datagrams of 5000 bytes: larger than a prefetch chunk, smaller than the pooled receive buffer
        for i, x in enumerate(g):
            if i % 2 == 1 and x["size"] == 9000:
                x["size"] = 5000
        gf = os.path.join(tmp, "grid.ndjson")
        with open(gf, "w") as f:
            for x in g:
                f.write(json.dumps(x) + "\n")
        tr = os.path.join(tmp, "udp_all.ndjson")
        summ = os.path.join(tmp, "sum.json")
        rc, out, err = run_child(vdrive, ["udp-run", "-in", gf, "-out", tr, "-summary", summ, "-reps", "1" if tier == "quick" else "4"])
        if rc != 0:
            if "panic:" in err or "fatal error:" in err:
                crash_violation(res, out, err, "udp-run")
                return
            raise Inconclusive(f"udp-run failed rc={rc}: {out[-1000:]} {err[-2000:]}")
        s = json.load(open(summ))
        n, bad, st = validate_traces(tmp, tr, "udp_traces.ndjson", "L4UdpTrace.tla", "L4UdpTrace.cfg")
        res.coverage["udp_streams"] = dict(clauses=list(clauses), scenarios=len(g), runs=s["runs"], deliveries=s["deliveries"], traces_validated_against_impl=n)
        res.coverage["traces_validated_against_impl"] = res.coverage.get("traces_validated_against_impl", 0) + n
        traces = {}
        for line in open(tr):
            t = json.loads(line)
            traces[t["id"]] = t
        for b in bad:
            mine = [c for c in b["clauses"] if c.split()[0] in clauses]
            if mine:
                res.violation("udp:" + "+".join(sorted(c.split()[0] for c in mine)), "; ".join(mine) + f" (trace {b['id']})", traces[b["id"]])


def replay(res, path):
    raise Inconclusive("C09 replays are scenario descriptions; re-run bin/check C09")
