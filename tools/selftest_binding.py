#!/usr/bin/env python3
"""tools/selftest_binding.py - demonstrates that the trace specifications bind: for every trace
specification, recorded traces of the real code (selftest/golden/, harvested from a clean run of the
checks with VERIF_KEEP_TRACES) are (1) accepted as they are and (2) rejected by TLC when ONE recorded
field is corrupted the way a defect would corrupt it. Exit 0 when every specification accepts its
golden traces and rejects every corrupted one; 1 otherwise. Not a property check: it tests the checks."""
import copy
import json
import os
import sys

sys.path.insert(0, os.path.join(os.path.dirname(os.path.abspath(__file__)), "..", "lib"))
from common import *

GOLD = os.path.join(VERIF, "selftest", "golden")


def first(pred, seq):
    for i, x in enumerate(seq):
        if pred(x):
            return i
    return None


# --- one corruption per specification: returns the corrupted trace or None when this trace offers no handle ---
def m_router(t):
    i = first(lambda e: e["e"] == "HRead" and e["segs"], t["hist"])
    if i is None:
        return None
    t["hist"][i]["segs"][0][0] += 1          # a handler misses its first byte (R7)
    return t


def m_timed(t):
    i = first(lambda e: e["e"] == "Abort" and e.get("k") == "timeout", t["ev"])
    if i is None or t["T"] < 40:
        return None
    for e in t["ev"][i:]:
        e["t"] = max(1, t["T"] // 4)         # matching abandoned after a quarter of the timeout (TE)
    return t


def m_udp(t):
    i = first(lambda e: e["e"] == "Dlv", t["hist"])
    if i is None:
        return None
    t["hist"][i]["c"] = "c9"                 # a datagram of another client delivered to this association (U1)
    return t


def m_listener(t):
    i = first(lambda e: e["e"] == "Leak", t["hist"])
    if i is None:
        return None
    t["hist"][i]["n"] = 3                    # goroutines left behind after Close (L8)
    return t


def m_lb(t):
    if t.get("kind") != "single" or not t["results"] or t["results"][0] < 1:
        return None
    t["results"][0] = len(t["pool"]) + 1     # an upstream that does not exist / is not available
    return t


def m_proxy(t):
    if not t["ups"] or t["ups"][0]["recv"] == 0:
        return None
    t["ups"][0]["recvIntact"] = False        # upstream received altered bytes (P1)
    return t


def m_health(t):
    i = first(lambda e: e["e"] == "Ret", t["ev"])
    if t.get("kind") != "retry" or i is None or t["D"] == 0:
        return None
    t["ev"][i]["t"] = 0                      # gave up at once although try_duration had not elapsed
    t["ev"] = t["ev"][:1] + [t["ev"][i]]
    return t


def m_socks(t):
    if t["may"]:
        return None
    t["served"], t["outbound"] = True, True  # served although the reference forbids it (K1)
    return t


def m_throttle(t):
    pulls = [e for e in t["ev"] if e["e"] == "Pull"]
    if len(pulls) < 5 or pulls[-1]["t"] < 50:
        return None
    for e in t["ev"]:
        e["t"] = 0                           # everything read at once: above burst + rate x time (G1)
    return t


def m_pp(t):
    o = t["obs"]
    if t["case"]["kind"] != "recv" or o.get("got", 0) == 0:
        return None
    o["got"] += 1                            # one byte more than the payload delivered (Q1)
    return t


def m_conc(t):
    if not t.get("together"):
        return None
    t["together"] = t["together"][:-1]       # behaved differently among other connections (X1)
    return t


def m_wire(t):
    v = t["o"]["verdicts"]
    t["o"]["repeatOK"] = False               # second evaluation disagreed (M3)
    return t


def m_tls(t):
    t["o"]["par"]["sni"] = t["o"]["par"]["sni"] + "x"   # parser's server name differs from the TLS server's (T1)
    return t


def m_cfg(t):
    t["jsonEqual"] = False                   # adapted JSON differs from the term (F2)
    return t


def m_codec(t):
    if not t["o"]["ok"] or not t["o"]["reser"]:
        return None
    t["o"]["reser"][0] = (t["o"]["reser"][0] + 1) % 256   # re-serialisation differs from the accepted input (K2)
    return t


def m_seal(t):
    c = t["o"]["clear"]
    k = "sid" if c["sid"] else "key"
    if not t["o"]["opened"] or not c[k]:
        return None
    c[k][0] = (c[k][0] + 1) % 256            # the opened message differs from the one that was sealed (K4)
    return t


def m_tee(t):
    if not t["obs"]["mret"]:
        return None
    t["obs"]["mgot"] = t["obs"]["mgot"] + 1  # the main chain read a chunk the branch side never took (E0 / E1)
    return t


def m_dyn(t):
    i = first(lambda e: e["op"] == "conn" and e["out"] == "served", t["hist"])
    if i is None:
        return None
    t["hist"][i]["out"] = "unavailable"      # a connection refused although the model of the code serves it (D0 / D1)
    return t


SPECS = [
    ("L4RouterTrace", "router_traces.ndjson", m_router), ("L4TimedTrace", "timed_traces.ndjson", m_timed), ("L4UdpTrace", "udp_traces.ndjson", m_udp),
    ("L4ListenerTrace", "listener_traces.ndjson", m_listener), ("L4LBTrace", "lb_traces.ndjson", m_lb), ("L4ProxyTrace", "proxy_traces.ndjson", m_proxy),
    ("L4HealthTrace", "health_traces.ndjson", m_health), ("L4Socks5Trace", "socks_traces.ndjson", m_socks), ("L4ThrottleTrace", "throttle_traces.ndjson", m_throttle),
    ("L4ProxyProtoTrace", "pp_traces.ndjson", m_pp), ("L4ConcTrace", "conc_traces.ndjson", m_conc), ("L4WireTrace", "wire_traces.ndjson", m_wire),
    ("L4TLSTrace", "tls_traces.ndjson", m_tls), ("L4ConfigTrace", "cfg_traces.ndjson", m_cfg), ("L4CodecTrace", "codec_traces.ndjson", m_codec),
    ("L4CodecSealTrace", "seal_traces.ndjson", m_seal), ("L4TeeTrace", "tee_traces.ndjson", m_tee, ("E0", "E1")), ("L4DynTrace", "dyn_traces.ndjson", m_dyn, ("D0",)),
]


def validate(lines, module, name):
    with Scratch("verif-selftest-") as tmp:
        copy_specs(tmp)
        with open(os.path.join(tmp, name), "w") as f:
            for l in lines:
                f.write(json.dumps(l) + "\n")
        r = run_tlc(tmp, module + ".tla", module + ".cfg", workers=1, timeout=900)
        return r


def main():
    ok = True
    report = []
    for spec in SPECS:
        module, name, mut = spec[:3]
        # (the models beyond the listed properties report OBSERVATIONS on unchanged code - clauses E2, E3, D1; what binds
        # them to the code are the conformance clauses named here)
        bind = spec[3] if len(spec) > 3 else None

        def binding(vbad):
            return [b for b in vbad if bind is None or any(c.split()[0] in bind for c in b["clauses"])]
        p = os.path.join(GOLD, module + "." + name)
        if not os.path.exists(p):
            log(f"{module}: no golden traces ({p}); harvest them with VERIF_KEEP_TRACES={GOLD} bin/check ...")
            ok = False
            continue
        gold = [json.loads(l) for l in open(p)]
        r = validate(gold, module, name)
        good = r["vdone"] == len(gold) and not binding(r["vbad"]) and not r["errors"]
        muts = []
        for t in gold:
            m = mut(copy.deepcopy(t))
            if m is not None and m != t:
                muts.append(m)
        r2 = validate(muts, module, name) if muts else dict(vbad=[], vdone=0, errors=["no golden trace offers a handle for the corruption"])
        rejected = {b["id"] for b in binding(r2["vbad"])}
        all_rejected = bool(muts) and r2["vdone"] == len(muts) and not r2["errors"] and all(m["id"] in rejected for m in muts)
        report.append(dict(spec=module, golden=len(gold), golden_accepted=good, corrupted=len(muts), corrupted_rejected=len([m for m in muts if m["id"] in rejected]),
                           clauses=sorted({c.split()[0] for b in r2["vbad"] for c in b["clauses"]})))
        log(f"{module}: {len(gold)} golden traces {'accepted' if good else 'NOT ACCEPTED'}; {len(muts)} corrupted, {report[-1]['corrupted_rejected']} rejected {report[-1]['clauses']}"
            + ("" if not (r["errors"] or r2["errors"]) else f" errors: {(r['errors'] + r2['errors'])[:2]}"))
        ok = ok and good and all_rejected
    with open(os.path.join(VERIF, "selftest", "report.json"), "w") as f:
        json.dump(report, f, indent=1)
    log("selftest " + ("ok: every trace specification accepts its recorded traces and rejects each single-field corruption" if ok else "FAILED"))
    return 0 if ok else 1


if __name__ == "__main__":
    sys.exit(main())
