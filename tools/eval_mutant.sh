#!/bin/bash
# tools/eval_mutant.sh <property> <mutant-dir> [extra properties...]: confirm in a scratch worktree, then try against /repo
P=$1; D=$2; shift; shift
if [ ! -f $D/demo_test.go ]; then f=$(ls $D/*_test.go | head -1); cp $f $D/demo_test.go; fi
pkg=$(grep -m1 "^package " $D/demo_test.go | awk '{print $2}' | sed 's/_test$//')
if [ "$pkg" = "layer4" ]; then dir=layer4; elif [ "$pkg" = "integration" ]; then dir=integration; else dir=modules/$pkg; fi
echo "### $P $(basename $D) [$dir] $(head -1 $D/NOTES.md | cut -c1-150)"
/verif/tools/verify_mutant.sh $P $D $dir | tail -1
/verif/tools/try_mutant.sh $P $D quick "$@"
