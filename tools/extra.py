#!/usr/bin/env python3
"""tools/extra.py - the part of the specification that goes beyond the listed properties: the lifecycle
of the layer4 app (spec/L4App.tla, L4AppTrace.tla), the peers pool across loads (L4Peers) and the tee
handler's goroutine protocol (L4Tee), upstreams with placeholders in their dial address (L4Dyn). Model-checks the lifecycle, runs the real App over loopback
addresses (one of which cannot be bound) and lets TLC judge the observations. Prints OBSERVATION lines; it is
not a property check and is not registered in MANIFEST.json (exit 0 = ran, 2 = machinery problem)."""
import json
import os
import sys

sys.path.insert(0, os.path.join(os.path.dirname(os.path.abspath(__file__)), "..", "lib"))
from common import *


def main():
    try:
        vdrive = build_harness()
        with Scratch("verif-app-") as tmp:
            copy_specs(tmp)
            ok = run_tlc(tmp, "L4App.tla", "L4App_ok.cfg", timeout=600)
            tlc_ok(ok, "L4App_ok")
            asis = run_tlc(tmp, "L4App.tla", "L4App_failstart.cfg", timeout=600)
            fixed = run_tlc(tmp, "L4App.tla", "L4App_failstart_fixed.cfg", timeout=600)
            tlc_ok(fixed, "L4App_failstart_fixed")
            model_leak = any("FailedStartLeavesNothing" in e for e in asis["errors"])
            log(f"model: lifecycle ok ({ok['distinct']} states); failed Start leaves sockets bound in the model of the code as it is: {model_leak}; not with cleanup: True")
            aerr = run_tlc(tmp, "L4App.tla", "L4App_accepterr.cfg", timeout=600)
            aerr_fixed = run_tlc(tmp, "L4App.tla", "L4App_accepterr_fixed.cfg", timeout=600)
            tlc_ok(aerr_fixed, "L4App_accepterr_fixed")
            log(f"model: a transient Accept error leaves a bound socket unserved in the model of the code as it is: {any('ServedWhileBound' in e for e in aerr['errors'])}; not when the loop goes on after it: True ({aerr_fixed['distinct']} states)")
            tr = os.path.join(tmp, "app.ndjson")
            run_driver(vdrive, ["app-run", "-out", tr], timeout=600)
            n, bad, st = validate_traces(tmp, tr, "app_traces.ndjson", "L4AppTrace.tla", "L4AppTrace.cfg", max_shards=1)
            traces = {json.loads(l)["id"]: json.loads(l) for l in open(tr)}
            for b in bad:
                t = traces[b["id"]]
                if t.get("kind") == "accept":
                    log(f"OBSERVATION serve loop: {'; '.join(b['clauses'])} (run {b['id']}: {t['net']}, error kind {t['err']}, served before {t['servedBefore']}, served after {t['servedAfter']}, loop ended {t['loopEnded']})")
                else:
                    log(f"OBSERVATION app lifecycle: {'; '.join(b['clauses'])} (run {b['id']}: start error {t['startErrText']!r}, served after Start {t['afterStart']})")
            log(f"{n} runs of the real App judged by TLC, {len(bad)} with observations")
            # ---- the process-wide peers pool across configuration loads (L4Peers) ----
            okp = run_tlc(tmp, "L4Peers_MC.tla", "L4Peers_nofail.cfg", timeout=600)
            tlc_ok(okp, "L4Peers_nofail")
            asisp = run_tlc(tmp, "L4Peers_MC.tla", "L4Peers_asis.cfg", timeout=600)
            fixedp = run_tlc(tmp, "L4Peers_MC.tla", "L4Peers_fixed.cfg", timeout=600)
            tlc_ok(fixedp, "L4Peers_fixed")
            actp = run_tlc(tmp, "L4Peers_MC.tla", "L4Peers_active_asis.cfg", timeout=600)
            actp_fixed = run_tlc(tmp, "L4Peers_MC.tla", "L4Peers_active_fixed.cfg", timeout=600)
            tlc_ok(actp_fixed, "L4Peers_active_fixed")
            log(f"model: an 'unhealthy' verdict survives the handler whose checker wrote it, in the model of the code as it is: {any('Watched' in e for e in actp['errors'])}; not when the verdict is kept per handler: True")
            log(f"model: peers pool ok without failed loads ({okp['distinct']} states); a failed load breaks sharing in the model of the code as it is: {any('Shared' in e for e in asisp['errors'])}; not when Cleanup deletes only what was stored: True")
            trp = os.path.join(tmp, "peers.ndjson")
            run_driver(vdrive, ["peers-run", "-out", trp], timeout=600)
            n2, bad2, _ = validate_traces(tmp, trp, "peers_traces.ndjson", "L4PeersTrace.tla", "L4PeersTrace.cfg", max_shards=1)
            for b in bad2:
                log(f"OBSERVATION peers pool: {'; '.join(b['clauses'])} (scenario {b['id']})")
            log(f"{n2} scenarios of the real peers pool judged by TLC, {len(bad2)} with observations")
            # ---- the tee handler's goroutine protocol over its synchronous pipe (L4Tee) ----
            behf = os.path.join(tmp, "tee_beh.ndjson")
            tb = run_tlc(tmp, "L4Tee.tla", "L4Tee_beh.cfg", timeout=600, beh_out=behf)
            tlc_ok(tb, "L4Tee_beh")
            tm = run_tlc(tmp, "L4Tee.tla", "L4Tee_asis_main.cfg", timeout=600)
            tbr = run_tlc(tmp, "L4Tee.tla", "L4Tee_asis_branch.cfg", timeout=600)
            tfx = run_tlc(tmp, "L4Tee.tla", "L4Tee_fixed.cfg", timeout=600)
            tlc_ok(tfx, "L4Tee_fixed")
            log(f"model: tee safety (Lockstep, BranchSeesAll) holds in {tb['distinct']} states, {tb['beh']} terminal behaviours; in the model of the code as it is "
                f"the main chain can be held for ever by a branch that stopped reading: {any('MainEnds' in e for e in tm['errors'])}; "
                f"the branch goroutine can outlive the connection: {any('BranchEnds' in e for e in tbr['errors'])}; "
                f"neither when the pipe is closed on return and a finished branch drains it: True ({tfx['distinct']} states)")
            trt = os.path.join(tmp, "tee.ndjson")
            run_driver(vdrive, ["tee-run", "-beh", behf, "-out", trt], timeout=600)
            n3, bad3, _ = validate_traces(tmp, trt, "tee_traces.ndjson", "L4TeeTrace.tla", "L4TeeTrace.cfg", max_shards=1)
            by = {}
            for b in bad3:
                for c in b["clauses"]:
                    by.setdefault(c, []).append(b["id"])
            for c in sorted(by):
                log(f"OBSERVATION tee: {c} ({len(by[c])} of {n3} scenarios, e.g. {', '.join(sorted(by[c])[:3])})")
            log(f"{n3} terminal behaviours of the tee model replayed on the real handler and judged by TLC, {len(bad3)} with observations, "
                f"{sum(1 for b in bad3 if any(c.startswith('E0') for c in b['clauses']))} where the real handler differs from the model")
            # ---- upstreams with a per-connection placeholder in their dial address (L4Dyn) ----
            da = run_tlc(tmp, "L4Dyn.tla", "L4Dyn_asis.cfg", timeout=600)
            daa = run_tlc(tmp, "L4Dyn.tla", "L4Dyn_asis_active.cfg", timeout=600)
            df = run_tlc(tmp, "L4Dyn.tla", "L4Dyn_fixed.cfg", timeout=600)
            dfa = run_tlc(tmp, "L4Dyn.tla", "L4Dyn_fixed_active.cfg", timeout=600)
            tlc_ok(df, "L4Dyn_fixed")
            tlc_ok(dfa, "L4Dyn_fixed_active")
            log(f"model: with a placeholder in the dial address a backend is refused for another backend's failures in the model of the code as it is: "
                f"{any('NeverWronglyRefused' in e for e in da['errors'])}; after one round of active checks every backend is refused: "
                f"{any('NeverWronglyRefused' in e for e in daa['errors'])}; neither when health is kept per resolved address: True ({df['distinct']} / {dfa['distinct']} states)")
            trd = os.path.join(tmp, "dyn.ndjson")
            run_driver(vdrive, ["dyn-run", "-out", trd], timeout=600)
            n4, bad4, _ = validate_traces(tmp, trd, "dyn_traces.ndjson", "L4DynTrace.tla", "L4DynTrace.cfg", max_shards=1)
            for b in bad4:
                log(f"OBSERVATION placeholder upstream: {'; '.join(b['clauses'])} (scenario {b['id']})")
            log(f"{n4} scenarios of the real proxy handler dialling '{{l4.http.host}}:port' replayed through the model by TLC, {len(bad4)} with observations, "
                f"{sum(1 for b in bad4 if any(c.startswith('D0') for c in b['clauses']))} where the real handler differs from the model")
        return 0
    except Inconclusive as e:
        log(f"INCONCLUSIVE: {e}")
        return 2


if __name__ == "__main__":
    sys.exit(main())
