#!/bin/bash
# tools/try_mutant.sh <property> <mutant-dir> [tier] [other-property ...]: apply the seeded change to /repo, run the check(s), undo.
set -u
P=$1; D=$2; T=${3:-quick}; shift; shift; shift || true
cd /repo || exit 2
if [ -n "$(git status --porcelain)" ]; then echo "/repo is not clean"; exit 2; fi
git apply "$D/patch.diff" 2>/dev/null || git apply -3 "$D/patch.diff" 2>/dev/null || { echo "patch does not apply"; git reset -q --hard HEAD; exit 2; }
git reset -q
cd /verif
for q in $P "$@"; do
  bin/check $q --tier $T > /tmp/try.$q.log 2>&1; rc=$?
  echo "== $q rc=$rc: $(grep -c '^VIOLATION' /tmp/try.$q.log) VIOLATION lines; $(tail -1 /tmp/try.$q.log)"
  grep -A1 '^VIOLATION' /tmp/try.$q.log | grep -v '^--' | cut -c1-260 | head -6
  grep 'INCONCLUSIVE' /tmp/try.$q.log | cut -c1-400 | head -3
done
git -C /repo checkout -- . ; git -C /repo clean -fdq
