#!/usr/bin/env python3
"""tools/keep_mutant.py <property> <src-dir> <name> <needs> <ran> [detected_by]: store a confirmed seeded change under seeded/<name>/"""
import json, os, shutil, sys
pid, src, name, needs, ran = sys.argv[1:6]
det = sys.argv[6] if len(sys.argv) > 6 else ""
V = os.path.dirname(os.path.dirname(os.path.abspath(__file__)))
dst = os.path.join(V, "seeded", name)
os.makedirs(dst, exist_ok=True)
for f in os.listdir(src):
    if f in ("patch.diff", "demo_test.go", "NOTES.md") or f.endswith(".go"):
        shutil.copy(os.path.join(src, f), dst)
json.dump(dict(property=pid, breaks=pid, needs_to_manifest=needs, confirmed_by=ran, detected_by=det), open(os.path.join(dst, "meta.json"), "w"), indent=1)
print("kept", dst)
