#!/usr/bin/env python3
"""Regenerates /verif/MANIFEST.json from the table below (run after adding a check)."""
import json, os
V = os.path.dirname(os.path.dirname(os.path.abspath(__file__)))

CHECKS = {
 "C02": dict(level="model_checking", design="5 C02, 4.1",
   text="TLC checks clauses R1-R7 of L4RouterAbs on every state of the code-shaped model of RouteList.Compile (all route lists of a bounded grammar x all streams x all read schedules), every terminal behaviour is replayed on the real Provision+Compile with scripted matchers/handlers and the real subroute/not modules and must be identical to the TLC-checked prediction or is judged individually by TLC; every replay runs a second identical connection through the same compiled route list (judged on its own when it differs); seeded random larger instances recorded from the real code are validated by TLC against the same operators.",
   note="trusts TLC, the scripted net.Conn / matchers / handlers of the harness, Caddy's module loader; matchers are abstracted as monotone threshold/position matchers",
   technique="TLA+ model of the routing loop checked with TLC; behaviour replay + trace validation against the real router"),

 "C05": dict(level="model_checking", design="5 C05, 4.1, 4.2",
   text="Untimed half: clauses D1-D3/B1-B3/R4/R5a/R5b (deadline armed for every matching read, cleared before handlers, abort only with cause, buffer bound incl. the largest matching buffer any matcher saw, nothing after abort, no fallback or silent return while a route is undecided) checked by TLC on every state of the router model and on all replayed/recorded real histories. Timed half: TLC checks NotEarly/NotLate on the timed deadline model and validates, against clauses TE/TL/TC/TB/TH, timed traces of the real Server.handle (loopback TCP) and servePacket (loopback UDP) for a TLC-enumerated grid of send schedules x timeouts (40..1500 ms) x wall-clock phases.",
   note="scaled real time with one-sided tolerances (2 ms early, max(250 ms,25%) late); disturbed runs are repeated, then inconclusive; trusts Go timers and the loopback stack",
   technique="TLA+ router + timed deadline models checked with TLC; timed trace validation of the real TCP/UDP matching phase"),
 "C09": dict(level="model_checking", design="5 C09, 4.3",
   text="TLC checks NoCrash/NoStaleDelete/OwnClientOnly/InOrder on the code-shaped model of servePacket<->packetConn (all interleavings of 2 clients, 5 datagrams, 4 associations, scaled channel capacities) and, as a vacuity self-test, that the same invariants fail on the pinned-commit protocol. The real loop runs behind a scripted PacketConn in a child process for a TLC-enumerated grid of bursts (clients x datagrams x handler read counts x sizes x reader buffer sizes x pacing); a panic is a violation; recorded histories are validated by TLC against clauses U0-U4 of L4UdpAbs; a gate-scheduled close race (hooks) and a brute-force stress of concurrent Close calls on one virtual connection complete the runs.",
   note="one interleaving is forced through gates, the others are free-running; the 30 s idle expiry path runs on the real code in the thorough tier only (clauses U4/U5); event order is recording order under one lock",
   technique="TLA+ model of the UDP demultiplexing goroutines checked with TLC; trace validation of the real servePacket loop"),

 "C13": dict(level="model_checking", design="5 C13, 4.4",
   text="TLC checks AtMostOnce/OnlyFallThrough/NotClosedBeforeDelivery/ClosedWhenDone/NeverBoth/NoReuseWhileReferenced and the liveness property Drain (under fairness) on the code-shaped model of listener.go loop/handle/pipeConnection/Accept/Close with the buffer pool, for three connection mixes and channel capacity 1; the real ListenerWrapper (provisioned from JSON) runs around a scripted listener for a TLC-enumerated grid (connection mixes incl. TLS-terminated fall-through with the real tls handler and connections a terminal handler is still serving when the listener closes x consumer fast/slow/absent x GOMAXPROCS x stream length x close instant) and the recorded histories are validated by TLC against clauses L1-L8 of L4ListenerAbs (exactly-once delivery, intact stream from the first unconsumed byte, closure, goroutine leak).",
   note="scripted listener and connections (real loopback TCP for the TLS ones); free-running goroutines",
   technique="TLA+ model of the listener-wrapper goroutines and buffer pool checked with TLC (safety + liveness); trace validation of the real ListenerWrapper"),

 "C10": dict(level="model_checking", design="5 C10, 4.6",
   text="TLC enumerates every pool state of a boundary grammar (0..3 upstreams, 1-2 peers each from boundary peer states, connection and failure limits on/off); the real Select of all six policies (random_choose with k=2,3,pool+1) runs on each pool built in-package, repeatedly for the random ones, and TLC judges every observed result against Allowed(policy,pool) of L4LB (available iff one exists; first = earliest; least_conn = fewest connections; never a panic). The round_robin counter is model-checked (RRInv) over all selection sequences interleaved with availability flips (3-4 upstreams), every sequence is replayed on one real RoundRobinSelection / IPHashSelection instance and must equal the model (round_robin) or satisfy determinism and stability under upstream removal (ip_hash), judged by TLC.",
   note="pool states are constructed white-box through an overlay accessor; pools above 3 upstreams / 5 in sequences are not enumerated",
   technique="TLA+ contract of the selection policies; TLC-enumerated pool states and selection sequences replayed on the real policies; trace validation"),

 "C03": dict(level="model_checking", design="5 C03, 4.5",
   text="TLC checks UpExact/DownOrdered/HalfCloseSeen and the liveness property Cleanup (handler returns, every upstream connection closed, nothing lost when both ends finish gracefully) on the code-shaped model of Handler.proxy (pump, one copier per upstream connection, main) with two upstream connections for every combination of client/upstream half-close, close and reset; the real handler relays between loopback TCP client and upstream servers for a TLC-enumerated grid (who finishes first and how x payload sizes up to 1 MiB x chunkings x 1-2 peers x bytes prefetched into the matching buffer x directly / behind a real route with two matching rounds x a dial attempt given up half-way and retried) and TLC judges the observations against clauses P1-P5 of L4ProxyAbs.",
   note="loopback TCP only (TLS / Unix sockets not exercised); kernel TCP trusted; timing slack 15 s for return, 3 s for closure; the garbage collector is off during the runs so that a finalizer cannot close a leaked socket",
   technique="TLA+ model of the proxy relay goroutines checked with TLC (safety + liveness); trace validation of the real handler over loopback TCP"),

 "C11": dict(level="model_checking", design="5 C11, 4.6",
   text="TLC checks CountExact (failure counter = failures remembered from the last fail_duration), NeverNegative, LimitRespected, ConnsExact and GiveUpOnlyLate on the timed model of Handle/dialPeers/countFailure/tryAgain over all histories of dial failures, outages, recoveries, connection opens/ends (2 peers, 2-3 connections, integer ticks). The real handler runs in scaled real time for a TLC-enumerated grid: failure-window scripts (counters and rotation membership sampled through an accessor, failures observed through hooks), retry runs against refusing peers (attempt spacing, give-up time, last error), connection-limit runs (max_connections and unhealthy_connection_count with loopback upstreams recording who got which connection) active health checks (peer refusing / accepting), and a window script with passive and active checks together; TLC judges the timed traces against clauses W1-W2/R1-R4/L1-L2/A1 of L4HealthAbs.",
   note="scaled real time with 45 ms tolerance at window edges; disturbed runs repeated then inconclusive; one peer per upstream in the timed runs",
   technique="timed TLA+ model of health accounting and retries checked with TLC; timed trace validation of the real proxy handler"),

 "C16": dict(level="model_checking", design="5 C16, 4.7",
   text="The reference May(cfg, script) of L4Socks5 (command rule set incl. defaults / case / placeholders, credential filtering with fail-closed empty names, RFC 1928 method selection, RFC 1929 authentication) is enumerated exhaustively by TLC over all configuration x client-script pairs of the bounded grammar (35 280 in the quick tier; each configuration as JSON and through the documented Caddyfile syntax); every pair is played against the real Socks5Handler (provisioned, Handle on a pipe, loopback target recording outbound connections); consecutive sessions through one real Server (legitimate, one-byte, silent client) share pooled matching buffers and TLC judges each observation: success reply or outbound effect only if May.",
   note="scripted client bytes; outbound effect observed as a TCP accept on the harness target or a success reply to ASSOCIATE; only the 'only' direction is judged",
   technique="TLA+ reference of SOCKS5 negotiation/authorisation; exhaustive TLC enumeration replayed on the real handler; trace validation"),

 "C17": dict(level="model_checking", design="5 C17, 4.7",
   text="TLC checks BoundLocal/BoundTotal on the token-bucket model of throttledConn.Read (wait for the batch on both limiters, then one underlying read) for 2 connections sharing a total limiter, and as a self-test that the bounds fail when the read precedes the wait. The real handler runs over instant-data connections for a TLC-enumerated grid (rate x burst x total limit none/equal/only/no limit at all x latency x reader buffer x 1-4 concurrent connections; plus UDP virtual connections through the real servePacket loop with datagrams larger than the burst); every underlying read is stamped when served and TLC judges the timed traces against G1 (per connection), G2 (summed over the handler), G3 (latency) and G4 (stream intact) of L4ThrottleAbs.",
   note="real time, ms resolution with 1 ms rounding slack; time zero is the instant the reader issued its first read; golang.org/x/time/rate trusted",
   technique="TLA+ token-bucket model checked with TLC; timed trace validation of the real throttle handler"),

 "C01": dict(level="model_checking", design="5 C01, 4.1",
   text="The record/rewind buffer (L4Segs: Read / prefetch / freeze / Wrap over stream segments) is part of the router model; TLC checks R7 (handlers together read the stream exactly once, in order, from position 0) and R8 (a tee branch reads what the handlers after the tee read) on every behaviour of a real-size configuration (unit 4 bytes: chunk 2048, limit 8192, PROXY v2 header 28 bytes) whose handler palette is the SHIPPED wrapping handlers - proxy_protocol, throttle, tee, echo, subroute - plus consuming/wrapping test handlers, and of the toy-constant configurations; every behaviour is replayed through the real handlers (position-coded stream, scripted segmentation) and must equal the prediction or is judged by TLC; random larger instances are validated the same way.",
   note="TLS termination is exercised in the listener runs (C13) and the TLS chain runs, not in the exhaustive replay; one tee per configuration; matchers are scripted threshold/position matchers",
   technique="TLA+ model of the record/rewind buffer and router with the shipped wrapping handlers, checked with TLC; behaviour replay + trace validation"),

 "C12": dict(level="model_checking", design="5 C12, 4.7",
   text="The reference RecvExpect/SendExpect of L4ProxyProto (which bytes are stripped, which addresses later matchers, handlers and placeholders must see; which header each upstream must receive first) is evaluated by TLC over every case of a bounded grammar (version x family incl. v1 UNKNOWN and v2 LOCAL x boundary addresses x allow-list relation incl. IPv6 peers and ranges x segmentation x bytes prefetched by an earlier matcher x payload; send: version x direct/behind a receiving handler x peers x payload). Each case is played against the real proxy_protocol handler inside a real route list (followed by a real remote_ip matcher and a recording handler) or the real proxy handler over loopback TCP, with headers produced and parsed by the harness's own codec, and TLC judges the observations (clauses Q0-Q7).",
   note="v2 TLVs are not generated (the library rejects them); receive cases use a scripted connection",
   technique="TLA+ reference of PROXY protocol receive/send semantics; exhaustive TLC case enumeration replayed on the real handlers; trace validation"),

 "C08": dict(level="model_checking", design="5 C08, 4.4",
   text="Cross-talk: TLC checks NoReuseWhileReferenced on the listener-wrapper / buffer-pool model (and that it fails with the pinned-commit behaviour); the real ListenerWrapper grid (C13's, incl. TLS-terminated hand-off, GOMAXPROCS 1..16, slow and absent consumers) is validated against clause L3 (a consumer reads only its own stream); N connections of four kinds run through ONE provisioned server (shared matchers, throttle total limiter, tee, echo) first alone then all at once, and TLC requires each connection's history (routes run, stream positions read, tee branch) to be identical and its reads to be its own stream in order; the connection kinds include a wrapping handler followed by more matching and a real subroute; every selection policy is used by 8 goroutines at once; valid first messages of the shipped protocol matchers (one matcher instance per route) must be routed by their own route also when all connections run at once (X4). Data races: the same concurrent drivers (connections, listener, UDP bursts, two peers writing to one client) run under the Go race detector and any report with a repository frame is a violation.",
   note="the race detector is a monitor attached to the conformance drivers (a TLA+ model cannot observe Go memory-model races) and only sees executed schedules; the shipped protocol matchers (openvpn auth/crypt/crypt2, ssh, http, socks5, regexp, tls) are shared by the concurrent connections",
   technique="TLA+ buffer-pool/listener model checked with TLC; trace validation of concurrent vs. solo executions; Go race detector on the concurrent drivers"),

 "C14": dict(level="exploration", design="5 C04/C06/C14, 4.8",
   text="Per protocol a TLA+ reference predicate Ref(message, filters) transcribed from the wire definition and the documented filter semantics (L4Wire); TLC enumerates abstract first messages over boundary field domains (including values that violate the definition) x filter configurations exhaustively (16 protocols incl. OpenVPN plain/auth/crypt/crypt2 with keys inline or from files, Winbox, RDP, HTTP/1 and HTTP/2, QUIC); the harness's own encoders turn them into bytes (the OpenVPN encoder must first reproduce packets of a real OpenVPN; QUIC Initials come from a real quic-go client), the real matcher (provisioned from the enumerated JSON) is evaluated, and TLC judges verdict = Ref on the complete first message (clause V1).",
   note="coverage is the enumerated boundary domains, not all inputs; encoders are harness code; regular expressions are limited to pattern shapes restated in TLA+; protocols covered are listed in the evidence (by_proto)",
   technique="TLA+ wire-definition reference predicates; exhaustive TLC vector enumeration evaluated on the real matchers; trace validation"),
 "C06": dict(level="exploration", design="5 C04/C06/C14, 4.8",
   text="For every enumerated vector the real matcher is evaluated on every sampled prefix length (fresh connection preloaded through real prefetch rounds with varying segmentation), twice; TLC judges the verdict sequence: no stays no (M1), a message matching whole is never rejected on a proper prefix (M2), repeatable (M3), evaluation reads nothing from the network and restores the cursor (M4).",
   note="stream-oriented matchers only for M1/M2; prefix lengths sampled beyond 96 bytes",
   technique="TLA+ verdict-over-prefix rules; TLC-enumerated vectors evaluated on the real matchers at every prefix; trace validation"),
 "C04": dict(level="exploration", design="5 C04/C06/C14, 4.8",
   text="Every evaluation of the C14/C06 vectors (well-formed messages, field-boundary corruptions incl. inconsistent length fields and padding, every truncation) runs under recover() with the allocation counter sampled around it, in child processes with a 3 GiB address-space limit; TLC judges: never a panic (A1), never more than 512 KiB allocated by one evaluation (A2); a child killed by the runtime (out of memory) is attributed to the vector it announced; the protocol-parsing handlers (PROXY protocol grid of C12, SOCKS5 grid of C16) run under recover() too and are judged for panics (Q0/K0).",
   note="grammar-derived boundary inputs, not all byte strings; handlers are covered by their own checks (C12, C16, C07); the QUIC matcher is not covered (DESIGN.md section 6)",
   technique="TLA+ robustness contract over TLC-enumerated boundary vectors evaluated on the real matchers; trace validation"),

 "C07": dict(level="exploration", design="5 C07, 4.8",
   text="TLC enumerates client TLS configurations (incl. ALPN offers in preference order and hellos without the supported_versions extension) x sni/alpn matcher configurations (L4TLS); for each a real crypto/tls client produces the ClientHello, the bytes are shown to the real matcher (provisioned from JSON), to the matcher's own parser (in-package accessor) and to a crypto/tls server (GetConfigForClient); TLC judges: server name, ALPN, supported versions, cipher suites, curves equal the server's view (T1-T5), the verdict equals the decision function applied to the server's view (T6), the placeholders equal the hello (T7). Record framing (non-handshake records never match, every proper prefix of a hello stays undecided) is judged on the tls vectors of L4Wire at every prefix.",
   note="field-extraction ground truth is crypto/tls; no byte-level mutations beyond truncation and foreign record types",
   technique="TLA+ case space and sni/alpn decision function; TLC-enumerated cases run through a real TLS client, the real matcher and a real TLS server; trace validation"),

 "C15": dict(level="exploration", design="5 C15, 4.9",
   text="Configuration terms of a bounded grammar (L4Config: matchers with options, matcher sets, routes, handler chains incl. proxy options, socks5, nested subroute and tee, tls remote_ip with ! and private_ranges, 1-2 servers, global-option and listener-wrapper forms, option-order / number-of-blocks / upstream-address-form printing choices) are enumerated exhaustively by TLC; each term IS the expected JSON; the harness prints it as a Caddyfile following the documented syntax, runs the real adapter twice, compares the adapted JSON with the term, loads it with caddy.Validate (full provisioning) and round-trips the layer4 JSON through the Go structs; TLC judges the five outcomes (F1-F5).",
   note="TLC is a bounded-exhaustive term generator here, the oracle is term = adapted JSON plus a harness-owned Caddyfile printer; undocumented Caddyfile forms are left out",
   technique="TLA+ configuration-term grammar enumerated by TLC; adapter / loader / round-trip run on every term; trace validation"),

 "C18": dict(level="exploration", design="5 C18, 4.10",
   text="The wire layouts of the 14 exported wire-message types (field order, widths, byte order, OpenVPN opcode/key-id packing, WKc length field, Winbox chunking) are TLA+ data in L4Codec with a reference serialisation Encode(T, m); TLC enumerates, per type, the base message with up to 1 (quick) / 2 (thorough) fields replaced by boundary values and, for each, the reference encoding whole, cut by 1-2 bytes and extended by 1, 2 and 257 bytes. The real ToBytes / FromBytes run on every case and TLC judges K0 (no panic), K1 (parse(serialise(m)) = m for well-formed m), K2 (serialise(parse(b)) = b for every accepted b), K3 (a length the layout excludes is rejected).",
   note="TLC is generator and oracle of a transcribed layout table (no transition system); agreement of ToBytes with the reference layout is counted, not demanded; boundary values, not all byte strings",
   technique="TLA+ wire-layout tables and reference serialisation; TLC-enumerated messages and byte strings through the real codecs; trace validation"),
}
NA = {
}
ALL = ["C%02d" % i for i in range(1, 19)]

m = dict(version=1, setup_cmd="bin/setup",
  hooks=dict(guard="verif", enable="checks build /verif/harness (replace github.com/mholt/caddy-l4 => /repo) with `go build -tags verif -overlay <added files only>`",
             baseline_off_cmd="cd /repo && GOFLAGS=-mod=readonly GOPROXY=off GOSUMDB=off go test -vet=off -count=1 -timeout 25m ./...",
             source_commits=json.load(open(os.path.join(V, "tools", "hook_commits.json"))) if os.path.exists(os.path.join(V, "tools", "hook_commits.json")) else [],
             add_only=True),
  engines=[dict(name="tlc", path="/usr/local/bin/tlc", serves_properties=sorted(CHECKS), kind_free_text="explicit-state model checker for the TLA+ specifications under /verif/spec (exhaustive small-scope checking, behaviour generation, trace validation)"),
           dict(name="vdrive", path="/verif/harness/cmd/vdrive", serves_properties=sorted(CHECKS), kind_free_text="Go conformance driver: replays TLC behaviours on the real caddy-l4 code and records traces for TLC")],
  checks=[], notes="bin/check <id> --tier quick|thorough; exit 0 held / 1 VIOLATION / 2 inconclusive. See DESIGN.md.",
  not_applicable=[])
for pid in ALL:
    if pid in CHECKS:
        c = CHECKS[pid]
        m["checks"].append(dict(property_id=pid, quick_cmd=f"bin/check {pid} --tier quick", thorough_cmd=f"bin/check {pid} --tier thorough",
            evidence_file=f"evidence/{pid}.json", replay_cmd_template=f"bin/check {pid} --replay {{path}}", engine="tlc",
            level_claimed=dict(category=c["level"], text=c["text"], design_ref=c["design"]), level_note=c["note"], technique=c["technique"]))
    else:
        m["not_applicable"].append(dict(property_id=pid, reason=NA.get(pid, "check not built yet (work in progress; DESIGN.md section 9 gives the build order)")))
json.dump(m, open(os.path.join(V, "MANIFEST.json"), "w"), indent=1)
print("checks:", [c["property_id"] for c in m["checks"]])
