#!/usr/bin/env python3
"""Regenerates /verif/MANIFEST.json from the table below (run after adding a check)."""
import json, os
V = os.path.dirname(os.path.dirname(os.path.abspath(__file__)))

CHECKS = {
 "C02": dict(level="model_checking", design="5 C02, 4.2",
   text="TLC checks clauses R1-R7 of L4RouterAbs on every state of the code-shaped model of RouteList.Compile (all route lists of a bounded grammar x all streams x all read schedules), every terminal behaviour is replayed on the real Provision+Compile with scripted matchers/handlers and the real subroute/not modules and must be identical to the TLC-checked prediction or is judged individually by TLC; seeded random larger instances recorded from the real code are validated by TLC against the same operators.",
   note="trusts TLC, the scripted net.Conn / matchers / handlers of the harness, Caddy's module loader; matchers are abstracted as monotone threshold/position matchers",
   technique="TLA+ model of the routing loop checked with TLC; behaviour replay + trace validation against the real router"),
}
NA = {
}
ALL = ["C%02d" % i for i in range(1, 19)]

m = dict(version=1, setup_cmd="bin/setup",
  hooks=dict(guard="verif", enable="checks build /verif/harness (replace github.com/mholt/caddy-l4 => /repo) with `go build -tags verif -overlay <added files only>`",
             baseline_off_cmd="cd /repo && GOFLAGS=-mod=readonly GOPROXY=off GOSUMDB=off go test -vet=off -count=1 -timeout 25m ./...",
             source_commits=json.load(open(os.path.join(V, "tools", "hook_commits.json"))) if os.path.exists(os.path.join(V, "tools", "hook_commits.json")) else [],
             add_only=True),
  engines=[dict(name="tlc", path="/usr/local/bin/tlc", serves_properties=sorted(CHECKS), kind_free_text="explicit-state model checker for the TLA+ specifications under /verif/spec (exhaustive small-scope checking, behaviour generation, trace validation)"),
           dict(name="vdrive", path="/verif/harness/cmd/vdrive", serves_properties=sorted(CHECKS), kind_free_text="Go conformance driver: replays TLC behaviours on the real caddy-l4 code and records traces for TLC")],
  checks=[], notes="bin/check <id> --tier quick|thorough; exit 0 held / 1 VIOLATION / 2 inconclusive. See DESIGN.md.",
  not_applicable=[])
for pid in ALL:
    if pid in CHECKS:
        c = CHECKS[pid]
        m["checks"].append(dict(property_id=pid, quick_cmd=f"bin/check {pid} --tier quick", thorough_cmd=f"bin/check {pid} --tier thorough",
            evidence_file=f"evidence/{pid}.json", replay_cmd_template=f"bin/check {pid} --replay {{path}}", engine="tlc",
            level_claimed=dict(category=c["level"], text=c["text"], design_ref=c["design"]), level_note=c["note"], technique=c["technique"]))
    else:
        m["not_applicable"].append(dict(property_id=pid, reason=NA.get(pid, "check not built yet (work in progress; DESIGN.md section 9 gives the build order)")))
json.dump(m, open(os.path.join(V, "MANIFEST.json"), "w"), indent=1)
print("checks:", [c["property_id"] for c in m["checks"]])
