#!/bin/bash
# tools/eval_par.sh <worker-id> <property> <mutant-dir> [other-property ...]
# Parallel-safe evaluation of one seeded change: everything happens in /tmp/mw<id>/ (a worktree of /repo HEAD and a
# copy of /verif; VERIF_REPO points the checks at the worktree), so /repo itself is never touched and several workers
# can run at once.  Step 1 confirms the change (applies, builds, repository suite passes, demo fails with it and passes
# without); step 2 runs the quick check(s) of the property against the changed worktree.
set -u
ID=$1; P=$2; D=$(readlink -f $3); shift 3
W=/tmp/mw$ID; mkdir -p $W
export GOFLAGS=-mod=mod GOPROXY=off GOSUMDB=off GOTOOLCHAIN=local
if [ ! -d $W/repo ]; then git -C /repo worktree add -q --detach $W/repo HEAD || exit 2; fi
cd $W/repo && git checkout -q --detach $(git -C /repo rev-parse HEAD) && git checkout -q -- . && git clean -fdq
if [ ! -f $D/demo_test.go ]; then f=$(ls $D/*_test.go | head -1); cp $f $D/demo_test.go; fi
pkg=$(grep -m1 "^package " $D/demo_test.go | awk '{print $2}' | sed 's/_test$//')
if [ "$pkg" = "layer4" ]; then PKG=layer4; elif [ "$pkg" = "integration" ]; then PKG=integration; else PKG=modules/$pkg; fi
RE=$(grep -ho "^func Test[A-Za-z0-9_]*" $D/demo_test.go | sed 's/func //' | paste -sd'|')
echo "### $P $(basename $(dirname $D))/$(basename $D) [$PKG] $(head -1 $D/NOTES.md | cut -c1-160)"
cp $D/demo_test.go $PKG/zz_demo_test.go
go test -vet=off -count=1 -run "^($RE)\$" ./$PKG/ > $W/vm-clean.txt 2>&1; CLEAN=$?
rm $PKG/zz_demo_test.go
git apply $D/patch.diff || { echo "PATCH DOES NOT APPLY"; exit 3; }
go build ./... > $W/vm-build.txt 2>&1; BUILD=$?
go test -vet=off -count=1 ./... > $W/vm-suite.txt 2>&1; SUITE=$?
cp $D/demo_test.go $PKG/zz_demo_test.go
go test -vet=off -count=1 -run "^($RE)\$" ./$PKG/ > $W/vm-mut.txt 2>&1; MUT=$?
rm $PKG/zz_demo_test.go
git checkout -q -- go.mod go.sum 2>/dev/null
echo "verify: build=$BUILD suite_with_change=$SUITE demo_clean=$CLEAN demo_with_change=$MUT"
if [ $BUILD -eq 0 ] && [ $SUITE -eq 0 ] && [ $CLEAN -eq 0 ] && [ $MUT -ne 0 ]; then echo CONFIRMED; else echo NOT-CONFIRMED; tail -n 5 $W/vm-clean.txt; tail -n 5 $W/vm-suite.txt; tail -n 5 $W/vm-mut.txt; fi
rsync -a --delete --exclude .git --exclude build --exclude evidence --exclude replays /verif/ $W/verif/
mkdir -p $W/verif/evidence $W/verif/replays
cd $W/verif
for q in $P "$@"; do
  VERIF_REPO=$W/repo bin/check $q --tier quick > $W/try.$q.log 2>&1; rc=$?
  echo "== $q rc=$rc: $(grep -c '^VIOLATION' $W/try.$q.log) VIOLATION lines; $(tail -1 $W/try.$q.log | cut -c1-200)"
  grep -A1 '^VIOLATION' $W/try.$q.log | grep -v '^--' | cut -c1-260 | head -6
  grep 'INCONCLUSIVE' $W/try.$q.log | cut -c1-400 | head -3
done
cd $W/repo && git checkout -q -- . && git clean -fdq
