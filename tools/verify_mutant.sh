#!/bin/bash
# tools/verify_mutant.sh <property> <mutant-dir> <pkgdir-for-demo>
# Confirms a seeded change in a scratch worktree of /repo HEAD: patch applies, builds, the
# repository's own suite passes with it, the demonstration fails with it and passes without.
set -u
PID=$1; MD=$2; PKG=$3
WT=$(mktemp -d /tmp/vm-XXXXXX)
RE=$(grep -ho "^func Test[A-Za-z0-9_]*" "$MD"/demo_test.go | sed 's/func //' | paste -sd'|')
export GOFLAGS=-mod=mod GOPROXY=off GOSUMDB=off GOTOOLCHAIN=local
git -C /repo worktree add -q --detach "$WT" HEAD || exit 2
cd "$WT"
res() { echo "$1"; }
cp "$MD"/demo_test.go "$PKG"/zz_demo_test.go
go test -vet=off -count=1 -run "^($RE)\$" ./"$PKG"/ > /tmp/vm-clean.txt 2>&1; CLEAN=$?
rm "$PKG"/zz_demo_test.go
git apply "$MD"/patch.diff || { echo "PATCH DOES NOT APPLY"; cd /; git -C /repo worktree remove --force "$WT"; exit 3; }
go build ./... > /tmp/vm-build.txt 2>&1; BUILD=$?
go test -vet=off -count=1 ./... > /tmp/vm-suite.txt 2>&1; SUITE=$?
cp "$MD"/demo_test.go "$PKG"/zz_demo_test.go
go test -vet=off -count=1 -run "^($RE)\$" ./"$PKG"/ > /tmp/vm-mut.txt 2>&1; MUT=$?
cd /
git -C /repo worktree remove --force "$WT"
echo "$PID $(basename $MD): build=$BUILD suite_with_mutant=$SUITE demo_clean=$CLEAN demo_mutant=$MUT"
if [ $BUILD -eq 0 ] && [ $SUITE -eq 0 ] && [ $CLEAN -eq 0 ] && [ $MUT -ne 0 ]; then echo CONFIRMED; else echo NOT-CONFIRMED; tail -n 5 /tmp/vm-clean.txt; tail -n 5 /tmp/vm-suite.txt; tail -n 5 /tmp/vm-mut.txt; fi
