----------------------------- MODULE L4PeersTrace -----------------------------
(***************************************************************************)
(* Observations of the real peers pool (harness: peers-run) against the    *)
(* invariants of L4Peers.  One line = one scenario; t.hist[k] is the state *)
(* after the k-th load / unload: refs[a], pool[a] (identity of the pooled  *)
(* peer, "" if none), holds[h][a] (identity of the peer handler h points   *)
(* to), uses[h] (the dial addresses of live handler h, with repetitions),  *)
(* down[h][a] (live handler h reads "unhealthy" for its address a),        *)
(* active (the live handlers that run an active health checker).  Steps    *)
(* "wait" (the checkers get time for several rounds) and "up" / "dn" (the  *)
(* backend starts / stops accepting) change no handler.                    *)
(***************************************************************************)
EXTENDS Integers, Sequences, FiniteSets, TLC, Json, TLCExt
Traces == ndJsonDeserialize("peers_traces.ndjson")
Range(s) == { s[i] : i \in DOMAIN s }
Live(e) == DOMAIN e.uses
\* Y1 (Shared): every live handler points to the very peer the pool holds for its addresses
Y1(e) == \A h \in Live(e) : \A a \in Range(e.uses[h]) : a \in DOMAIN e.pool => (e.pool[a] # "" /\ e.holds[h][a] = e.pool[a])
\* Y2 (RefsExact): the reference count of an address is the number of its uses by live handlers
Count(s, a) == Cardinality({ i \in DOMAIN s : s[i] = a })
RECURSIVE SumUses(_, _, _)
SumUses(e, S, a) == IF S = {} THEN 0 ELSE LET h == CHOOSE x \in S : TRUE IN Count(e.uses[h], a) + SumUses(e, S \ {h}, a)
Y2(e) == \A a \in DOMAIN e.refs : e.refs[a] = SumUses(e, Live(e), a)
\* Y3 (Watched): an "unhealthy" a live handler acts on is written by a live handler's active checker
Y3(e) == \A h \in Live(e) : \A a \in Range(e.uses[h]) :
           (a \in DOMAIN e.down[h] /\ e.down[h][a]) =>
             \E g \in Live(e) : g \in Range(e.active) /\ a \in Range(e.uses[g]) /\ e.holds[g][a] = e.holds[h][a]
\* Y4: after the checkers had time, a live handler WITH active checks reads the backend's real state
Y4(e) == (e.op = "wait") => \A h \in Live(e) : h \in Range(e.active) =>
            \A a \in Range(e.uses[h]) : (a \in DOMAIN e.down[h] /\ a \in DOMAIN e.up) => (e.down[h][a] = ~e.up[a])
PeersViolations(t) ==
  (IF \A k \in DOMAIN t.hist : Y1(t.hist[k]) THEN {} ELSE {"Y1 a live handler's peer is not the pooled peer of its address (state no longer shared)"})
  \cup (IF \A k \in DOMAIN t.hist : Y2(t.hist[k]) THEN {} ELSE {"Y2 the reference count of an address differs from its uses by live handlers"})
  \cup (IF \A k \in DOMAIN t.hist : Y3(t.hist[k]) THEN {} ELSE {"Y3 a live handler without active checks reads an 'unhealthy' verdict that no live checker can revise (left in the pooled peer by an unloaded handler)"})
  \cup (IF \A k \in DOMAIN t.hist : Y4(t.hist[k]) THEN {} ELSE {"Y4 a handler with active checks does not read the backend's real state after several check intervals"})
Judge(t) == LET v == PeersViolations(t) IN
            IF v = {} THEN TRUE ELSE PrintT(<<"VBAD", ToJson([id |-> t.id, clauses |-> v])>>)
VARIABLE k
TInit == k = 0
TNext == k < Len(Traces) /\ Judge(Traces[k + 1]) /\ k' = k + 1
Done == (k = Len(Traces)) => PrintT(<<"VDONE", k>>)
=============================================================================
