----------------------------- MODULE L4PeersTrace -----------------------------
(***************************************************************************)
(* Observations of the real peers pool (harness: peers-run) against the    *)
(* invariants of L4Peers.  One line = one scenario; t.hist[k] is the state *)
(* after the k-th load / unload: refs[a], pool[a] (identity of the pooled  *)
(* peer, "" if none), holds[h][a] (identity of the peer handler h points   *)
(* to), uses[h] (the dial addresses of live handler h, with repetitions).  *)
(***************************************************************************)
EXTENDS Integers, Sequences, FiniteSets, TLC, Json, TLCExt
Traces == ndJsonDeserialize("peers_traces.ndjson")
Range(s) == { s[i] : i \in DOMAIN s }
Live(e) == DOMAIN e.uses
\* Y1 (Shared): every live handler points to the very peer the pool holds for its addresses
Y1(e) == \A h \in Live(e) : \A a \in Range(e.uses[h]) : a \in DOMAIN e.pool => (e.pool[a] # "" /\ e.holds[h][a] = e.pool[a])
\* Y2 (RefsExact): the reference count of an address is the number of its uses by live handlers
Count(s, a) == Cardinality({ i \in DOMAIN s : s[i] = a })
RECURSIVE SumUses(_, _, _)
SumUses(e, S, a) == IF S = {} THEN 0 ELSE LET h == CHOOSE x \in S : TRUE IN Count(e.uses[h], a) + SumUses(e, S \ {h}, a)
Y2(e) == \A a \in DOMAIN e.refs : e.refs[a] = SumUses(e, Live(e), a)
PeersViolations(t) ==
  (IF \A k \in DOMAIN t.hist : Y1(t.hist[k]) THEN {} ELSE {"Y1 a live handler's peer is not the pooled peer of its address (state no longer shared)"})
  \cup (IF \A k \in DOMAIN t.hist : Y2(t.hist[k]) THEN {} ELSE {"Y2 the reference count of an address differs from its uses by live handlers"})
Judge(t) == LET v == PeersViolations(t) IN
            IF v = {} THEN TRUE ELSE PrintT(<<"VBAD", ToJson([id |-> t.id, clauses |-> v])>>)
VARIABLE k
TInit == k = 0
TNext == k < Len(Traces) /\ Judge(Traces[k + 1]) /\ k' = k + 1
Done == (k = Len(Traces)) => PrintT(<<"VDONE", k>>)
=============================================================================
