SPECIFICATION Spec
CONSTANTS Peers <- MCPeers FailDur = 3 MaxFails = 2 TryDur = 2 TryInt = 1 MaxConns = 1 NConns = 2 MaxNow = 6
INVARIANTS CountExact NeverNegative LimitRespected ConnsExact GiveUpOnlyLate
CHECK_DEADLOCK FALSE
