SPECIFICATION Spec
CONSTANTS
  Handlers <- HandlersMC
  Addrs <- AddrsMC
  Dial <- DialFail
  FailAt <- FailAtFail
  CleanupWhatWasStored = TRUE
INVARIANTS Shared RefsExact
CHECK_DEADLOCK FALSE
