------------------------------ MODULE L4UdpAbs ------------------------------
(***************************************************************************)
(* C09 as clauses over the recorded history of one run of the real         *)
(* servePacket loop behind a scripted net.PacketConn.                      *)
(*   [e |-> "DgIn", c, seq]      the socket handed datagram seq of client  *)
(*                               c to the server (seq: global arrival no.) *)
(*   [e |-> "New", a, c]         handler invoked for association a, whose  *)
(*                               RemoteAddr is c                           *)
(*   [e |-> "Dlv", a, c, seq, off, n]  handler a read bytes off..off+n of  *)
(*                               datagram (c, seq)                         *)
(*   [e |-> "Reply", a, to]      handler a wrote; the socket sent it to    *)
(*   [e |-> "End", a]            handler a returned                        *)
(*   [e |-> "Closed", a]         (hook) packetConn.Close of a completed    *)
(*   [e |-> "Idle", a]           (hook) a's idle timer fired in Read: the  *)
(*                               loop is told, Read returns EOF            *)
(*   [e |-> "Crash", msg]        the server process died                   *)
(***************************************************************************)
EXTENDS Integers, Sequences, FiniteSets, TLC

IsE(ev, name) == ev.e = name
Idx(h, name) == { i \in 1..Len(h) : IsE(h[i], name) }
ClientOf(h, a) == LET S == { i \in Idx(h, "New") : h[i].a = a } IN
                  IF S = {} THEN "?" ELSE h[CHOOSE i \in S : TRUE].c

U0(h) == Idx(h, "Crash") = {}
\* every association is announced once, before anything it does
U0b(h) == \A i \in 1..Len(h) : (IsE(h[i], "Dlv") \/ IsE(h[i], "Reply") \/ IsE(h[i], "End")) =>
             \E j \in 1..(i-1) : IsE(h[j], "New") /\ h[j].a = h[i].a
\* U1: a client's datagrams reach only its own virtual connection
U1(h) == \A i \in Idx(h, "Dlv") : h[i].c = ClientOf(h, h[i].a) /\
            \E j \in 1..(i-1) : IsE(h[j], "DgIn") /\ h[j].c = h[i].c /\ h[j].seq = h[i].seq
\* U2: in arrival order, nothing twice: per association (seq, off) strictly increases and the
\*     pieces of one datagram are contiguous
U2(h) == \A i \in Idx(h, "Dlv") : \A j \in Idx(h, "Dlv") :
            (i < j /\ h[i].a = h[j].a) =>
               \/ h[i].seq < h[j].seq
               \/ (h[i].seq = h[j].seq /\ h[i].off + h[i].n <= h[j].off)
\* a datagram is delivered to at most one association
U2b(h) == \A i \in Idx(h, "Dlv") : \A j \in Idx(h, "Dlv") :
             (h[i].c = h[j].c /\ h[i].seq = h[j].seq) => h[i].a = h[j].a
\* U3: replies go only to the association's own client
U3(h) == \A i \in Idx(h, "Reply") : h[i].to = ClientOf(h, h[i].a)
\* U4: a datagram that arrives after its client's association has been closed - or has expired ("Idle": the
\*     30 s idle timer fired and the loop was told) - is never delivered to that association, and an association
\*     newer than it serves the client
NewIdx(h, a) == LET S == { i \in Idx(h, "New") : h[i].a = a } IN IF S = {} THEN 0 ELSE CHOOSE i \in S : TRUE
Ended(h) == Idx(h, "Closed") \cup Idx(h, "Idle")
U4(h) == \A i \in Idx(h, "DgIn") :
            \A k \in { k \in Ended(h) : k < i /\ ClientOf(h, h[k].a) = h[i].c } :
               /\ \A j \in Idx(h, "Dlv") : ~(h[j].a = h[k].a /\ h[j].seq = h[i].seq)
               /\ \E j \in Idx(h, "New") : j > NewIdx(h, h[k].a) /\ h[j].c = h[i].c /\ h[j].a # h[k].a
\* U5: a client has one virtual connection at a time: a new one is started only after the previous one of the
\*     same client has returned, been closed or expired
U5(h) == \A j \in Idx(h, "New") : \A i \in Idx(h, "New") :
            (i < j /\ h[i].c = h[j].c) =>
               \E k \in (i+1)..(j-1) : (IsE(h[k], "End") \/ IsE(h[k], "Closed") \/ IsE(h[k], "Idle")) /\ h[k].a = h[i].a

\* U6: once things have settled after an association ended ("Settled", a marker of the harness), every datagram
\*     the socket hands to the server is delivered to some association: the loop is not blocked and no dead
\*     association swallows datagrams
U6(h) == \A s \in Idx(h, "Settled") : \A i \in Idx(h, "DgIn") :
            i > s => \E j \in Idx(h, "Dlv") : h[j].c = h[i].c /\ h[j].seq = h[i].seq

UdpViolations(h, complete) ==
  (IF U0(h) THEN {} ELSE {"U0 the server loop crashed"})
  \cup (IF U0b(h) THEN {} ELSE {"U0b activity of an unannounced association"})
  \cup (IF U1(h) THEN {} ELSE {"U1 a datagram reached another client's connection (or was never received)"})
  \cup (IF U2(h) THEN {} ELSE {"U2 datagrams delivered out of arrival order or twice"})
  \cup (IF U2b(h) THEN {} ELSE {"U2b one datagram delivered to two connections"})
  \cup (IF U3(h) THEN {} ELSE {"U3 a reply went to another client's address"})
  \cup (IF ~complete \/ U4(h) THEN {} ELSE {"U4 a datagram arriving after its association closed was not served by a fresh one"})
  \cup (IF ~complete \/ U6(h) THEN {} ELSE {"U6 a datagram arriving after things had settled was not delivered to any association"})
  \cup (IF U5(h) THEN {} ELSE {"U5 a second virtual connection was started for a client whose connection was still alive"})
=============================================================================
