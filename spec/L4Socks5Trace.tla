----------------------------- MODULE L4Socks5Trace -----------------------------
EXTENDS L4Socks5, Json, TLCExt
Traces == ndJsonDeserialize("socks_traces.ndjson")
Judge(t) == IF SocksOK(t.cfg, t.sc, t.served, t.outbound) THEN TRUE
            ELSE PrintT(<<"VBAD", ToJson([id |-> t.id, clauses |-> {"K1 the handler executed a request it must refuse (command not enabled, or client not authenticated with a configured credential)"}])>>)
VARIABLE k
TInit == k = 0
TNext == k < Len(Traces) /\ Judge(Traces[k + 1]) /\ k' = k + 1
Done == (k = Len(Traces)) => PrintT(<<"VDONE", k>>)
=============================================================================
