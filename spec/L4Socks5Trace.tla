----------------------------- MODULE L4Socks5Trace -----------------------------
EXTENDS L4Socks5, Json, TLCExt
Traces == ndJsonDeserialize("socks_traces.ndjson")
Clauses(t) == (IF SocksOK(t.cfg, t.sc, t.served, t.outbound) THEN {}
               ELSE {"K1 the handler executed a request it must refuse (command not enabled, or client not authenticated with a configured credential)"})
              \cup (IF t.panic = "" THEN {} ELSE {"K0 the handler panicked on the client's bytes"})
Judge(t) == IF Clauses(t) = {} THEN TRUE ELSE PrintT(<<"VBAD", ToJson([id |-> t.id, clauses |-> Clauses(t)])>>)
VARIABLE k
TInit == k = 0
TNext == k < Len(Traces) /\ Judge(Traces[k + 1]) /\ k' = k + 1
Done == (k = Len(Traces)) => PrintT(<<"VDONE", k>>)
=============================================================================
