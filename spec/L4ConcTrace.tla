------------------------------ MODULE L4ConcTrace ------------------------------
(***************************************************************************)
(* C08, behavioural half: a connection handled together with many others   *)
(* through the same configuration behaves exactly as it does alone.        *)
(* One line = one connection: the events (which routes ran, which stream   *)
(* positions each handler read, what a tee branch read) recorded when it   *)
(* ran alone (solo) and when it ran among the others (together).  The      *)
(* stream clauses are those of L4RouterAbs (R7: exactly once, in order).   *)
(* kind "matcher": the shipped protocol matchers, one instance per route   *)
(* shared by all connections; the connection's valid first message must be *)
(* routed by its own protocol's route (X4).                                *)
(***************************************************************************)
EXTENDS L4Segs, Json, TLC, TLCExt
Traces == ndJsonDeserialize("conc_traces.ndjson")
RECURSIVE Reads(_)
Reads(h) == IF h = <<>> THEN <<>>
            ELSE IF Head(h).e = "HRead" THEN Head(h).segs \o Reads(Tail(h)) ELSE Reads(Tail(h))
RECURSIVE Routes(_)
Routes(h) == IF h = <<>> THEN <<>>
             ELSE IF Head(h).e = "Handle" THEN <<Head(h).r>> \o Routes(Tail(h)) ELSE Routes(Tail(h))
Judge(t) ==
  LET v == (IF t.together = t.solo THEN {} ELSE {"X1 a connection behaved differently among concurrent connections than alone"})
           \cup (IF Contig(Reads(t.together), 0) THEN {} ELSE {"X2 a connection read bytes that are not its own stream in order (cross-talk)"})
           \cup (IF t.kind = "matcher" /\ Routes(t.together) # <<t.wantRoute>>
                 THEN {"X4 a valid first message was not routed by its protocol's matcher while other connections used the same matcher"} ELSE {})
           \cup (IF t.kind = "lb" /\ t.badSelections # 0 THEN {"X3 a selection policy shared by several goroutines returned an unavailable upstream or none"} ELSE {}) IN
  IF v = {} THEN TRUE ELSE PrintT(<<"VBAD", ToJson([id |-> t.id, clauses |-> v])>>)
VARIABLE k
TInit == k = 0
TNext == k < Len(Traces) /\ Judge(Traces[k + 1]) /\ k' = k + 1
Done == (k = Len(Traces)) => PrintT(<<"VDONE", k>>)
=============================================================================
