SPECIFICATION Spec
CONSTANTS N = 3 FailAt = 3 MaxConns = 2 CleanupOnFailedStart = TRUE
INVARIANTS TypeOK AllTracked StopClosesAll FailedStartLeavesNothing
CHECK_DEADLOCK FALSE
