SPECIFICATION Spec
CONSTANTS N = 3 FailAt = 3 MaxConns = 2 CleanupOnFailedStart = TRUE MaxErrs = 0 RetryTransient = FALSE
INVARIANTS TypeOK AllTracked StopClosesAll FailedStartLeavesNothing
CHECK_DEADLOCK FALSE
