---- MODULE L4Timed_MC_TTrace_1791071528 ----
EXTENDS Sequences, TLCExt, L4Timed_MC, Toolbox, Naturals, TLC

_expression ==
    LET L4Timed_MC_TEExpression == INSTANCE L4Timed_MC_TEExpression
    IN L4Timed_MC_TEExpression!expression
----

_trace ==
    LET L4Timed_MC_TETrace == INSTANCE L4Timed_MC_TETrace
    IN L4Timed_MC_TETrace!trace
----

_inv ==
    ~(
        TLCGet("level") = Len(_TETrace)
        /\
        st = ("aborted")
        /\
        now = (4)
        /\
        stored = (4)
        /\
        start = (1)
        /\
        endAt = (4)
        /\
        sent = (0)
    )
----

_init ==
    /\ endAt = _TETrace[1].endAt
    /\ start = _TETrace[1].start
    /\ now = _TETrace[1].now
    /\ stored = _TETrace[1].stored
    /\ st = _TETrace[1].st
    /\ sent = _TETrace[1].sent
----

_next ==
    /\ \E i,j \in DOMAIN _TETrace:
        /\ \/ /\ j = i + 1
              /\ i = TLCGet("level")
        /\ endAt  = _TETrace[i].endAt
        /\ endAt' = _TETrace[j].endAt
        /\ start  = _TETrace[i].start
        /\ start' = _TETrace[j].start
        /\ now  = _TETrace[i].now
        /\ now' = _TETrace[j].now
        /\ stored  = _TETrace[i].stored
        /\ stored' = _TETrace[j].stored
        /\ st  = _TETrace[i].st
        /\ st' = _TETrace[j].st
        /\ sent  = _TETrace[i].sent
        /\ sent' = _TETrace[j].sent

\* Uncomment the ASSUME below to write the states of the error trace
\* to the given file in Json format. Note that you can pass any tuple
\* to `JsonSerialize`. For example, a sub-sequence of _TETrace.
    \* ASSUME
    \*     LET J == INSTANCE Json
    \*         IN J!JsonSerialize("L4Timed_MC_TTrace_1791071528.json", _TETrace)

=============================================================================

 Note that you can extract this module `L4Timed_MC_TEExpression`
  to a dedicated file to reuse `expression` (the module in the 
  dedicated `L4Timed_MC_TEExpression.tla` file takes precedence 
  over the module `L4Timed_MC_TEExpression` below).

---- MODULE L4Timed_MC_TEExpression ----
EXTENDS Sequences, TLCExt, L4Timed_MC, Toolbox, Naturals, TLC

expression == 
    [
        \* To hide variables of the `L4Timed_MC` spec from the error trace,
        \* remove the variables below.  The trace will be written in the order
        \* of the fields of this record.
        endAt |-> endAt
        ,start |-> start
        ,now |-> now
        ,stored |-> stored
        ,st |-> st
        ,sent |-> sent
        
        \* Put additional constant-, state-, and action-level expressions here:
        \* ,_stateNumber |-> _TEPosition
        \* ,_endAtUnchanged |-> endAt = endAt'
        
        \* Format the `endAt` variable as Json value.
        \* ,_endAtJson |->
        \*     LET J == INSTANCE Json
        \*     IN J!ToJson(endAt)
        
        \* Lastly, you may build expressions over arbitrary sets of states by
        \* leveraging the _TETrace operator.  For example, this is how to
        \* count the number of times a spec variable changed up to the current
        \* state in the trace.
        \* ,_endAtModCount |->
        \*     LET F[s \in DOMAIN _TETrace] ==
        \*         IF s = 1 THEN 0
        \*         ELSE IF _TETrace[s].endAt # _TETrace[s-1].endAt
        \*             THEN 1 + F[s-1] ELSE F[s-1]
        \*     IN F[_TEPosition - 1]
    ]

=============================================================================



Parsing and semantic processing can take forever if the trace below is long.
 In this case, it is advised to uncomment the module below to deserialize the
 trace from a generated binary file.

\*
\*---- MODULE L4Timed_MC_TETrace ----
\*EXTENDS IOUtils, L4Timed_MC, TLC
\*
\*trace == IODeserialize("L4Timed_MC_TTrace_1791071528.bin", TRUE)
\*
\*=============================================================================
\*

---- MODULE L4Timed_MC_TETrace ----
EXTENDS L4Timed_MC, TLC

trace == 
    <<
    ([st |-> "init",now |-> 1,stored |-> -1,start |-> 1,endAt |-> -1,sent |-> 0]),
    ([st |-> "reading",now |-> 1,stored |-> 4,start |-> 1,endAt |-> -1,sent |-> 0]),
    ([st |-> "reading",now |-> 2,stored |-> 4,start |-> 1,endAt |-> -1,sent |-> 0]),
    ([st |-> "reading",now |-> 3,stored |-> 4,start |-> 1,endAt |-> -1,sent |-> 0]),
    ([st |-> "reading",now |-> 4,stored |-> 4,start |-> 1,endAt |-> -1,sent |-> 0]),
    ([st |-> "aborted",now |-> 4,stored |-> 4,start |-> 1,endAt |-> 4,sent |-> 0])
    >>
----


=============================================================================

---- CONFIG L4Timed_MC_TTrace_1791071528 ----
CONSTANTS
    T = 3
    Gran = 4
    MaxNow = 12
    Store = "exact"
    MaxData = 2

INVARIANT
    _inv

CHECK_DEADLOCK
    \* CHECK_DEADLOCK off because of PROPERTY or INVARIANT above.
    FALSE

INIT
    _init

NEXT
    _next

CONSTANT
    _TETrace <- _trace

ALIAS
    _expression
=============================================================================
\* Generated on Sat Oct 03 23:52:09 UTC 2026