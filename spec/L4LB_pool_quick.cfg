INIT GInit
NEXT GNext
CONSTANTS Tier = "quick"
INVARIANT EmitPool
CHECK_DEADLOCK FALSE
