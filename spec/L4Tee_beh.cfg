SPECIFICATION Spec
CONSTANTS Chunks = 3 ClosePipeOnReturn = FALSE BranchEndDrains = FALSE
INVARIANTS TypeOK Lockstep BranchSeesAll BehOut
CHECK_DEADLOCK FALSE
