------------------------------ MODULE L4TeeTrace ------------------------------
(***************************************************************************)
(* Observations of the real tee handler (harness: tee-run) against L4Tee.  *)
(* One line = one scenario (t.end, t.mstop, t.bstop, t.chunks as in L4Tee) *)
(* with t.pred, the terminal state TLC found for that scenario in the      *)
(* model of the code as it is, and t.obs, what the real handler did:       *)
(*   mret   next.Handle (and with it tee.Handle) returned                  *)
(*   mgot, mend  chunks the main chain read, how its last Read ended       *)
(*   bdone  the branch goroutine ended                                     *)
(*   bgot, beof  chunks the branch read, whether it saw the pipe's end     *)
(*   intact (obs only) both readers read the client's bytes, unaltered and *)
(*          in order, in whole chunks                                      *)
(* E0 binds the model to the code: the real handler ends every scenario in *)
(* the state the model predicts.  E1 is the safety half (Lockstep,         *)
(* BranchSeesAll).  E2 and E3 are the liveness properties MainEnds and     *)
(* BranchEnds of L4Tee, which TLC shows to be violated by the model of the *)
(* code as it is - observations about the code, not listed properties.     *)
(***************************************************************************)
EXTENDS Integers, Sequences, FiniteSets, TLC, Json, TLCExt
Traces == ndJsonDeserialize("tee_traces.ndjson")
Same(p, o) == /\ p.mret = o.mret /\ p.mgot = o.mgot /\ p.mend = o.mend
              /\ p.bdone = o.bdone /\ p.bgot = o.bgot /\ p.beof = o.beof
E0(t) == Same(t.pred, t.obs)
E1(t) == /\ t.obs.intact
         /\ t.obs.mgot <= t.obs.bgot /\ t.obs.bgot <= t.chunks
         /\ (t.obs.beof /\ t.obs.mret) => t.obs.bgot = t.obs.mgot
E2(t) == (t.end # "open" \/ t.mstop # -1) => t.obs.mret
E3(t) == t.obs.mret => t.obs.bdone
TeeViolations(t) ==
  (IF E0(t) THEN {} ELSE {"E0 the real tee handler did not end the scenario in the state the model of the code predicts"})
  \cup (IF E1(t) THEN {} ELSE {"E1 the two readers of a tee did not read the same bytes of the client in lockstep"})
  \cup (IF E2(t) THEN {} ELSE {"E2 the main chain is held for ever: the branch stopped reading and the pipe is synchronous"})
  \cup (IF E3(t) THEN {} ELSE {"E3 the branch goroutine is left blocked on the pipe after the connection was closed (the pipe is closed on io.EOF only)"})
Judge(t) == LET v == TeeViolations(t) IN
            IF v = {} THEN TRUE ELSE PrintT(<<"VBAD", ToJson([id |-> t.id, clauses |-> v])>>)
VARIABLE k
TInit == k = 0
TNext == k < Len(Traces) /\ Judge(Traces[k + 1]) /\ k' = k + 1
Done == (k = Len(Traces)) => PrintT(<<"VDONE", k>>)
=============================================================================
