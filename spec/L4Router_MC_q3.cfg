\* three routes, minimal palette: the cached not-matched rule, content-dependent verdicts
SPECIFICATION Spec
CONSTANTS
  Chunk = 2
  Limit = 8
  MaxStream = 3
  MaxRoutes = 3
  MaxSubRoutes = 0
  Shapes <- ShapesQ3
  SubShapes <- SubShapesSmall
  WrapMode = "handover"
INVARIANTS TypeOK PropsHold Emit
CHECK_DEADLOCK FALSE
