INIT GInit
NEXT GNext
CONSTANTS Tier = "sim"
INVARIANT EmitPool
CHECK_DEADLOCK FALSE
