----------------------------- MODULE L4ThrottleGrid -----------------------------
(* Scenario grid of the throttle conformance runs (C17), enumerated by TLC. *)
EXTENDS Integers, TLC, Json
CONSTANT Tier
Grid == [rate : {0, 2000, 10000, 50000}, burst : {0, 500, 1000, 8192}, total : {0, 1, 2, 3}, latency : {0, 120},
         buf : {1, 100, 4096, 65536}, conns : {1, 2, 4}, via : {"direct", "sub", "presub"}]
\* total: 0 = no total limit, 1 = total limit equal to one connection's, 2 = total only, 3 = no limit at all (latency only)
Valid(g) == /\ (g.rate = 0) = (g.burst = 0 /\ g.total \in {2, 3})
            /\ (g.total \in {2, 3} => g.rate = 0)
            /\ (g.total = 3 => g.latency > 0)
            \* via "sub": inside a subroute with a 300 ms matching timeout, followed by a route that needs data and says no
            \* via "presub": in front of a subroute whose reading matcher needs 1.5 bursts: matching takes several throttled rounds
            /\ (g.via \in {"sub", "presub"} => (g.rate = 10000 /\ g.burst = 1000 /\ g.total = 0 /\ g.latency = 0 /\ g.conns = 1 /\ g.buf \in {100, 65536}))
            /\ (g.buf = 1 => g.rate <= 2000 /\ g.total # 2)
QuickGrid == { g \in Grid : Valid(g) /\ g.rate \in {0, 10000, 50000} /\ g.burst \in {0, 1000, 8192} /\ g.buf \in {100, 65536} /\ g.conns \in {1, 4} }
VARIABLE g
Init == g \in (IF Tier = "quick" THEN QuickGrid ELSE { x \in Grid : Valid(x) })
Next == UNCHANGED g
Emit == PrintT(<<"VOUT", ToJson(g)>>)
=============================================================================
