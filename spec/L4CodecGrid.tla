----------------------------- MODULE L4CodecGrid -----------------------------
(* Enumerates the codec cases of one type (one TLC state per case). *)
EXTENDS L4Codec, Json
CONSTANTS Type, Dev
VARIABLE g
Init == g \in Cases(Type, Dev)
Next == UNCHANGED g
Emit == PrintT(<<"VOUT", ToJson(g)>>)
=============================================================================
