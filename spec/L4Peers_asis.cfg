SPECIFICATION Spec
CONSTANTS
  Handlers <- HandlersMC
  Addrs <- AddrsMC
  Dial <- DialFail
  FailAt <- FailAtFail
  CleanupWhatWasStored = FALSE
  Active <- NoActive
  VerdictPerHandler = FALSE
  MaxFlips = 0
INVARIANTS Shared RefsExact Watched
CHECK_DEADLOCK FALSE
