SPECIFICATION Spec
CONSTANTS
  Handlers <- HandlersMC
  Addrs <- AddrsMC
  Dial <- DialFail
  FailAt <- FailAtFail
  CleanupWhatWasStored = FALSE
INVARIANTS Shared RefsExact
CHECK_DEADLOCK FALSE
