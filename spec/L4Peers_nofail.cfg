SPECIFICATION Spec
CONSTANTS
  Handlers <- HandlersMC
  Addrs <- AddrsMC
  Dial <- DialOk
  FailAt <- FailAtOk
  CleanupWhatWasStored = FALSE
INVARIANTS Shared RefsExact
CHECK_DEADLOCK FALSE
