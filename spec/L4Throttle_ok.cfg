SPECIFICATION Spec
CONSTANTS Conns = {"a", "b"} Rate = 1 Burst = 2 TRate = 1 TBurst = 3 BufSizes = {1, 2, 5} MaxNow = 5 ChargeAfter = FALSE
INVARIANTS BoundLocal BoundTotal
CHECK_DEADLOCK FALSE
