------------------------------ MODULE L4Throttle ------------------------------
(***************************************************************************)
(* The throttle handler (C17): modules/l4throttle/throttle.go              *)
(* throttledConn.Read: batch := min(len(p), bursts); WaitN(batch) on the   *)
(* total and the per-connection limiter (token buckets, full at creation); *)
(* then ONE underlying read of at most batch bytes.  Integer ticks; Rate   *)
(* tokens are added per tick up to Burst.                                  *)
(***************************************************************************)
EXTENDS Integers, Sequences, FiniteSets, TLC

CONSTANTS Conns, Rate, Burst, TRate, TBurst,   \* per-connection and total (handler-wide) limiter
          BufSizes, MaxNow, ChargeAfter        \* ChargeAfter = TRUE: a mutant that reads first and waits afterwards
VARIABLES now, tok, ttok, pulled, first, waiting
vars == <<now, tok, ttok, pulled, first, waiting>>
Min(a, b) == IF a < b THEN a ELSE b

Init == /\ now = 0 /\ tok = [c \in Conns |-> Burst] /\ ttok = TBurst
        /\ pulled = [c \in Conns |-> 0] /\ first = -1
        /\ waiting = [c \in Conns |-> 0]      \* batch a connection is waiting for (0: not reading)

\* a reader asks for len(p) bytes
Ask(c) == /\ waiting[c] = 0
          /\ \E n \in BufSizes : waiting' = [waiting EXCEPT ![c] = Min(n, Min(Burst, TBurst))]
          /\ UNCHANGED <<now, tok, ttok, pulled, first>>
\* both limiters grant the batch; the underlying read returns k <= batch bytes
Grant(c) == /\ waiting[c] > 0
            /\ (ChargeAfter \/ (ttok >= waiting[c] /\ tok[c] >= waiting[c]))
            /\ \E k \in 1..waiting[c] :
                 /\ pulled' = [pulled EXCEPT ![c] = @ + k]
                 /\ ttok' = ttok - waiting[c] /\ tok' = [tok EXCEPT ![c] = @ - waiting[c]]
            /\ first' = (IF first = -1 THEN now ELSE first)
            /\ waiting' = [waiting EXCEPT ![c] = 0]
            /\ UNCHANGED now
Tick == /\ now < MaxNow /\ now' = now + 1
        /\ tok' = [c \in Conns |-> Min(Burst, tok[c] + Rate)]
        /\ ttok' = Min(TBurst, ttok + TRate)
        /\ UNCHANGED <<pulled, first, waiting>>
Next == Tick \/ \E c \in Conns : Ask(c) \/ Grant(c)
Spec == Init /\ [][Next]_vars

RECURSIVE Sum(_, _)
Sum(f, S) == IF S = {} THEN 0 ELSE LET x == CHOOSE y \in S : TRUE IN f[x] + Sum(f, S \ {x})
Elapsed == IF first = -1 THEN 0 ELSE now - first
\* bytes read from the client by time T after the first read never exceed burst + rate x T
BoundLocal == \A c \in Conns : pulled[c] <= Burst + Rate * Elapsed
BoundTotal == Sum(pulled, Conns) <= TBurst + TRate * Elapsed
=============================================================================
