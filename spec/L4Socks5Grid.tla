----------------------------- MODULE L4Socks5Grid -----------------------------
EXTENDS L4Socks5, Json
CONSTANT Tier
Cr(u, p) == [u |-> u, p |-> p]
CmdLists == { <<>>, <<"CONNECT">>, <<"ASSOCIATE">>, <<"BIND">>, <<"CONNECT", "BIND">>, <<"{env.VERIF_CMD}">>, <<"associate", "bind">> }
CredLists == { <<>>, <<Cr("alice", "pw")>>, <<Cr("alice", "pw"), Cr("bob", "pw2")>>, <<Cr("", "secret")>>,
               <<Cr("", "x"), Cr("alice", "pw")>>, <<Cr("carol", "")>>,
               <<Cr("{env.VERIF_USER}", "{env.VERIF_PASS}")>>, <<Cr("{env.VERIF_UNSET}", "x")>> }
MethodLists == { <<0>>, <<2>>, <<0, 2>>, <<1>>, <<>>, <<128, 2>> }
Auths == {"right", "wronguser", "wrongpass", "empty", "emptyuser", "malformed"}
\* form: the configuration reaches the handler as JSON or through the documented Caddyfile syntax
Cfgs == [cmds : CmdLists, creds : CredLists, form : {"json", "caddyfile"}]
Scripts == [methods : MethodLists, auth : Auths, cmd : {1, 2, 3, 0, 9}, atyp : IF Tier = "quick" THEN {1, 3, 5} ELSE {1, 3, 4, 5}]
VARIABLES cfg, sc
Init == cfg \in Cfgs /\ sc \in Scripts
             \* without credentials the sub-negotiation never happens: keep one auth variant
             /\ (~(2 \in Range(sc.methods)) => sc.auth = "right")
Next == UNCHANGED <<cfg, sc>>
Emit == PrintT(<<"VOUT", ToJson([cfg |-> cfg, sc |-> sc, sent |-> Sent(cfg, sc), may |-> May(cfg, sc)])>>)
=============================================================================
