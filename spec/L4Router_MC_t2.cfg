\* two routes, full palette, no subroute
SPECIFICATION Spec
CONSTANTS
  Chunk = 2
  Limit = 8
  StreamLens <- SL4
  PullSizes <- PS12
  PullFixed = FALSE
  MaxRoutes = 2
  MaxSubRoutes = 0
  Shapes <- ShapesNoSub
  SubShapes <- SubShapesSmall
  WrapMode = "handover"
INVARIANTS TypeOK PropsHold Emit
CHECK_DEADLOCK FALSE
