SPECIFICATION Spec
CONSTANTS Clients = {"c1", "c2"}  MaxDg = 6  MaxAssoc = 5  PacketsCap = 2  ReadCap = 1  CloseCap = 2  ReadsBeforeReturn = 1  Mode = "fixed"
  Shutdown = FALSE
  CloseGivesUp = FALSE
INVARIANTS NoCrash NoStaleDelete OwnClientOnly InOrder NoLateQueue
VIEW View
CHECK_DEADLOCK FALSE
