------------------------------ MODULE L4Listener ------------------------------
(***************************************************************************)
(* The listener wrapper: layer4/listener.go (loop / handle / pipeConnection *)
(* / Accept / Close) together with the pooled matching buffers of          *)
(* layer4/connection.go (bufPool).                                         *)
(*                                                                         *)
(* Processes                                                               *)
(*   Loop      accepts from the inner listener, spawns Handle(c); when the *)
(*             inner listener fails it spawns the waiter (wg.Wait; close   *)
(*             connChan), closes `done' and drains connChan (134-159)      *)
(*   Handle(c) gets a pooled buffer, routes the connection; the outcome is *)
(*             the connection's kind:                                      *)
(*               "term" consumed by a terminal handler -> closed           *)
(*               "rej"  matching failed               -> closed            *)
(*               "fall" no route matched -> pipeConnection: blocking send  *)
(*                      into connChan, `hijacked'     -> NOT closed        *)
(*             then (deferred) puts the buffer back and wg.Done (164-193)  *)
(*   Consumer  the wrapped listener's user: Accept (195-205), then reads   *)
(*             the connection (buffered bytes first) and closes it         *)
(*   Closer    Close: closed flag, close the inner listener (128-131)      *)
(*                                                                         *)
(* PutOnHijack = TRUE is the pinned commit: `defer bufPool.Put(buf)' also  *)
(* runs for hijacked connections, whose Connection still refers to that    *)
(* buffer; FALSE is the repaired code.                                     *)
(***************************************************************************)
EXTENDS Integers, Sequences, FiniteSets, TLC

CONSTANTS Conns,        \* connection ids (arrive in any order)
          Kind,         \* Conns -> {"term", "rej", "fall"}
          Cap,          \* capacity of connChan (GOMAXPROCS in the code)
          Bufs,         \* pooled buffers (sync.Pool may also allocate: NewBuf below)
          PutOnHijack

VARIABLES pending,    \* connections the inner listener has not handed out yet
          innerClosed, loop, waiter, done, chanClosed, connChan, wg,
          h,          \* c -> "none" | "running" | "piping" | "put" | "done"
          closedC,    \* c -> the connection was closed
          delivered,  \* sequence of connections returned by Accept
          consumed,   \* set of delivered connections the consumer has read and closed
          acceptErr,  \* Accept has returned net.ErrClosed
          owner,      \* buffer -> "pool" | connection that obtained it
          bufOf,      \* c -> buffer its Connection refers to ("nobuf" before Get)
          clobbered   \* set of connections whose buffer was handed to someone else while they still referred to it
vars == <<pending, innerClosed, loop, waiter, done, chanClosed, connChan, wg, h, closedC,
          delivered, consumed, acceptErr, owner, bufOf, clobbered>>

Init == /\ pending = Conns /\ innerClosed = FALSE /\ loop = "accepting" /\ waiter = "none"
        /\ done = FALSE /\ chanClosed = FALSE /\ connChan = <<>> /\ wg = 0
        /\ h = [c \in Conns |-> "none"] /\ closedC = [c \in Conns |-> FALSE]
        /\ delivered = <<>> /\ consumed = {} /\ acceptErr = FALSE
        /\ owner = [b \in Bufs |-> "pool"] /\ bufOf = [c \in Conns |-> "nobuf"]
        /\ clobbered = {}

InChan(c) == \E i \in 1..Len(connChan) : connChan[i] = c
WasDelivered(c) == \E i \in 1..Len(delivered) : delivered[i] = c
\* connections that still refer to buffer b and may still read from it
Referring(b) == { c \in Conns : bufOf[c] = b /\ ~closedC[c] /\ c \notin consumed
                               /\ (h[c] \in {"running", "piping"} \/ InChan(c) \/ WasDelivered(c)) }

\* Loop: conn := Accept(); wg.Add(1); go handle(conn)       (136-148)
\* handle: buf := bufPool.Get()                              (173-175)
LoopAccept(c) ==
  /\ loop = "accepting" /\ c \in pending /\ ~innerClosed
  /\ pending' = pending \ {c} /\ wg' = wg + 1
  /\ \E b \in Bufs :
       /\ owner[b] = "pool"
       /\ owner' = [owner EXCEPT ![b] = c]
       /\ bufOf' = [bufOf EXCEPT ![c] = b]
       /\ clobbered' = clobbered \cup (Referring(b) \ {c})
  /\ h' = [h EXCEPT ![c] = "running"]
  /\ UNCHANGED <<innerClosed, loop, waiter, done, chanClosed, connChan, closedC, delivered, consumed, acceptErr>>

\* Loop: Accept failed: go waiter; close(done)                (150-155)
LoopExit ==
  /\ loop = "accepting" /\ innerClosed
  /\ loop' = "draining" /\ waiter' = "waiting" /\ done' = TRUE
  /\ UNCHANGED <<pending, innerClosed, chanClosed, connChan, wg, h, closedC, delivered, consumed, acceptErr, owner, bufOf, clobbered>>

\* waiter: wg.Wait(); close(connChan)                         (151-154)
Waiter ==
  /\ waiter = "waiting" /\ wg = 0
  /\ waiter' = "finished" /\ chanClosed' = TRUE
  /\ UNCHANGED <<pending, innerClosed, loop, done, connChan, wg, h, closedC, delivered, consumed, acceptErr, owner, bufOf, clobbered>>

\* Loop: for conn := range connChan { conn.Close() }          (156-158)
LoopDrain ==
  /\ loop = "draining"
  /\ IF connChan # <<>>
     THEN /\ closedC' = [closedC EXCEPT ![Head(connChan)] = TRUE]
          /\ connChan' = Tail(connChan) /\ UNCHANGED loop
     ELSE /\ chanClosed /\ loop' = "exited" /\ UNCHANGED <<closedC, connChan>>
  /\ UNCHANGED <<pending, innerClosed, waiter, done, chanClosed, wg, h, delivered, consumed, acceptErr, owner, bufOf, clobbered>>

\* handle: the compiled route ran: terminal / rejected -> return; fall-through -> pipeConnection
Route(c) ==
  /\ h[c] = "running"
  /\ IF Kind[c] = "fall"
     THEN h' = [h EXCEPT ![c] = "piping"]
     ELSE h' = [h EXCEPT ![c] = "put"]
  /\ UNCHANGED <<pending, innerClosed, loop, waiter, done, chanClosed, connChan, wg, closedC, delivered, consumed, acceptErr, owner, bufOf, clobbered>>

\* pipeConnection: l.connChan <- conn (blocking)              (207-223)
Pipe(c) ==
  /\ h[c] = "piping" /\ Len(connChan) < Cap /\ ~chanClosed
  /\ connChan' = Append(connChan, c)
  /\ h' = [h EXCEPT ![c] = "put"]
  /\ UNCHANGED <<pending, innerClosed, loop, waiter, done, chanClosed, wg, closedC, delivered, consumed, acceptErr, owner, bufOf, clobbered>>

\* handle's deferred functions: bufPool.Put(buf); wg.Done(); close unless hijacked   (166-175)
HandleRet(c) ==
  /\ h[c] = "put"
  /\ LET hijacked == Kind[c] = "fall" IN
     /\ owner' = IF hijacked /\ ~PutOnHijack THEN owner ELSE [owner EXCEPT ![bufOf[c]] = "pool"]
     /\ closedC' = IF hijacked THEN closedC ELSE [closedC EXCEPT ![c] = TRUE]
  /\ wg' = wg - 1
  /\ h' = [h EXCEPT ![c] = "done"]
  /\ UNCHANGED <<pending, innerClosed, loop, waiter, done, chanClosed, connChan, delivered, consumed, acceptErr, bufOf, clobbered>>

\* Consumer: Accept()                                         (195-205)
AcceptConn ==
  /\ connChan # <<>> /\ ~acceptErr
  /\ delivered' = Append(delivered, Head(connChan))
  /\ connChan' = Tail(connChan)
  /\ UNCHANGED <<pending, innerClosed, loop, waiter, done, chanClosed, wg, h, closedC, consumed, acceptErr, owner, bufOf, clobbered>>
AcceptClosed ==
  /\ ~acceptErr /\ (done \/ (chanClosed /\ connChan = <<>>))
  /\ acceptErr' = TRUE
  /\ UNCHANGED <<pending, innerClosed, loop, waiter, done, chanClosed, connChan, wg, h, closedC, delivered, consumed, owner, bufOf, clobbered>>
\* Consumer reads a delivered connection to its end and closes it; the buffer goes back to
\* nobody (a hijacked connection's buffer is simply dropped in the repaired code)
Consume(c) ==
  /\ WasDelivered(c) /\ c \notin consumed
  /\ consumed' = consumed \cup {c}
  /\ closedC' = [closedC EXCEPT ![c] = TRUE]
  /\ UNCHANGED <<pending, innerClosed, loop, waiter, done, chanClosed, connChan, wg, h, delivered, acceptErr, owner, bufOf, clobbered>>

\* Closer: Close()                                            (128-131)
Close ==
  /\ ~innerClosed /\ innerClosed' = TRUE
  /\ UNCHANGED <<pending, loop, waiter, done, chanClosed, connChan, wg, h, closedC, delivered, consumed, acceptErr, owner, bufOf, clobbered>>

Next == \/ \E c \in Conns : LoopAccept(c) \/ Route(c) \/ Pipe(c) \/ HandleRet(c) \/ Consume(c)
        \/ LoopExit \/ Waiter \/ LoopDrain \/ AcceptConn \/ AcceptClosed \/ Close
\* fairness for everything but the environment's choices (arrival of Close, consumer activity)
Spec == Init /\ [][Next]_vars
FairSpec == Spec /\ WF_vars(LoopExit) /\ WF_vars(Waiter) /\ WF_vars(LoopDrain)
                 /\ \A c \in Conns : WF_vars(Route(c)) /\ WF_vars(Pipe(c)) /\ WF_vars(HandleRet(c))

\* ---- properties (C13, C08) ----
\* a connection is handed to Accept at most once
AtMostOnce == \A i, j \in 1..Len(delivered) : delivered[i] = delivered[j] => i = j
\* only fall-through connections are delivered; a delivered connection was not closed by layer4
OnlyFallThrough == \A i \in 1..Len(delivered) : Kind[delivered[i]] = "fall"
NotClosedBeforeDelivery == \A c \in Conns : (InChan(c) \/ (WasDelivered(c) /\ c \notin consumed)) => ~closedC[c]
\* consumed or rejected connections are closed once their handle has returned
ClosedWhenDone == \A c \in Conns : (h[c] = "done" /\ Kind[c] # "fall") => closedC[c]
\* pooled buffers are never handed out while a live connection still refers to them
NoReuseWhileReferenced == clobbered = {}
\* after Close: every handle returns, pending fall-through connections are delivered or
\* closed (never both, never lost), the loop exits, Accept reports closure
Quiesced == /\ loop = "exited" /\ wg = 0
            /\ \A c \in Conns : h[c] \in {"none", "done"}
            /\ \A c \in Conns : (h[c] = "done" /\ Kind[c] = "fall") => (WasDelivered(c) \/ closedC[c])
            /\ \A c \in Conns : (h[c] = "done" /\ Kind[c] = "fall" /\ ~WasDelivered(c)) => closedC[c]
Drain == innerClosed ~> Quiesced
NeverBoth == \A c \in Conns : (WasDelivered(c) /\ c \notin consumed) => ~closedC[c]
=============================================================================
