SPECIFICATION FairSpec
CONSTANTS Conns <- MCConns  Bufs <- MCBufs  Kind <- KindB  Cap = 1  PutOnHijack = FALSE
INVARIANTS AtMostOnce OnlyFallThrough NotClosedBeforeDelivery ClosedWhenDone NeverBoth NoReuseWhileReferenced
PROPERTY Drain
CHECK_DEADLOCK FALSE
