------------------------------- MODULE L4Timed -------------------------------
(***************************************************************************)
(* Timed view of the matching phase (C05): layer4/routes.go arms ONE       *)
(* deadline start+T per route list, every prefetch waits for data until    *)
(* that deadline, a match clears it.  Time is integer ticks.               *)
(*                                                                         *)
(* Transport "tcp": the socket's own deadline, exact.                      *)
(* Transport "udp": layer4/server.go packetConn keeps the deadline in an   *)
(*   atomic integer.  Store = "seconds" models the pinned commit, which    *)
(*   stored t.Unix() (whole seconds, Gran ticks each) and compared it with *)
(*   the clock BEFORE waiting; Store = "exact" models the repaired code.   *)
(*                                                                         *)
(* TimedAbs below are the clauses evaluated on timed traces recorded from  *)
(* the real code (L4TimedTrace.tla).                                       *)
(***************************************************************************)
EXTENDS Integers, Sequences, TLC

CONSTANTS T,        \* matching timeout in ticks
          Gran,     \* ticks per wall-clock second
          MaxNow,   \* horizon
          Store,    \* "exact" | "seconds"
          MaxData   \* client sends at most this many bytes, one per step, never enough to decide

VARIABLES now, start, stored, st, sent, endAt
vars == <<now, start, stored, st, sent, endAt>>

Trunc(t) == IF Store = "seconds" THEN (t \div Gran) * Gran ELSE t
\* isDeadlineExceeded: the stored instant lies before the clock
Exceeded == stored < now \/ (Store = "exact" /\ stored <= now)

Init == /\ start \in 0..(Gran - 1)          \* wall-clock phase at which the connection starts
        /\ now = start /\ stored = -1 /\ st = "init" /\ sent = 0 /\ endAt = -1

Begin == /\ st = "init"
         /\ stored' = Trunc(start + T)        \* SetReadDeadline(deadline)
         /\ st' = "reading"
         /\ UNCHANGED <<now, start, sent, endAt>>

\* a prefetch round: data is there -> still undecided, read again
Data == /\ st = "reading" /\ sent < MaxData /\ ~Exceeded
        /\ sent' = sent + 1
        /\ UNCHANGED <<now, start, stored, st, endAt>>

\* the read gives up as soon as the stored deadline is exceeded (urgent: time cannot pass it)
Timeout == /\ st = "reading" /\ Exceeded
           /\ st' = "aborted" /\ endAt' = now
           /\ UNCHANGED <<now, start, stored, sent>>

Tick == /\ st = "reading" /\ ~Exceeded /\ now < MaxNow
        /\ now' = now + 1
        /\ UNCHANGED <<start, stored, st, sent, endAt>>

Next == Begin \/ Data \/ Timeout \/ Tick
Spec == Init /\ [][Next]_vars /\ WF_vars(Next)

NotEarly == st = "aborted" => endAt >= start + T
NotLate  == st = "reading" => now <= start + T
Ends     == <>(st = "aborted")

=============================================================================
