----------------------------- MODULE L4ConfigTrace -----------------------------
(* Judges what the real Caddyfile adapter / loader did with each configuration term (C15). *)
EXTENDS Integers, Sequences, TLC, Json, TLCExt
Traces == ndJsonDeserialize("cfg_traces.ndjson")
Violations(t) ==
  (IF t.adaptOK THEN {} ELSE {"F1 a Caddyfile written according to the documented syntax did not adapt"})
  \cup (IF ~t.adaptOK \/ t.jsonEqual THEN {} ELSE {"F2 the adapted JSON does not state the same servers, routes, matcher sets, handlers and options"})
  \cup (IF ~t.adaptOK \/ t.deterministic THEN {} ELSE {"F3 adapting twice gave different JSON"})
  \cup (IF ~t.adaptOK \/ t.loadOK THEN {} ELSE {"F4 the adapted JSON does not load and provision"})
  \cup (IF ~t.adaptOK \/ t.roundTrip THEN {} ELSE {"F5 loading and re-serialising the JSON does not reproduce it"})
Judge(t) == LET v == Violations(t) IN
            IF v = {} THEN TRUE ELSE PrintT(<<"VBAD", ToJson([id |-> t.id, clauses |-> v])>>)
VARIABLE k
TInit == k = 0
TNext == k < Len(Traces) /\ Judge(Traces[k + 1]) /\ k' = k + 1
Done == (k = Len(Traces)) => PrintT(<<"VDONE", k>>)
=============================================================================
