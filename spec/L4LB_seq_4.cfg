INIT SInit
NEXT SNext
CONSTANTS N = 4 MaxSteps = 4
INVARIANTS RRInv EmitSeq
CHECK_DEADLOCK FALSE
