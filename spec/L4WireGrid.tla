------------------------------ MODULE L4WireGrid ------------------------------
(* Enumerates the vectors of one protocol (one TLC state per vector). *)
EXTENDS L4Wire, Json
CONSTANT Proto
VARIABLE g
Init == g \in Vectors(Proto)
Next == UNCHANGED g
Emit == PrintT(<<"VOUT", ToJson(g)>>)
=============================================================================
