------------------------------ MODULE L4TLSGrid ------------------------------
EXTENDS L4TLS, Json
CONSTANT Tier
Quick(c) == c.curves # "p256-p384" /\ (c.suites = "default" \/ c.vers = "12") /\ (c.resume => c.vers \in {"13", "12"})
VARIABLES c, cfg
Valid(x) == (x.order = "reversed" => (Tier # "quick" \/ (x.curves = "default" /\ x.suites = "default" /\ x.sv = "sent"))) /\ x.sv = "absent" => (x.vers \in {"12", "10-12"} /\ (Tier # "quick" \/ (x.curves = "default" /\ x.suites = "default")))
BigOK(x) == x.big => (x.order = "native" /\ x.sv = "sent" /\ ~x.resume /\ x.curves = "default" /\ x.suites = "default")
Init == c \in { x \in Clients : BigOK(x) /\ Valid(x) /\ (Tier # "quick" \/ Quick(x)) } /\ cfg \in MatcherCfgs
Next == UNCHANGED <<c, cfg>>
Emit == PrintT(<<"VOUT", ToJson([c |-> c, cfg |-> cfg])>>)
=============================================================================
