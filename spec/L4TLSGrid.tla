------------------------------ MODULE L4TLSGrid ------------------------------
EXTENDS L4TLS, Json
CONSTANT Tier
Quick(c) == c.curves # "p256-p384" /\ (c.suites = "default" \/ c.vers = "12") /\ (c.resume => c.vers \in {"13", "12"})
VARIABLES c, cfg
Init == c \in { x \in Clients : Tier # "quick" \/ Quick(x) } /\ cfg \in MatcherCfgs
Next == UNCHANGED <<c, cfg>>
Emit == PrintT(<<"VOUT", ToJson([c |-> c, cfg |-> cfg])>>)
=============================================================================
