-------------------------------- MODULE L4App --------------------------------
(***************************************************************************)
(* Lifecycle of the layer4 app (layer4/app.go Start / Stop) inside Caddy's *)
(* orchestration - beyond the listed properties; it extends the            *)
(* specification toward the rest of the system.                            *)
(*                                                                         *)
(* Start walks over the listen addresses of all servers in order; for each *)
(* it binds the socket, remembers it (a.listeners / a.packetConns) and     *)
(* starts its serve loop; on the first error it RETURNS the error.  Stop   *)
(* closes every remembered socket.  Caddy calls Stop only on apps whose    *)
(* Start succeeded: an app whose Start failed is dropped as it is          *)
(* (caddy.run: "an app failed to start, so we need to stop all other apps  *)
(* that were already started").  Connections accepted earlier keep being   *)
(* served by their handler goroutines; Stop does not wait for them.        *)
(*                                                                         *)
(* N addresses; FailAt = the address whose bind fails (0 = none);          *)
(* CleanupOnFailedStart = FALSE is the code as it is, TRUE a Start that    *)
(* closes what it has opened before returning the error.                   *)
(***************************************************************************)
EXTENDS Integers, FiniteSets, TLC

CONSTANTS N, FailAt, MaxConns, CleanupOnFailedStart
ASSUME N \in Nat /\ FailAt \in 0..N /\ MaxConns \in Nat /\ CleanupOnFailedStart \in BOOLEAN

VARIABLES phase,     \* "new" | "starting" | "running" | "startfailed" | "stopping" | "stopped"
          i,         \* next address Start will bind
          bound,     \* sockets open at OS level
          tracked,   \* sockets remembered by the app (what Stop will close)
          loops,     \* serve / servePacket goroutines running
          handlers,  \* connections whose handler goroutine is running: [id |-> listener]
          nconn      \* connections accepted so far
vars == <<phase, i, bound, tracked, loops, handlers, nconn>>

Init == /\ phase = "new" /\ i = 1 /\ bound = {} /\ tracked = {} /\ loops = {} /\ handlers = {} /\ nconn = 0

CaddyStart == /\ phase = "new" /\ phase' = "starting"
              /\ UNCHANGED <<i, bound, tracked, loops, handlers, nconn>>

\* one iteration of the loops in Start
StartStep ==
  /\ phase = "starting" /\ i <= N
  /\ IF i = FailAt
     THEN /\ phase' = "startfailed"
          /\ IF CleanupOnFailedStart
             THEN bound' = bound \ tracked /\ tracked' = {}
             ELSE UNCHANGED <<bound, tracked>>
          /\ UNCHANGED <<i, loops>>
     ELSE /\ bound' = bound \cup {i} /\ tracked' = tracked \cup {i} /\ loops' = loops \cup {i}
          /\ i' = i + 1 /\ UNCHANGED phase
  /\ UNCHANGED <<handlers, nconn>>
StartDone == /\ phase = "starting" /\ i > N /\ phase' = "running"
             /\ UNCHANGED <<i, bound, tracked, loops, handlers, nconn>>

\* a serve loop accepts a connection (or receives a first datagram) and starts its handler goroutine;
\* this can happen as soon as the loop runs - also while Start is still binding later addresses
Accept(l) == /\ l \in loops /\ l \in bound /\ nconn < MaxConns
             /\ nconn' = nconn + 1
             /\ handlers' = handlers \cup {<<nconn + 1, l>>}
             /\ UNCHANGED <<phase, i, bound, tracked, loops>>
HandlerDone(h) == /\ h \in handlers /\ handlers' = handlers \ {h}
                  /\ UNCHANGED <<phase, i, bound, tracked, loops, nconn>>
\* Accept / ReadFrom on a closed socket returns an error: the loop goroutine ends
LoopExit(l) == /\ l \in loops /\ l \notin bound /\ loops' = loops \ {l}
               /\ UNCHANGED <<phase, i, bound, tracked, handlers, nconn>>

\* Caddy stops a running app (config reload or exit): every remembered socket is closed
CaddyStop == /\ phase = "running" /\ phase' = "stopped"
             /\ bound' = bound \ tracked
             /\ UNCHANGED <<i, tracked, loops, handlers, nconn>>

Next == \/ CaddyStart \/ StartStep \/ StartDone \/ CaddyStop
        \/ \E l \in 1..N : Accept(l) \/ LoopExit(l)
        \/ \E h \in handlers : HandlerDone(h)
Spec == Init /\ [][Next]_vars /\ WF_vars(StartStep) /\ WF_vars(StartDone)
        /\ \A l \in 1..N : WF_vars(LoopExit(l))

TypeOK == /\ phase \in {"new", "starting", "running", "startfailed", "stopping", "stopped"}
          /\ bound \subseteq 1..N /\ tracked \subseteq 1..N /\ loops \subseteq 1..N

\* what Stop forgets nothing of: every open socket is remembered
AllTracked == bound \subseteq tracked
\* after Stop nothing stays bound
StopClosesAll == phase = "stopped" => bound = {}
\* a failed Start leaves no socket bound (this is the clause the code as it is does NOT satisfy)
FailedStartLeavesNothing == phase = "startfailed" => bound = {}
\* after Stop (or a cleaned-up failed Start) every serve loop eventually ends
LoopsEnd == [](phase = "stopped" => <>(loops = {}))
\* connections may be accepted while Start is still in progress; no new connection after Stop
NoAcceptAfterStop == [][phase = "stopped" => nconn' = nconn]_vars
=============================================================================
