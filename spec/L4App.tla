-------------------------------- MODULE L4App --------------------------------
(***************************************************************************)
(* Lifecycle of the layer4 app (layer4/app.go Start / Stop) inside Caddy's *)
(* orchestration - beyond the listed properties; it extends the            *)
(* specification toward the rest of the system.                            *)
(*                                                                         *)
(* Start walks over the listen addresses of all servers in order; for each *)
(* it binds the socket, remembers it (a.listeners / a.packetConns) and     *)
(* starts its serve loop; on the first error it RETURNS the error.  Stop   *)
(* closes every remembered socket.  Caddy calls Stop only on apps whose    *)
(* Start succeeded: an app whose Start failed is dropped as it is          *)
(* (caddy.run: "an app failed to start, so we need to stop all other apps  *)
(* that were already started").  Connections accepted earlier keep being   *)
(* served by their handler goroutines; Stop does not wait for them.        *)
(*                                                                         *)
(* N addresses; FailAt = the address whose bind fails (0 = none);          *)
(* CleanupOnFailedStart = FALSE is the code as it is, TRUE a Start that    *)
(* closes what it has opened before returning the error.                   *)
(*                                                                         *)
(* Accept / ReadFrom may also FAIL while the socket stays open             *)
(* (Server.serve / servePacket): a timeout is logged and the loop goes on; *)
(* every other error - the socket was closed, but also a transient one     *)
(* such as EMFILE or ECONNABORTED - ends the loop, and App.Start discards   *)
(* the loop's return value (`_ = s.serve(ln)`).  MaxErrs bounds the number *)
(* of such failures; RetryTransient = FALSE is the code as it is, TRUE a   *)
(* loop that goes on after a transient error the way net/http's does.      *)
(***************************************************************************)
EXTENDS Integers, FiniteSets, TLC

CONSTANTS N, FailAt, MaxConns, CleanupOnFailedStart, MaxErrs, RetryTransient
ASSUME N \in Nat /\ FailAt \in 0..N /\ MaxConns \in Nat /\ CleanupOnFailedStart \in BOOLEAN
       /\ MaxErrs \in Nat /\ RetryTransient \in BOOLEAN

VARIABLES phase,     \* "new" | "starting" | "running" | "startfailed" | "stopping" | "stopped"
          i,         \* next address Start will bind
          bound,     \* sockets open at OS level
          tracked,   \* sockets remembered by the app (what Stop will close)
          loops,     \* serve / servePacket goroutines running
          handlers,  \* connections whose handler goroutine is running: [id |-> listener]
          nconn,     \* connections accepted so far
          nerr       \* failed Accept / ReadFrom calls on open sockets so far
vars == <<phase, i, bound, tracked, loops, handlers, nconn, nerr>>

Init == /\ phase = "new" /\ i = 1 /\ bound = {} /\ tracked = {} /\ loops = {} /\ handlers = {} /\ nconn = 0 /\ nerr = 0

CaddyStart == /\ phase = "new" /\ phase' = "starting"
              /\ UNCHANGED <<i, bound, tracked, loops, handlers, nconn, nerr>>

\* one iteration of the loops in Start
StartStep ==
  /\ phase = "starting" /\ i <= N
  /\ IF i = FailAt
     THEN /\ phase' = "startfailed"
          /\ IF CleanupOnFailedStart
             THEN bound' = bound \ tracked /\ tracked' = {}
             ELSE UNCHANGED <<bound, tracked>>
          /\ UNCHANGED <<i, loops>>
     ELSE /\ bound' = bound \cup {i} /\ tracked' = tracked \cup {i} /\ loops' = loops \cup {i}
          /\ i' = i + 1 /\ UNCHANGED phase
  /\ UNCHANGED <<handlers, nconn, nerr>>
StartDone == /\ phase = "starting" /\ i > N /\ phase' = "running"
             /\ UNCHANGED <<i, bound, tracked, loops, handlers, nconn, nerr>>

\* a serve loop accepts a connection (or receives a first datagram) and starts its handler goroutine;
\* this can happen as soon as the loop runs - also while Start is still binding later addresses
Accept(l) == /\ l \in loops /\ l \in bound /\ nconn < MaxConns
             /\ nconn' = nconn + 1
             /\ handlers' = handlers \cup {<<nconn + 1, l>>}
             /\ UNCHANGED <<phase, i, bound, tracked, loops, nerr>>
HandlerDone(h) == /\ h \in handlers /\ handlers' = handlers \ {h}
                  /\ UNCHANGED <<phase, i, bound, tracked, loops, nconn, nerr>>
\* Accept / ReadFrom on a closed socket returns an error: the loop goroutine ends
LoopExit(l) == /\ l \in loops /\ l \notin bound /\ loops' = loops \ {l}
               /\ UNCHANGED <<phase, i, bound, tracked, handlers, nconn, nerr>>
\* Accept / ReadFrom fails although the socket is open
AcceptFails(l, kind) ==
  /\ l \in loops /\ l \in bound /\ nerr < MaxErrs
  /\ nerr' = nerr + 1
  /\ loops' = IF kind = "timeout" \/ RetryTransient THEN loops ELSE loops \ {l}
  /\ UNCHANGED <<phase, i, bound, tracked, handlers, nconn>>

\* Caddy stops a running app (config reload or exit): every remembered socket is closed
CaddyStop == /\ phase = "running" /\ phase' = "stopped"
             /\ bound' = bound \ tracked
             /\ UNCHANGED <<i, tracked, loops, handlers, nconn, nerr>>

Next == \/ CaddyStart \/ StartStep \/ StartDone \/ CaddyStop
        \/ \E l \in 1..N : Accept(l) \/ LoopExit(l) \/ \E kind \in {"timeout", "transient"} : AcceptFails(l, kind)
        \/ \E h \in handlers : HandlerDone(h)
Spec == Init /\ [][Next]_vars /\ WF_vars(StartStep) /\ WF_vars(StartDone)
        /\ \A l \in 1..N : WF_vars(LoopExit(l))

TypeOK == /\ phase \in {"new", "starting", "running", "startfailed", "stopping", "stopped"}
          /\ bound \subseteq 1..N /\ tracked \subseteq 1..N /\ loops \subseteq 1..N

\* what Stop forgets nothing of: every open socket is remembered
AllTracked == bound \subseteq tracked
\* an open socket the app remembers is being served (violated by the code as it is once MaxErrs > 0:
\* a transient accept error ends the loop while the socket stays bound - clients connect and hang)
ServedWhileBound == phase = "running" => \A l \in bound \cap tracked : l \in loops
\* after Stop nothing stays bound
StopClosesAll == phase = "stopped" => bound = {}
\* a failed Start leaves no socket bound (this is the clause the code as it is does NOT satisfy)
FailedStartLeavesNothing == phase = "startfailed" => bound = {}
\* after Stop (or a cleaned-up failed Start) every serve loop eventually ends
LoopsEnd == [](phase = "stopped" => <>(loops = {}))
\* connections may be accepted while Start is still in progress; no new connection after Stop
NoAcceptAfterStop == [][phase = "stopped" => nconn' = nconn]_vars
=============================================================================
