SPECIFICATION Spec
CONSTANTS Chunks = 3 ClosePipeOnReturn = FALSE BranchEndDrains = FALSE
INVARIANTS TypeOK Lockstep BranchSeesAll
PROPERTIES BranchEnds
CHECK_DEADLOCK FALSE
