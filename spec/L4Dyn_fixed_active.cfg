SPECIFICATION Spec
CONSTANTS Hosts = {"a", "b", "c"} MaxFails = 2 MaxEvents = 6 Key = "resolved" Active = TRUE
INVARIANTS TypeOK CountExact NeverWronglyRefused
CHECK_DEADLOCK FALSE
