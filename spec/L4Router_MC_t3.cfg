\* three routes, reduced palette
SPECIFICATION Spec
CONSTANTS
  Chunk = 2
  Limit = 8
  StreamLens <- SL3
  PullSizes <- PS12
  PullFixed = FALSE
  MaxRoutes = 3
  MaxSubRoutes = 0
  Shapes <- ShapesTiny
  SubShapes <- SubShapesSmall
  WrapMode = "handover"
INVARIANTS TypeOK PropsHold Emit
CHECK_DEADLOCK FALSE
