\* three routes, reduced palette
SPECIFICATION Spec
CONSTANTS
  Chunk = 2
  Limit = 8
  MaxStream = 3
  MaxRoutes = 3
  MaxSubRoutes = 0
  Shapes <- ShapesTiny
  SubShapes <- SubShapesSmall
  WrapMode = "handover"
INVARIANTS TypeOK PropsHold Emit
CHECK_DEADLOCK FALSE
