INIT Init
NEXT Next
CONSTANT Tier = "thorough"
INVARIANT Emit
CHECK_DEADLOCK FALSE
