-------------------------------- MODULE L4Wire --------------------------------
(***************************************************************************)
(* Wire definitions of the protocol matchers as REFERENCE PREDICATES (C14) *)
(* and the rules a matcher's verdicts must obey as the prefix grows (C06), *)
(* plus the robustness contract (C04).                                     *)
(*                                                                         *)
(* A vector is [proto, net, cfg, msg, trail]: `msg' is an ABSTRACT first   *)
(* message - its fields range over boundary domains, including values that *)
(* violate the definition - `cfg' the matcher's filter configuration (the  *)
(* JSON the real matcher is provisioned with), `trail' the number of bytes *)
(* that follow the first message.  The harness's own encoders turn msg     *)
(* into bytes; Ref(v) below says whether the complete first message must   *)
(* match ("Y") or must not ("N").                                          *)
(***************************************************************************)
EXTENDS Integers, Sequences, FiniteSets, TLC
CONSTANT Tier      \* "quick" trims the largest grids (dns, socks4)

Range(s) == { s[i] : i \in DOMAIN s }

(***************************************************************************)
(* SSH (RFC 4253 4.2): the identification string begins with "SSH-".       *)
(***************************************************************************)
SSHMsgs == [magic : {"SSH-", "SSH_", "ssh-", "XSSH", "SSH "}, version : {"2.0", "1.99"}]
SSHRef(m, cfg) == IF m.magic = "SSH-" THEN "Y" ELSE "N"

(***************************************************************************)
(* XMPP (RFC 6120): the stream header names the jabber namespace; the      *)
(* matcher documents: the word "jabber" within the first 50 bytes.         *)
(***************************************************************************)
XMPPMsgs == [at : {-1, 0, 20, 44, 45, 60}, total : {50, 51, 120}]
XMPPRef(m, cfg) == IF m.at >= 0 /\ m.at + 6 <= 50 THEN "Y" ELSE "N"

(***************************************************************************)
(* PostgreSQL protocol 3.0: Int32 length (including itself), Int32 code;   *)
(* SSLRequest = length 8, code 80877103; StartupMessage = major version 3, *)
(* name/value pairs each NUL-terminated, final NUL; at least one parameter *)
(* (user) is mandatory; the packet is at most 10000 bytes.                 *)
(***************************************************************************)
PGMsgs == [kind : {"ssl", "startup"},
           len  : {"exact", "zero", "three", "seven", "huge", "max"},   \* declared length vs. actual
           major : {3, 2, 0}, params : {0, 1, 2}, term : {"ok", "nofinal", "nonul"},
           \* size: "small" = as short as the fields allow; "max" / "over": the first value padded so that the whole packet has
           \* exactly 10000 / 10001 bytes (MAX_STARTUP_PACKET_LENGTH is 10000) - more than MaxMatchingBytes, yet within what
           \* the matching buffer can hold after a last chunk read at 8191 bytes
           \* "big": 7000 bytes - a legal packet above three prefetch chunks and below the matching limit
           size : {"small", "big", "max", "over"}]
PGValid(m) == /\ m.kind = "ssl" => (m.major = 3 /\ m.params = 0 /\ m.term = "ok" /\ m.len \in {"exact", "zero", "three", "seven", "huge"} /\ m.size = "small")
              /\ m.kind = "startup" => (m.size # "small" => (m.len = "exact" /\ m.major = 3 /\ m.params = 1 /\ m.term = "ok"))
\* ("nofinal" / "nonul": the final terminator / the last value's terminator is missing; the matcher documents "looks like the Postgres
\* protocol", so whether such a packet matches is left open: "X")
PGRef(m, cfg) ==
  IF m.len # "exact" \/ m.size = "over" THEN "N"  \* a length below 8 or beyond the packet limit is no startup packet
  ELSE IF m.kind = "ssl" THEN "Y"
  ELSE IF m.major # 3 THEN "N"
  ELSE IF m.params = 0 THEN "N"
  ELSE IF m.term # "ok" THEN "X"
  ELSE "Y"

(***************************************************************************)
(* SOCKS4 / 4a: VN=4, CD (1 CONNECT, 2 BIND), DSTPORT, DSTIP, USERID NUL.  *)
(* Filters: commands (default CONNECT+BIND), ports, networks.              *)
(***************************************************************************)
S4Msgs == [vn : {4, 5, 0}, cd : {1, 2, 3, 0}, port : {80, 443, 65535, 0}, ip : {"10.0.0.1", "10.0.0.255", "10.0.1.0", "0.0.0.1", "255.255.255.255"}]
S4Cfgs == [commands : {<<>>, <<"CONNECT">>, <<"BIND">>, <<"connect", "BIND">>}, ports : {<<>>, <<80>>, <<443, 65535>>},
           networks : {<<>>, <<"10.0.0.0/24">>, <<"10.0.0.1">>, <<"0.0.0.0/8", "255.255.255.255/32">>}]
S4CmdOK(m, cfg) == IF cfg.commands = <<>> THEN m.cd \in {1, 2}
                   ELSE \/ (m.cd = 1 /\ \E c \in Range(cfg.commands) : c \in {"CONNECT", "connect"})
                        \/ (m.cd = 2 /\ \E c \in Range(cfg.commands) : c \in {"BIND", "bind"})
InNet4(ip, net) == CASE net = "10.0.0.0/24" -> ip \in {"10.0.0.1", "10.0.0.255"}
                     [] net = "10.0.0.1" -> ip = "10.0.0.1"
                     [] net = "0.0.0.0/8" -> ip = "0.0.0.1"
                     [] net = "255.255.255.255/32" -> ip = "255.255.255.255"
                     [] OTHER -> FALSE
S4Ref(m, cfg) == IF /\ m.vn = 4 /\ S4CmdOK(m, cfg)
                    /\ (cfg.ports = <<>> \/ m.port \in Range(cfg.ports))
                    /\ (cfg.networks = <<>> \/ \E n \in Range(cfg.networks) : InNet4(m.ip, n))
                 THEN "Y" ELSE "N"

(***************************************************************************)
(* SOCKS5 (RFC 1928): VER=5, NMETHODS, METHODS.  Filter: auth_methods      *)
(* (default 0, 1, 2): every offered method must be among them.             *)
(***************************************************************************)
S5Msgs == [ver : {5, 4}, methods : {<<>>, <<0>>, <<2>>, <<0, 2>>, <<2, 2>>, <<1, 3>>, <<128>>, <<0, 1, 2>>, <<2, 2, 2>>}, declared : {"exact", "more", "less"}]
S5Cfgs == [auth_methods : {<<>>, <<0>>, <<2>>, <<0, 2>>, <<128>>}]
S5Allowed(cfg) == IF cfg.auth_methods = <<>> THEN {0, 1, 2} ELSE Range(cfg.auth_methods)
\* "more": NMETHODS announces one more method than follow (the message is incomplete);
\* "less": NMETHODS announces one fewer (the last byte is trailing data)
S5Seen(m) == IF m.declared = "less" /\ m.methods # <<>> THEN SubSeq(m.methods, 1, Len(m.methods) - 1) ELSE m.methods
S5Ref(m, cfg) == IF m.ver # 5 THEN "N"
                 ELSE IF m.declared = "more" THEN "M"
                 ELSE IF Range(S5Seen(m)) \subseteq S5Allowed(cfg) THEN "Y" ELSE "N"

(***************************************************************************)
(* PROXY protocol matcher: v1 begins with "PROXY ", v2 with the 12-byte    *)
(* signature.                                                              *)
(***************************************************************************)
PPMsgs == [kind : {"v1", "v2", "v1lower", "v1nospace", "v2badsig", "v2short"}]
\* ("v1nospace": "PROXY" not followed by a space; the matcher documents the 5-byte prefix: left open)
PPRef(m, cfg) == IF m.kind \in {"v1", "v2"} THEN "Y" ELSE IF m.kind = "v2short" THEN "M"
                 ELSE IF m.kind = "v1nospace" THEN "X" ELSE "N"

(***************************************************************************)
(* regexp: the pattern is applied to exactly the first `count' bytes       *)
(* (default 4).  Patterns are restricted to shapes whose meaning is        *)
(* restated here: the first bytes are the literal "HELO" followed by       *)
(* digits; count cuts the subject.                                         *)
(***************************************************************************)
REMsgs == [text : {"HELO1234", "helo1234", "HELP1234", "XHELO123"}]
RECfgs == [pattern : {"^HELO", "HELO", "^HELO[0-9]+$", "^HELO$", "[0-9]{4}$"}, count : {0, 4, 5, 8}]
Count(cfg) == IF cfg.count = 0 THEN 4 ELSE cfg.count
\* the subject is the first Count bytes of the text
RERef(m, cfg) ==
  LET n == Count(cfg)
      up == m.text \in {"HELO1234"}              \* begins with HELO
      has == m.text \in {"HELO1234", "XHELO123"} \* contains HELO ...
      hasIn == (m.text = "HELO1234") \/ (m.text = "XHELO123" /\ n >= 5)   \* ... within the first n bytes
  IN CASE cfg.pattern = "^HELO"        -> IF up THEN "Y" ELSE "N"
       [] cfg.pattern = "HELO"         -> IF hasIn THEN "Y" ELSE "N"
       [] cfg.pattern = "^HELO[0-9]+$" -> IF up /\ n >= 5 THEN "Y" ELSE "N"
       [] cfg.pattern = "^HELO$"       -> IF up /\ n = 4 THEN "Y" ELSE "N"
       [] cfg.pattern = "[0-9]{4}$"    -> IF n = 8 /\ m.text \in {"HELO1234", "helo1234", "HELP1234"} THEN "Y" ELSE "N"

(***************************************************************************)
(* clock: after <= t < before in the configured zone, seconds of the day;  *)
(* before = 00:00:00 means 24:00:00; after > before are swapped.           *)
(***************************************************************************)
\* connection time: seconds of the UTC day, on 15 January 2026 ("winter") or 15 July 2026 ("summer")
ClockMsgs == [utc : {0, 1, 3599, 3600, 43199, 43200, 86399}, season : {"winter", "summer"}]
\* tz: a fixed offset in seconds east - or 99999 = the IANA zone Europe/Berlin (UTC+1, UTC+2 while daylight saving time
\* is in force: the offset is that of the CONNECTION's date)
ClockCfgs == [after : {0, 3600, 43200, 82800}, before : {0, 3600, 43200, 86399}, tz : {0, 3600, -18000, 99999}]
Berlin == 99999
Local(t, off) == (t + off + 86400) % 86400
ClockRef(m, cfg) ==
  LET b0 == IF cfg.before = 0 THEN 86400 ELSE cfg.before
      a == IF b0 < cfg.after THEN b0 ELSE cfg.after
      b == IF b0 < cfg.after THEN cfg.after ELSE b0
      off == IF cfg.tz = Berlin THEN (IF m.season = "summer" THEN 7200 ELSE 3600) ELSE cfg.tz
      t == Local(m.utc, off) IN
  IF t >= a /\ t < b THEN "Y" ELSE "N"

(***************************************************************************)
(* remote_ip / local_ip / not: CIDR membership of the connection address.  *)
(***************************************************************************)
IPMsgs == [remote : {"10.0.0.1", "10.0.1.1", "192.168.1.1", "2001:db8::1", "2001:db9::1"}]
\* "not_split": `not` over several matcher sets, one per range (not [A, B] = neither A nor B)
IPCfgs == [which : {"remote_ip", "not_remote_ip", "not_split"}, ranges : {<<"10.0.0.0/24">>, <<"10.0.0.0/8", "2001:db8::/32">>, <<"2001:db8::1">>, <<"0.0.0.0/0">>}]
InRange(ip, r) == CASE r = "10.0.0.0/24" -> ip = "10.0.0.1"
                    [] r = "10.0.0.0/8" -> ip \in {"10.0.0.1", "10.0.1.1"}
                    [] r = "2001:db8::/32" -> ip = "2001:db8::1"
                    [] r = "2001:db8::1" -> ip = "2001:db8::1"
                    [] r = "0.0.0.0/0" -> ip \in {"10.0.0.1", "10.0.1.1", "192.168.1.1"}
                    [] OTHER -> FALSE
IPRef(m, cfg) == LET hit == \E r \in Range(cfg.ranges) : InRange(m.remote, r) IN
                 IF (cfg.which = "remote_ip") = hit THEN "Y" ELSE "N"

(***************************************************************************)
(* WireGuard: a datagram of exactly 148 bytes whose little-endian type is  *)
(* 1 (handshake initiation) or of exactly 32 bytes with type 4 (keepalive),*)
(* the three reserved bytes being the configured `zero' value.             *)
(***************************************************************************)
WGMsgs == [size : {148, 32, 147, 149, 33, 92, 1}, type : {1, 2, 4, 0}, reserved : {0, 1, 8388607}]
WGCfgs == [zero : {0, 256, 2147483392}]          \* zero & 0xFFFFFF00 >> 8 = reserved value
WGReserved(cfg) == cfg.zero \div 256
WGRef(m, cfg) == IF /\ m.reserved = WGReserved(cfg)
                    /\ ((m.size = 148 /\ m.type = 1) \/ (m.size = 32 /\ m.type = 4))
                 THEN "Y" ELSE "N"

(***************************************************************************)
(* DNS (RFC 1035) request: header 12 bytes, QR=0, RCODE=0, Z=0, at least   *)
(* one question, nothing after the message; over TCP a 2-byte length       *)
(* prefix.  Filters as documented on MatchDNS: allow / deny rule lists     *)
(* with default_deny and prefer_allow.                                     *)
(***************************************************************************)
DNSMsgs == [qr : {0, 1}, rcode : {0, 3}, z : {0, 1}, qd : {0, 1}, name : {"example.com.", "sub.example.com.", "other.org."},
            qtype : {"A", "MX"}, lenfield : {"exact", "short", "long"}]
DNSRule(n, t) == [name |-> n, type |-> t, name_regexp |-> "", type_regexp |-> ""]
\* rules with regular expressions; the pattern shapes are restated below
DNSRuleRe(nre, tre) == [name |-> "", type |-> "", name_regexp |-> nre, type_regexp |-> tre]
DNSCfgs == [allow : {<<>>, <<DNSRule("example.com.", "")>>, <<DNSRule("", "A")>>, <<DNSRuleRe("^sub[.]", "")>>},
            deny : {<<>>, <<DNSRule("example.com.", "")>>, <<DNSRule("", "MX")>>, <<DNSRule("other.org.", "A")>>,
                    <<DNSRuleRe("[.]org[.]$", "")>>, <<DNSRuleRe("", "^M")>>},
            default_deny : BOOLEAN, prefer_allow : BOOLEAN]
DNSNameRe(p, n) == CASE p = "" -> TRUE
                     [] p = "^sub[.]" -> n = "sub.example.com."
                     [] p = "[.]org[.]$" -> n = "other.org."
DNSTypeRe(p, t) == CASE p = "" -> TRUE
                     [] p = "^M" -> t = "MX"
RuleHit(r, m) == /\ (r.name = "" \/ r.name = m.name) /\ (r.type = "" \/ r.type = m.qtype)
                 /\ DNSNameRe(r.name_regexp, m.name) /\ DNSTypeRe(r.type_regexp, m.qtype)
Hit(rules, m) == \E r \in Range(rules) : RuleHit(r, m)
DNSFilter(m, cfg) ==
  LET a == Hit(cfg.allow, m)
      d == Hit(cfg.deny, m) IN
  IF cfg.allow = <<>> /\ cfg.deny = <<>> THEN TRUE
  ELSE IF a /\ d THEN cfg.prefer_allow
  ELSE IF a THEN TRUE
  ELSE IF d THEN FALSE
  ELSE IF cfg.deny = <<>> THEN FALSE                  \* allow rules only: not matched by any of them
  ELSE ~cfg.default_deny
\* over TCP "short"/"long" length prefixes do not describe the message that follows
DNSRef(m, cfg, net) ==
  IF m.qr = 0 /\ m.rcode = 0 /\ m.z = 0 /\ m.qd = 1 /\ (net = "udp" \/ m.lenfield = "exact") /\ DNSFilter(m, cfg)
  THEN "Y" ELSE "N"

(***************************************************************************)
(* RDP (MS-RDPBCGR 2.2.1.1): TPKT header (version 3, reserved 0, length),  *)
(* X.224 Connection Request (LI = length - 5, code 0xE0, refs 0, class 0), *)
(* then optionally a cookie ("Cookie: mstshash=<hash>" CR LF), or a routing*)
(* token ("Cookie: msts=<ip>.<port>.0000" CR LF behind an 11-byte token    *)
(* header), or custom text CR LF; then optionally RDP_NEG_REQ (type 1,     *)
(* length 8; HYBRID requires SSL).  Documented: an empty payload or any    *)
(* byte after the request means "not RDP".  Filters: cookie_hash,          *)
(* cookie_ips, cookie_ports.                                               *)
(***************************************************************************)
RDPMsgs == [ver : {3, 2}, len : {"exact", "plus1", "minus1"},
            cookie : {"none", "hash_user", "hash_other", "token_in_3389", "token_in_1234", "token_out_3389", "custom", "custom_cr"},
            neg : {"none", "ssl", "hybrid_ssl", "hybrid_only", "badtype", "corr", "corr_short", "corr_missing", "corr_badid"}, extra : {0}]
RDPCfgs == [cookie_hash : {"", "user"}, cookie_ips : {<<>>, <<"10.0.0.0/8">>}, cookie_ports : {<<>>, <<3389>>}]
RDPRef(m, cfg) ==
  LET isToken == m.cookie \in {"token_in_3389", "token_in_1234", "token_out_3389"}
      cookieOK == /\ (cfg.cookie_hash = "user" => m.cookie = "hash_user")
                  /\ (cfg.cookie_ips # <<>> => m.cookie \in {"token_in_3389", "token_in_1234"})
                  /\ (cfg.cookie_ports # <<>> => m.cookie \in {"token_in_3389", "token_out_3389"})
      \* "corr": RDP_NEG_REQ with CORRELATION_INFO_PRESENT followed by a 36-byte RDP_NEG_CORRELATION_INFO;
      \* "corr_short" / "corr_missing": the block is truncated / absent; "corr_badid": identifier begins with 0x00
      negOK == m.neg \in {"none", "ssl", "hybrid_ssl", "corr"} IN
  IF /\ m.ver = 3 /\ m.len = "exact" /\ m.extra = 0
     /\ (m.cookie # "none" \/ m.neg # "none")
     /\ m.cookie # "custom_cr"                 \* text ending in a bare CR is neither a cookie line nor a negotiation request
     /\ cookieOK /\ negOK
  THEN "Y" ELSE "N"

(***************************************************************************)
(* HTTP/1.x request (RFC 9112): request line "METHOD SP target SP          *)
(* HTTP/x.y", header fields, empty line.  Filters (Caddy's HTTP matchers): *)
(* host, path (exact or prefix glob), method, header presence.             *)
(***************************************************************************)
HTTPMsgs == [method : {"GET", "POST"}, path : {"/", "/api/x", "/other"}, version : {"HTTP/1.1", "HTTP/1.0", "HTTQ/1.1"},
             eol : {"crlf", "lf"}, host : {"example.com", "other.org", ""}, xtest : BOOLEAN, complete : BOOLEAN]
\* filter "tenant": header X-Tenant alpha - a field may occur several times; the filter holds if ANY occurrence has the value
HTTPCfgs == [filter : {"none", "host", "path", "method", "header", "tenant"}]
\* lines that are no request line: n bytes then LF or CR LF (n around the matcher's own bounds)
HTTPJunk == [junk : 0..24, eol : {"crlf", "lf"}]
\* HTTP/2 with prior knowledge (RFC 9113 3.4): the preface "PRI * HTTP/2.0 CRLF CRLF SM CRLF CRLF",
\* SETTINGS, then HEADERS carrying the request; "bigframe": a frame header announcing 16 MiB
\* tenant: the x-tenant fields of the HEADERS frame, in order ("none": the field is absent)
\* "manyframes": the preface followed by twelve well-formed frames none of which is HEADERS (SETTINGS, PRIORITY,
\* WINDOW_UPDATE, PING): whether that is "HTTP" is left open, it is there for C04 and C06
HTTP2Msgs == { m \in [h2 : {"request", "bigframe", "preface_only", "manyframes"}, host : {"example.com", "other.org"}, path : {"/api/x", "/"}, method : {"GET", "POST"},
                       tenant : {"none", "alpha", "alpha_beta", "beta_alpha", "beta"}] :
               m.tenant # "none" => (m.h2 = "request" /\ m.host = "example.com" /\ m.path = "/api/x" /\ m.method = "GET") }
HTTPRef(m, cfg) ==
  IF "junk" \in DOMAIN m THEN "N"
  ELSE IF "h2" \in DOMAIN m THEN
       (IF m.h2 = "preface_only" THEN "M"
        ELSE IF m.h2 \in {"bigframe", "manyframes"} THEN "X"
        ELSE IF CASE cfg.filter = "none" -> TRUE
                  [] cfg.filter = "host" -> m.host = "example.com"
                  [] cfg.filter = "path" -> m.path = "/api/x"
                  [] cfg.filter = "method" -> m.method = "POST"
                  [] cfg.filter = "header" -> FALSE
                  [] cfg.filter = "tenant" -> m.tenant \in {"alpha", "alpha_beta", "beta_alpha"}
             THEN "Y" ELSE "N")
  ELSE IF m.version = "HTTQ/1.1" THEN "N"
  ELSE IF ~m.complete THEN "M"
  ELSE IF CASE cfg.filter = "none" -> TRUE
            [] cfg.filter = "host" -> m.host = "example.com"
            [] cfg.filter = "path" -> m.path = "/api/x"          \* path matcher /api/*
            [] cfg.filter = "method" -> m.method = "POST"
            [] cfg.filter = "header" -> m.xtest
            [] cfg.filter = "tenant" -> FALSE
       THEN "Y" ELSE "N"

(***************************************************************************)
(* Winbox (MikroTik) authentication message: chunks [length, type, bytes]; *)
(* the first chunk has type 6, continuation chunks type 255 and every      *)
(* chunk but the last is 255 bytes long; the content is                    *)
(* username ["+r" for RoMON] NUL public-key(32) parity(0|1).  Filters:     *)
(* modes (standard / romon), username.                                     *)
(***************************************************************************)
WBMsgs == { m \in [ulen : {1, 5, 219, 221, 222, 255}, romon : BOOLEAN, parity : {0, 1, 2}, type : {6, 5}, delim : {"ok", "missing", "last"}] : m.romon => m.ulen <= 222 }
\* username and username_regexp are mutually exclusive; the patterns are restated below (matched against the
\* user name WITHOUT the RoMON suffix)
WBCfgs == { c \in [modes : {<<>>, <<"standard">>, <<"romon">>}, username : {"", "admin"}, regexp : {"", "^admin$", "n$", "^a+$"}] : c.username = "" \/ c.regexp = "" }
WBRegexp(re, ulen) == CASE re = "" -> TRUE [] re \in {"^admin$", "n$"} -> ulen = 5 [] re = "^a+$" -> ulen # 5
\* the username is "admin" when ulen = 5, otherwise ulen letters; RoMON appends "+r" (part of the length)
WBRef(m, cfg) ==
  IF /\ m.type = 6 /\ m.delim = "ok" /\ m.parity <= 1
     /\ (cfg.modes = <<>> \/ (m.romon /\ "romon" \in Range(cfg.modes)) \/ (~m.romon /\ "standard" \in Range(cfg.modes)))
     /\ (cfg.username = "" \/ m.ulen = 5)
     /\ WBRegexp(cfg.regexp, m.ulen)
  THEN "Y" ELSE "N"

(***************************************************************************)
(* TLS record framing (RFC 8446 5.1) in front of the ClientHello: a record *)
(* that is not a handshake record (type 22) never matches; the hello is    *)
(* produced by a real crypto/tls client; filters sni / alpn as in L4TLS.   *)
(***************************************************************************)
\* "emptyrec": a handshake record of length 0; "shortrec": a handshake record of 3 bytes (type ClientHello, length cut);
\* "notch": a handshake record whose first message is no ClientHello (type 2)
\* "hslong": a handshake record whose ClientHello header announces more bytes than the record carries (the hello goes on
\* in the next record, RFC 8446 5.1, which has not arrived); "twofrag": a real hello cut into two handshake records
TLSMsgs == [kind : {"hello", "alert", "appdata", "sslv2", "http", "emptyrec", "shortrec", "notch", "hslong", "twofrag"}, sni : {"a.example.com", "b.example.com", ""}, alpn : {"none", "h2"}]
TLSCfgs == [sni : {<<>>, <<"a.example.com">>}, alpn : {<<>>, <<"h2">>}]
\* (a handshake record that ends inside the ClientHello's own header may be the first fragment of a hello that
\* continues in the next record: left open)
\* The matcher documents "matches if the connection is a TLS handshake": whether a handshake record that carries no
\* ClientHello (empty, another message type) counts is left open as well; such records are there for C04 and C06.
TLSRef(m, cfg) == IF m.kind \in {"shortrec", "emptyrec", "notch", "hslong", "twofrag"} THEN "X"
                  ELSE IF m.kind # "hello" THEN "N"
                  ELSE IF /\ (cfg.sni = <<>> \/ m.sni = "a.example.com")
                          /\ (cfg.alpn = <<>> \/ m.alpn = "h2")
                       THEN "Y" ELSE "N"

(***************************************************************************)
(* OpenVPN client reset (openvpn-protocol / cryptographic-layer manuals,   *)
(* and the matcher's documented options).  Over TCP a 2-byte length        *)
(* precedes the message.  First byte: opcode (high 5 bits:                 *)
(* P_CONTROL_HARD_RESET_CLIENT_V2 = 7, ..._V3 = 10), key id (low 3 bits,   *)
(* must be 0).  Then                                                       *)
(*   plain  : session id (8, non-zero), ack count (1, zero), packet id (4, *)
(*            zero);                                                       *)
(*   auth   : session id, HMAC (size of the digest), replay packet id (4,  *)
(*            = 1), timestamp (4), ack count, packet id; the HMAC is over  *)
(*            replay id, timestamp, opcode, session, ack count, packet id  *)
(*            with key[192..] (normal direction) or key[64..] (inverse /   *)
(*            bidirectional) of the 2048-bit group key;                    *)
(*   crypt  : session id, replay packet id, timestamp, HMAC-SHA256 (32),   *)
(*            AES-256-CTR(ack count, packet id) with IV = tag[0..16);      *)
(*   crypt2 : as crypt with opcode V3 and the client key Kc, followed by   *)
(*            the wrapped client key WKc = tag ++ enc(Kc ++ metadata) ++   *)
(*            length under the server key; replay id 1 or 0x0f000001.      *)
(* Options: modes (case-insensitive, empty = all), ignore_timestamp        *)
(* (otherwise +-15 s of now), ignore_crypto, group_key + auth_digest +     *)
(* group_key_direction (auth, crypt), server_key / client_keys (crypt2).   *)
(* Without the relevant key authentication/decryption is skipped - and     *)
(* then the encrypted ack count / packet id of crypt messages cannot be    *)
(* seen.                                                                   *)
(* Abstract fields: sig = which key material signed the message ("a" =     *)
(* primary: k1 normal direction / Kc1 wrapped under s1; "q1" = k1 inverse  *)
(* or bidirectional quarter; "b" = another key; "corrupt" = a bit of the   *)
(* tag flipped); wk = the wrapped key ("ok", "meta" = with 8 bytes of user *)
(* metadata, "corrupt" = tag bit flipped, "badlen" = wrong length field).  *)
(***************************************************************************)
OVBase(mode) == [mode |-> mode, opcode |-> "ok", keyid |-> 0, session |-> "nonzero", digest |-> "sha256", rpid |-> "one", ts |-> "now",
                 acks |-> 0, pid |-> 0, sig |-> "a", lenfield |-> "exact", wk |-> "ok", pad |-> 0]
OVDom == [opcode |-> {"ok", "swapped", "other"}, keyid |-> {0, 1}, session |-> {"nonzero", "zero"},
          digest |-> {"md5", "sha1", "sha256", "sha512", "sha3-256", "bad"}, rpid |-> {"one", "two", "early"}, ts |-> {"now", "old", "future"},
          acks |-> {0, 1}, pid |-> {0, 1}, sig |-> {"a", "q1", "b", "corrupt"}, lenfield |-> {"exact", "short", "long", "zero"},
          wk |-> {"ok", "meta", "corrupt", "badlen"},
          pad |-> {0, 3}]          \* bytes appended inside the message (the TCP length field counts them): no mode has such a message
OVRel(mode, net) == (CASE mode = "plain" -> {"opcode", "keyid", "session", "acks", "pid", "pad"}
                       [] mode = "auth" -> {"opcode", "keyid", "session", "acks", "pid", "digest", "rpid", "ts", "sig", "pad"}
                       [] mode = "crypt" -> {"opcode", "keyid", "session", "acks", "pid", "rpid", "ts", "sig", "pad"}
                       [] mode = "crypt2" -> {"opcode", "keyid", "session", "acks", "pid", "rpid", "ts", "sig", "wk", "pad"})
                    \cup (IF net = "tcp" THEN {"lenfield"} ELSE {})
\* all records obtained from b by changing at most n of the fields F to another value of their domain D
Devs(b, F, D, n) == LET step(S) == S \cup UNION { UNION { { [x EXCEPT ![f] = y] : y \in D[f] } : f \in F } : x \in S } IN
                    IF n = 0 THEN {b} ELSE IF n = 1 THEN step({b}) ELSE step(step({b}))
OVMsgs(mode, net, n) == { m \in Devs(OVBase(mode), OVRel(mode, net), OVDom, n) : (m.sig = "q1" => mode = "auth") }

\* via: the keys are given inline (group_key, server_key, client_keys) or as files (group_key_file, server_key_file,
\* client_key_files) - documented as the same keys
OVCfgBase == [modes |-> <<>>, ignore_timestamp |-> FALSE, ignore_crypto |-> FALSE, group_key |-> "none", auth_digest |-> "", direction |-> "",
              server_key |-> "none", client_keys |-> "none", via |-> "inline"]
OVCfgDom == [modes |-> {<<>>, <<"plain">>, <<"auth">>, <<"crypt">>, <<"crypt2">>, <<"AUTH", "Crypt", "crypt2">>, <<"plain", "CRYPT2">>},
             ignore_timestamp |-> BOOLEAN, ignore_crypto |-> BOOLEAN, group_key |-> {"none", "k1", "k2"},
             auth_digest |-> {"", "sha1", "sha256", "sha3-256"}, direction |-> {"", "normal", "inverse", "bidi"},
             server_key |-> {"none", "s1", "s2"}, client_keys |-> {"none", "c1", "c2"}, via |-> {"inline", "file"}]
OVCfgRel(mode) == CASE mode = "plain" -> {"modes"}
                    [] mode = "auth" -> {"modes", "ignore_timestamp", "ignore_crypto", "group_key", "auth_digest", "direction", "via"}
                    [] mode = "crypt" -> {"modes", "ignore_timestamp", "ignore_crypto", "group_key", "direction", "via"}
                    [] mode = "crypt2" -> {"modes", "ignore_timestamp", "ignore_crypto", "server_key", "client_keys", "via"}
\* baselines: no key material configured / the key material the primary signature uses
OVCfgBases(mode) == {OVCfgBase} \cup (CASE mode = "plain" -> {}
                                        [] mode \in {"auth", "crypt"} -> { [OVCfgBase EXCEPT !.group_key = "k1"], [OVCfgBase EXCEPT !.group_key = "k1", !.via = "file"] }
                                        [] mode = "crypt2" -> { [OVCfgBase EXCEPT !.server_key = "s1"], [OVCfgBase EXCEPT !.client_keys = "c1"],
                                                                [OVCfgBase EXCEPT !.server_key = "s1", !.via = "file"], [OVCfgBase EXCEPT !.client_keys = "c1", !.via = "file"] })
\* a client key is only accepted at provisioning if it is wrapped under the configured server key
OVCfgValid(c) == ~(c.server_key = "s1" /\ c.client_keys = "c2") /\ ~(c.server_key = "s2" /\ c.client_keys = "c1")
OVCfgs(mode, n) == { c \in UNION { Devs(b, OVCfgRel(mode), OVCfgDom, n) : b \in OVCfgBases(mode) } : OVCfgValid(c) }

OVModeName(s) == CASE s \in {"plain"} -> "plain" [] s \in {"auth", "AUTH"} -> "auth" [] s \in {"crypt", "Crypt"} -> "crypt" [] s \in {"crypt2", "CRYPT2"} -> "crypt2"
OVDigestSize(d) == CASE d = "md5" -> 16 [] d = "sha1" -> 20 [] d \in {"sha256", "sha3-256"} -> 32 [] d = "sha512" -> 64 [] d = "bad" -> 24
OVQuarter(dir) == IF dir \in {"inverse", "bidi"} THEN "q1" ELSE "a"
OVRef(m, cfg, net) ==
  LET modeOK == cfg.modes = <<>> \/ \E i \in DOMAIN cfg.modes : OVModeName(cfg.modes[i]) = m.mode
      tsOK == m.mode = "plain" \/ cfg.ignore_timestamp \/ m.ts = "now"
      rpidOK == m.mode = "plain" \/ m.rpid = "one" \/ (m.mode = "crypt2" /\ m.rpid = "early")
      clearOK == m.acks = 0 /\ m.pid = 0          \* ack count and packet id, where they can be seen
      authCrypto == \/ cfg.ignore_crypto \/ cfg.group_key = "none"
                    \/ /\ ( \/ (m.sig = "a" /\ cfg.group_key = "k1" /\ OVQuarter(cfg.direction) = "a")
                             \/ (m.sig = "q1" /\ cfg.group_key = "k1" /\ OVQuarter(cfg.direction) = "q1")
                             \/ (m.sig = "b" /\ cfg.group_key = "k2" /\ OVQuarter(cfg.direction) = "a") )
                       /\ (cfg.auth_digest = "" \/ cfg.auth_digest = m.digest)
      authOK == /\ m.digest # "bad" /\ clearOK
                /\ (cfg.auth_digest # "" => OVDigestSize(cfg.auth_digest) = OVDigestSize(m.digest))
                /\ authCrypto
      cryptOK == \/ cfg.ignore_crypto \/ cfg.group_key = "none"
                 \/ (clearOK /\ ((m.sig = "a" /\ cfg.group_key = "k1") \/ (m.sig = "b" /\ cfg.group_key = "k2")))
      viaClient == /\ m.wk = "ok" /\ clearOK
                   /\ ((m.sig = "a" /\ cfg.client_keys = "c1") \/ (m.sig = "b" /\ cfg.client_keys = "c2"))
      viaServer == /\ m.wk \in {"ok", "meta"} /\ clearOK
                   /\ ((m.sig = "a" /\ cfg.server_key = "s1") \/ (m.sig = "b" /\ cfg.server_key = "s2"))
      crypt2OK == m.wk # "badlen" /\ (\/ cfg.ignore_crypto
                                      \/ (cfg.client_keys = "none" /\ cfg.server_key = "none")
                                      \/ (cfg.client_keys # "none" /\ viaClient)
                                      \/ (cfg.client_keys = "none" /\ viaServer))
      \* both a server key and client keys configured, the message's client key is not listed but is wrapped
      \* under the configured server key: the documentation does not say which of the two decides
      open == /\ m.mode = "crypt2" /\ ~cfg.ignore_crypto /\ cfg.client_keys # "none" /\ cfg.server_key # "none"
              /\ ~viaClient /\ viaServer
      body == CASE m.mode = "plain" -> clearOK [] m.mode = "auth" -> authOK [] m.mode = "crypt" -> cryptOK [] m.mode = "crypt2" -> crypt2OK IN
  \* the length field announces one byte more than has arrived: undecided - unless the first three bytes already
  \* rule the message out; where only the mode filter or the maximal V2 length (auth with a 64-byte HMAC) could, either is fine
  IF net = "tcp" /\ m.lenfield = "long" THEN (IF ~(m.opcode = "ok" /\ m.keyid = 0) THEN "N"
                                              ELSE IF modeOK /\ ~(m.mode = "auth" /\ m.digest = "sha512") THEN "M" ELSE "X")
  ELSE IF ~(m.opcode = "ok" /\ m.keyid = 0 /\ m.session = "nonzero" /\ m.lenfield = "exact" /\ m.pad = 0 /\ modeOK /\ tsOK /\ rpidOK) THEN "N"
  ELSE IF open THEN "X"
  ELSE IF body THEN "Y" ELSE "N"

\* (an operator with a parameter: TLC evaluates constant definitions without parameters eagerly, also where only Ref is used)
OVVectors(n) ==
  UNION { UNION { { [proto |-> "openvpn", net |-> net, cfg |-> c, msg |-> m, trail |-> 0] : m \in OVMsgs(mode, net, IF net = "udp" /\ Tier = "quick" THEN 0 ELSE n), c \in OVCfgs(mode, n) }
                  : mode \in {"plain", "auth", "crypt", "crypt2"} } : net \in {"tcp", "udp"} }

(***************************************************************************)
(* QUIC (RFC 9000 17.2, RFC 9001): a datagram matches if it is an Initial  *)
(* packet (long header, fixed bit set, 1200..1451 bytes) carrying a TLS    *)
(* ClientHello whose server name / ALPN satisfy the configured             *)
(* tls.handshake_match matchers; UDP only.  "initial" is produced by a     *)
(* real QUIC client; the other kinds are datagrams that must not match:    *)
(* long header with arbitrary payload, short header, fixed bit clear,      *)
(* too small (1199), larger than any QUIC datagram the server reads (1460),*)
(* and a real Initial offered over TCP.                                    *)
(***************************************************************************)
QMsgs == [kind : {"initial", "garbage_long", "short_header", "nofixedbit", "small_long", "big_long", "tcp_initial"}, sni : {"a.example.com", "b.example.com"}, alpn : {"h3", "other"}]
QCfgs == [sni : {<<>>, <<"a.example.com">>}, alpn : {<<>>, <<"h3">>}]
QRef(m, cfg) == IF /\ m.kind = "initial"
                   /\ (cfg.sni = <<>> \/ m.sni \in Range(cfg.sni))
                   /\ (cfg.alpn = <<>> \/ m.alpn \in Range(cfg.alpn))
                THEN "Y" ELSE "N"

(***************************************************************************)
(* The vectors and their reference verdicts                                *)
(***************************************************************************)
Vec(p, n, c, m, t) == [proto |-> p, net |-> n, cfg |-> c, msg |-> m, trail |-> t]
NoCfg == [none |-> 0]
Vectors(p) ==
  CASE p = "ssh"      -> { Vec(p, "tcp", NoCfg, m, t) : m \in SSHMsgs, t \in {0, 20} }
    [] p = "xmpp"     -> { Vec(p, "tcp", NoCfg, m, 0) : m \in XMPPMsgs }
    [] p = "postgres" -> { Vec(p, "tcp", NoCfg, m, t) : m \in { x \in PGMsgs : PGValid(x) }, t \in {0, 5} }
    [] p = "socks4"   -> { Vec(p, "tcp", c, m, 3) : m \in { x \in S4Msgs : Tier # "quick" \/ (x.vn # 0 /\ x.cd # 0 /\ x.port # 0) }, c \in S4Cfgs }
    [] p = "socks5"   -> { Vec(p, "tcp", c, m, t) : m \in S5Msgs, c \in S5Cfgs, t \in {0} }
    [] p = "proxy_protocol" -> { Vec(p, "tcp", NoCfg, m, 9) : m \in PPMsgs }
    [] p = "regexp"   -> { Vec(p, "tcp", c, m, 0) : m \in REMsgs, c \in RECfgs }
    [] p = "clock"    -> { Vec(p, "tcp", c, m, 0) : m \in ClockMsgs, c \in ClockCfgs }
    [] p = "ip"       -> { Vec(p, "tcp", c, m, 0) : m \in IPMsgs, c \in IPCfgs }
    [] p = "wireguard" -> { Vec(p, "udp", c, m, 0) : m \in WGMsgs, c \in WGCfgs }
    [] p = "dns"      -> { Vec(p, n, c, m, t) : m \in { x \in DNSMsgs : Tier # "quick" \/ (x.rcode + x.z + x.qr <= 1 /\ (x.name # "sub.example.com." \/ (x.qtype = "A" /\ x.rcode + x.z + x.qr = 0 /\ x.qd = 1 /\ x.lenfield = "exact"))) },
                                                 c \in DNSCfgs, n \in {"tcp", "udp"}, t \in {0} }
    [] p = "rdp"      -> { Vec(p, "tcp", c, m, 0) : m \in { x \in RDPMsgs : Tier # "quick" \/ x.len # "minus1" }, c \in RDPCfgs }
    [] p = "http"     -> { Vec(p, "tcp", c, m, 0) : m \in HTTPMsgs, c \in HTTPCfgs }
                         \cup { Vec(p, "tcp", [filter |-> "none"], m, 0) : m \in HTTPJunk }
                         \cup { Vec(p, "tcp", c, m, 0) : m \in HTTP2Msgs, c \in HTTPCfgs }
    [] p = "winbox"   -> { Vec(p, "tcp", c, m, t) : m \in WBMsgs, c \in WBCfgs, t \in {0} }
    [] p = "tls"      -> { Vec(p, "tcp", c, m, t) : m \in TLSMsgs, c \in TLSCfgs, t \in {0, 9} }
    [] p = "quic"     -> { Vec(p, IF m.kind = "tcp_initial" THEN "tcp" ELSE "udp", c, m, 0) :
                               m \in { x \in QMsgs : x.kind = "initial" \/ (x.sni = "a.example.com" /\ x.alpn = "h3") }, c \in QCfgs }
    [] p = "openvpn"  -> OVVectors(IF Tier = "quick" THEN 1 ELSE 2)
    [] OTHER -> {}

Ref(v) ==
  CASE v.proto = "ssh" -> SSHRef(v.msg, v.cfg)
    [] v.proto = "xmpp" -> XMPPRef(v.msg, v.cfg)
    [] v.proto = "postgres" -> PGRef(v.msg, v.cfg)
    [] v.proto = "socks4" -> S4Ref(v.msg, v.cfg)
    [] v.proto = "socks5" -> S5Ref(v.msg, v.cfg)
    [] v.proto = "proxy_protocol" -> PPRef(v.msg, v.cfg)
    [] v.proto = "regexp" -> RERef(v.msg, v.cfg)
    [] v.proto = "clock" -> ClockRef(v.msg, v.cfg)
    [] v.proto = "ip" -> IPRef(v.msg, v.cfg)
    [] v.proto = "wireguard" -> WGRef(v.msg, v.cfg)
    [] v.proto = "dns" -> DNSRef(v.msg, v.cfg, v.net)
    [] v.proto = "rdp" -> RDPRef(v.msg, v.cfg)
    [] v.proto = "http" -> HTTPRef(v.msg, v.cfg)
    [] v.proto = "tls" -> TLSRef(v.msg, v.cfg)
    [] v.proto = "winbox" -> WBRef(v.msg, v.cfg)
    [] v.proto = "quic" -> QRef(v.msg, v.cfg)
    [] v.proto = "openvpn" -> OVRef(v.msg, v.cfg, v.net)
    [] OTHER -> "?"

\* stream protocols: the verdict-over-prefixes rules of C06 apply
IsStream(v) == v.net = "tcp" /\ v.proto \notin {"clock", "ip", "quic"}

(***************************************************************************)
(* Judging one observation o of the real matcher on vector v:              *)
(*   o.verdicts : verdict on every sampled prefix length, as               *)
(*                [n |-> length, v |-> "M"|"Y"|"N"|"E"|"P" (panic)]        *)
(*                in increasing n; the last one is the whole stream        *)
(*   o.msglen   : length of the first message                              *)
(*   o.repeatOK : a second evaluation on the same prefix agreed, always    *)
(*   o.pureOK   : no evaluation read from the socket or moved the cursor   *)
(*   o.maxAlloc, o.allocBound : bytes allocated by one evaluation, limit   *)
(*   o.inc      : the whole stream delivered to ONE connection in two or   *)
(*                three segments, the matcher asked after each (what the   *)
(*                routing loop does while a route is undecided):           *)
(*                [cuts |-> stream length after each segment, allMore |->  *)
(*                every evaluation before the last segment asked for more, *)
(*                final |-> the verdict after the last segment]            *)
(***************************************************************************)
VerdictAt(o, n) == LET S == { i \in DOMAIN o.verdicts : o.verdicts[i].n = n } IN
                   IF S = {} THEN "?" ELSE o.verdicts[CHOOSE i \in S : TRUE].v
Final(o) == o.verdicts[Len(o.verdicts)].v
\* C14: the verdict on the complete first message (without what follows it) equals the reference;
\* a message that must not match is not matched with trailing data either; "M": the message is
\* incomplete and stays undecided
V1(v, o) == LET r == Ref(v)
                f == VerdictAt(o, o.msglen) IN
            CASE r = "Y" -> f = "Y"
              \* must not match: neither whole, nor with what follows it, nor - for stream protocols -
              \* on any fragment of it (the router would run the route on the first "yes")
              [] r = "N" -> /\ f # "Y" /\ Final(o) # "Y"
                            /\ IsStream(v) => \A i \in DOMAIN o.verdicts : o.verdicts[i].n <= o.msglen => o.verdicts[i].v # "Y"
              [] r = "M" -> f = "M" \/ v.trail > 0
              [] r = "X" -> TRUE
              [] OTHER -> FALSE
\* C06
M1(v, o) == IsStream(v) => \A i, j \in DOMAIN o.verdicts : (i < j /\ o.verdicts[i].v = "N") => o.verdicts[j].v \in {"N", "E"}
M2(v, o) == (IsStream(v) /\ VerdictAt(o, o.msglen) = "Y") =>
               \A i \in DOMAIN o.verdicts : o.verdicts[i].n < o.msglen => o.verdicts[i].v \in {"M", "Y"}
M3(v, o) == o.repeatOK
M4(v, o) == o.pureOK
\* a message that reaches one connection in fragments, the matcher asking for more after each, ends in the verdict it gets
\* when it arrives whole (whatever the matcher or the connection keeps between evaluations must not decide)
M5(v, o) == \A i \in DOMAIN o.inc : o.inc[i].allMore => o.inc[i].final = Final(o)
\* C04
A1(v, o) == \A i \in DOMAIN o.verdicts : o.verdicts[i].v # "P"
A2(v, o) == o.maxAlloc <= o.allocBound

WireViolations(v, o) ==
  (IF V1(v, o) THEN {} ELSE {"V1 verdict on the complete first message differs from the reference predicate"})
  \cup (IF M1(v, o) THEN {} ELSE {"M1 a verdict of no on a prefix did not remain no on a longer prefix"})
  \cup (IF M2(v, o) THEN {} ELSE {"M2 a message that matches whole was rejected on a proper prefix instead of asking for more"})
  \cup (IF M3(v, o) THEN {} ELSE {"M3 repeating the evaluation on the same bytes gave another verdict"})
  \cup (IF M4(v, o) THEN {} ELSE {"M4 evaluating the matcher read from the network or moved the read cursor"})
  \cup (IF M5(v, o) THEN {} ELSE {"M5 a message delivered to one connection in fragments, the matcher asked after each, did not end in the verdict it gets when delivered whole"})
  \cup (IF A1(v, o) THEN {} ELSE {"A1 the matcher panicked"})
  \cup (IF A2(v, o) THEN {} ELSE {"A2 one evaluation allocated more than the bound"})
=============================================================================
