SPECIFICATION Spec
CONSTANTS N = 2 FailAt = 0 MaxConns = 2 CleanupOnFailedStart = FALSE MaxErrs = 2 RetryTransient = TRUE
INVARIANTS TypeOK AllTracked StopClosesAll ServedWhileBound
PROPERTIES LoopsEnd NoAcceptAfterStop
CHECK_DEADLOCK FALSE
