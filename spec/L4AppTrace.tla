------------------------------ MODULE L4AppTrace ------------------------------
(***************************************************************************)
(* Observations of the real layer4.App (harness: app-run) against the      *)
(* lifecycle clauses of L4App.  One line = one run:                        *)
(*   t.n        number of listen addresses                                 *)
(*   t.failAt   the address that cannot be bound (0 = none)                *)
(*   t.startErr Start returned an error                                    *)
(*   t.afterStart[i], t.afterStop[i]  address i accepts connections /      *)
(*              datagrams after Start returned / after Stop returned       *)
(*              (afterStop = <<>> when Stop was not called: Caddy does not *)
(*              stop an app whose Start failed)                            *)
(*   t.loopsLeft  serve goroutines still running at the end                *)
(* Z1-Z3 hold of the code as it is; Z4 is the clause the model shows to be *)
(* violated (FailedStartLeavesNothing) - reported as an observation, it is *)
(* not one of the listed properties.                                       *)
(***************************************************************************)
EXTENDS Integers, Sequences, FiniteSets, TLC, Json, TLCExt
Traces == ndJsonDeserialize("app_traces.ndjson")
Z1(t) == (t.failAt = 0) => (~t.startErr /\ \A i \in 1..t.n : t.afterStart[i])
Z2(t) == (t.failAt = 0) => (\A i \in 1..t.n : ~t.afterStop[i]) /\ t.loopsLeft = 0
Z3(t) == (t.failAt # 0) => t.startErr
Z4(t) == (t.failAt # 0) => \A i \in 1..t.n : ~t.afterStart[i]
AppViolations(t) ==
  (IF Z1(t) THEN {} ELSE {"Z1 after a successful Start some address is not served"})
  \cup (IF Z2(t) THEN {} ELSE {"Z2 after Stop an address is still served or a serve loop is still running"})
  \cup (IF Z3(t) THEN {} ELSE {"Z3 Start did not report that an address could not be bound"})
  \cup (IF Z4(t) THEN {} ELSE {"Z4 a failed Start left addresses bound (nobody will ever close them)"})
Judge(t) == LET v == AppViolations(t) IN
            IF v = {} THEN TRUE ELSE PrintT(<<"VBAD", ToJson([id |-> t.id, clauses |-> v])>>)
VARIABLE k
TInit == k = 0
TNext == k < Len(Traces) /\ Judge(Traces[k + 1]) /\ k' = k + 1
Done == (k = Len(Traces)) => PrintT(<<"VDONE", k>>)
=============================================================================
