------------------------------ MODULE L4AppTrace ------------------------------
(***************************************************************************)
(* Observations of the real layer4.App (harness: app-run) against the      *)
(* lifecycle clauses of L4App.  One line = one run:                        *)
(*   t.n        number of listen addresses                                 *)
(*   t.failAt   the address that cannot be bound (0 = none)                *)
(*   t.startErr Start returned an error                                    *)
(*   t.afterStart[i], t.afterStop[i]  address i accepts connections /      *)
(*              datagrams after Start returned / after Stop returned       *)
(*              (afterStop = <<>> when Stop was not called: Caddy does not *)
(*              stop an app whose Start failed)                            *)
(*   t.loopsLeft  serve goroutines still running at the end                *)
(* Lines of kind "accept" (harness: the serve loop over a scripted         *)
(* listener / packet socket): one connection (datagram) is served, then    *)
(* Accept (ReadFrom) fails with t.err = "timeout" | "transient" (an error  *)
(* whose Temporary() is true and Timeout() false, e.g. EMFILE) | "closed", *)
(* then another connection is offered:                                     *)
(*   t.servedBefore, t.servedAfter   the two connections were served       *)
(*   t.loopEnded                     the loop returned                     *)
(* Z5 a timeout does not end the loop; Z7 a closed socket does; Z6 a       *)
(* transient error does not end it (ServedWhileBound of L4App) - like Z4   *)
(* an observation about the code as it is, not a listed property.          *)
(* Z1-Z3 hold of the code as it is; Z4 is the clause the model shows to be *)
(* violated (FailedStartLeavesNothing) - reported as an observation, it is *)
(* not one of the listed properties.                                       *)
(***************************************************************************)
EXTENDS Integers, Sequences, FiniteSets, TLC, Json, TLCExt
Traces == ndJsonDeserialize("app_traces.ndjson")
Z1(t) == (t.failAt = 0) => (~t.startErr /\ \A i \in 1..t.n : t.afterStart[i])
Z2(t) == (t.failAt = 0) => (\A i \in 1..t.n : ~t.afterStop[i]) /\ t.loopsLeft = 0
Z3(t) == (t.failAt # 0) => t.startErr
Z4(t) == (t.failAt # 0) => \A i \in 1..t.n : ~t.afterStart[i]
Z5(t) == t.err = "timeout" => (t.servedBefore /\ t.servedAfter /\ ~t.loopEnded)
Z6(t) == t.err = "transient" => (t.servedBefore /\ t.servedAfter /\ ~t.loopEnded)
Z7(t) == t.err = "closed" => (t.servedBefore /\ t.loopEnded /\ ~t.servedAfter)
AcceptViolations(t) ==
  (IF Z5(t) THEN {} ELSE {"Z5 a timeout of Accept / ReadFrom ended the serve loop or lost a connection"})
  \cup (IF Z6(t) THEN {} ELSE {"Z6 a transient error of Accept / ReadFrom ended the serve loop: the socket stays bound and nobody serves it"})
  \cup (IF Z7(t) THEN {} ELSE {"Z7 the serve loop did not end when its socket was closed"})
LifeViolations(t) ==
  (IF Z1(t) THEN {} ELSE {"Z1 after a successful Start some address is not served"})
  \cup (IF Z2(t) THEN {} ELSE {"Z2 after Stop an address is still served or a serve loop is still running"})
  \cup (IF Z3(t) THEN {} ELSE {"Z3 Start did not report that an address could not be bound"})
  \cup (IF Z4(t) THEN {} ELSE {"Z4 a failed Start left addresses bound (nobody will ever close them)"})
AppViolations(t) == IF t.kind = "accept" THEN AcceptViolations(t) ELSE LifeViolations(t)
Judge(t) == LET v == AppViolations(t) IN
            IF v = {} THEN TRUE ELSE PrintT(<<"VBAD", ToJson([id |-> t.id, clauses |-> v])>>)
VARIABLE k
TInit == k = 0
TNext == k < Len(Traces) /\ Judge(Traces[k + 1]) /\ k' = k + 1
Done == (k = Len(Traces)) => PrintT(<<"VDONE", k>>)
=============================================================================
