SPECIFICATION Spec
CONSTANTS
  Handlers <- HandlersAct
  Addrs <- AddrsAct
  Dial <- DialAct
  FailAt <- FailAtAct
  CleanupWhatWasStored = FALSE
  Active <- ActiveAct
  VerdictPerHandler = FALSE
  MaxFlips = 2
INVARIANTS Shared RefsExact Watched
CHECK_DEADLOCK FALSE
