------------------------------- MODULE L4Segs -------------------------------
(***************************************************************************)
(* Pure operators shared by the L4* specifications.                        *)
(*                                                                         *)
(* A client's byte stream is the integer interval 0..N-1.  The harness     *)
(* sends position-coded bytes, so every chunk a recorder sees can be       *)
(* mapped back to the interval of stream positions it carries.  Buffers    *)
(* and delivery histories are therefore SEQUENCES OF SEGMENTS <<lo, hi>>   *)
(* (positions lo..hi-1), never sequences of bytes; this is what lets the   *)
(* same specification run with toy constants (chunk 2, limit 4) and with   *)
(* the real ones (2048 / 8192).                                            *)
(***************************************************************************)
EXTENDS Integers, Sequences, FiniteSets

Min(a, b) == IF a < b THEN a ELSE b
Max(a, b) == IF a > b THEN a ELSE b

SegLen(s) == s[2] - s[1]

RECURSIVE Total(_)
Total(segs) == IF segs = <<>> THEN 0 ELSE SegLen(Head(segs)) + Total(Tail(segs))

\* bytes [from, from+k) of the concatenation of segs, as segments
RECURSIVE Slice(_, _, _)
Slice(segs, from, k) ==
  IF k <= 0 \/ segs = <<>> THEN <<>>
  ELSE LET h == Head(segs)
           n == SegLen(h) IN
       IF from >= n THEN Slice(Tail(segs), from - n, k)
       ELSE LET take == Min(k, n - from) IN
            <<<<h[1] + from, h[1] + from + take>>>> \o Slice(Tail(segs), 0, k - take)

\* append one segment, coalescing with an adjacent predecessor (canonical form)
AppendSeg(segs, s) ==
  IF SegLen(s) = 0 THEN segs
  ELSE IF segs # <<>> /\ segs[Len(segs)][2] = s[1]
       THEN [segs EXCEPT ![Len(segs)] = <<@[1], s[2]>>]
       ELSE Append(segs, s)

RECURSIVE AppendAll(_, _)
AppendAll(segs, more) ==
  IF more = <<>> THEN segs ELSE AppendAll(AppendSeg(segs, Head(more)), Tail(more))

\* "the concatenation of segs is exactly the interval [from, from+Total)":
\* after coalescing, nothing or one segment that starts at `from'
Contig(segs, from) ==
  LET c == AppendAll(<<>>, segs) IN
  c = <<>> \/ (Len(c) = 1 /\ c[1][1] = from)

(***************************************************************************)
(* layer4.Connection as a stack of layers.                                 *)
(*                                                                         *)
(* A connection state is a record                                          *)
(*   [buf : Seq(Seq(segment)), off : Seq(Nat), sock : Nat]                 *)
(* layer 1 reads the socket; layer l+1 was produced by cx.Wrap(conn) where *)
(* conn reads through layer l.  `sock' is the next stream position the     *)
(* socket will deliver.                                                    *)
(*                                                                         *)
(* ConnRead(c, l, k, avail, matching) is Connection.Read on layer l asking *)
(* for k bytes (connection.go 91-117) as a pure function:                  *)
(*   - matching and nothing unread  -> ErrConsumedAllPrefetchedBytes       *)
(*   - unread buffered bytes        -> serve min(k, unread) from buf; when *)
(*                                     drained outside matching mode the   *)
(*                                     buffer is reset                     *)
(*   - otherwise                    -> cx.Conn.Read: the layer below       *)
(* `avail' is the stream position up to which the client's bytes have      *)
(* arrived; the socket hands over at most avail - sock bytes.              *)
(* The result is [segs, c]; segs = <<>> means nothing could be served      *)
(* (would block / consumed-all).                                           *)
(***************************************************************************)
RECURSIVE ConnRead(_, _, _, _, _)
ConnRead(c, l, k, avail, matching) ==
  IF l = 0 THEN
     LET n == Min(k, avail - c.sock) IN
     [segs |-> IF n > 0 THEN <<<<c.sock, c.sock + n>>>> ELSE <<>>,
      c    |-> [c EXCEPT !.sock = c.sock + Max(n, 0)]]
  ELSE LET tot == Total(c.buf[l])
           o   == c.off[l] IN
       IF matching /\ o = tot THEN [segs |-> <<>>, c |-> c]
       ELSE IF o < tot THEN
            LET n       == Min(k, tot - o)
                drained == ~matching /\ o + n = tot IN
            [segs |-> Slice(c.buf[l], o, n),
             c    |-> IF drained
                      THEN [c EXCEPT !.buf[l] = <<>>, !.off[l] = 0]
                      ELSE [c EXCEPT !.off[l] = o + n]]
       ELSE ConnRead(c, l - 1, k, avail, FALSE)

\* unread bytes visible to a matcher on layer l (cx.MatchingBytes())
Vis(c, l) == Total(c.buf[l]) - c.off[l]

\* prefetch() on layer l: one underlying Read of <= chunk appended to buf (connection.go 143-179)
\* returns the new connection state; the caller checks len(buf) < Limit first.
ConnPrefetchRead(c, l, chunk, avail) == ConnRead(c, l - 1, chunk, avail, FALSE)
ConnPrefetchApply(r, l) == [r.c EXCEPT !.buf[l] = AppendAll(@, r.segs)]

\* cx.Wrap(conn) with conn reading through layer l.
\*   "copy"     : as coded at the pinned commit: the new Connection copies buf and offset
\*                (connection.go 129-140) although conn will serve the same unread bytes again
\*   "handover" : the repaired behaviour: the buffer is handed over only when nothing is unread
ConnWrap(c, mode) ==
  LET l == Len(c.buf) IN
  IF mode = "copy" \/ Vis(c, l) = 0
  THEN [c EXCEPT !.buf = Append(@, IF mode = "copy" THEN c.buf[l] ELSE <<>>),
                 !.off = Append(@, IF mode = "copy" THEN c.off[l] ELSE 0)]
  ELSE [c EXCEPT !.buf = Append(@, <<>>), !.off = Append(@, 0)]

\* read exactly k bytes on the top layer the way io.ReadFull does, the client having sent
\* everything up to `avail'; result [segs, c, short] (short: EOF before k bytes)
RECURSIVE ConnReadFull(_, _, _, _)
ConnReadFull(c, k, avail, acc) ==
  IF k = 0 THEN [segs |-> acc, c |-> c, short |-> FALSE]
  ELSE LET r == ConnRead(c, Len(c.buf), k, avail, FALSE) IN
       IF r.segs = <<>> THEN [segs |-> acc, c |-> r.c, short |-> TRUE]
       ELSE ConnReadFull(r.c, k - Total(r.segs), avail, AppendAll(acc, r.segs))

\* read until EOF on the top layer
RECURSIVE ConnDrain(_, _, _)
ConnDrain(c, avail, acc) ==
  LET r == ConnRead(c, Len(c.buf), avail + 1, avail, FALSE) IN
  IF r.segs = <<>> THEN [segs |-> acc, c |-> r.c]
  ELSE ConnDrain(r.c, avail, AppendAll(acc, r.segs))

=============================================================================
