--------------------------- MODULE L4CodecSealTrace ---------------------------
EXTENDS L4Codec, Json, TLCExt
Traces == ndJsonDeserialize("seal_traces.ndjson")
Judge(t) == LET v == SealViolations(t.c, t.o) IN
            IF v = {} THEN TRUE ELSE PrintT(<<"VBAD", ToJson([id |-> t.id, clauses |-> v])>>)
VARIABLE k
TInit == k = 0
TNext == k < Len(Traces) /\ Judge(Traces[k + 1]) /\ k' = k + 1
Done == (k = Len(Traces)) => PrintT(<<"VDONE", k>>)
=============================================================================
