------------------------------ MODULE L4TLSTrace ------------------------------
EXTENDS L4TLS, Json, TLCExt
Traces == ndJsonDeserialize("tls_traces.ndjson")
Judge(t) == LET v == TLSViolations(t.c, t.cfg, t.o) IN
            IF v = {} THEN TRUE ELSE PrintT(<<"VBAD", ToJson([id |-> t.id, clauses |-> v])>>)
VARIABLE k
TInit == k = 0
TNext == k < Len(Traces) /\ Judge(Traces[k + 1]) /\ k' = k + 1
Done == (k = Len(Traces)) => PrintT(<<"VDONE", k>>)
=============================================================================
