SPECIFICATION FairSpec
CONSTANTS Clients = {"c1", "c2"}  MaxDg = 2  MaxAssoc = 4  PacketsCap = 2  ReadCap = 1  CloseCap = 1  ReadsBeforeReturn = 1  Mode = "fixed"
  Shutdown = TRUE
  CloseGivesUp = TRUE
INVARIANTS NoCrash NoStaleDelete OwnClientOnly InOrder
PROPERTY ClosersEnd
CHECK_DEADLOCK FALSE
