------------------------------ MODULE L4ProxyAbs ------------------------------
(***************************************************************************)
(* C03 as clauses over the observations of ONE proxied connection through  *)
(* the real l4proxy.Handler (loopback TCP on both sides).                  *)
(*   t.csent            bytes the client wrote (incl. bytes prefetched     *)
(*                      into the matching buffer before the handler ran)   *)
(*   t.cend             how the client finished: "fin" | "close" | "rst"   *)
(*   t.ups[u]           per upstream connection: sent, end, recv,          *)
(*                      recvIntact (what it read is a prefix of the        *)
(*                      client's stream), sawEOF, closedAfterReturn,       *)
(*                      drained (it kept reading until EOF/error),         *)
(*                      abandoned (opened by a dial attempt given up),     *)
(*                      opened (the upstream server accepted a connection) *)
(*   t.err, t.dialErr   error returned by the handler ("" if none); it is  *)
(*                      the error of a failed dial                         *)
(*   t.crecv[u]         n, intact: what the client read of upstream u's    *)
(*                      bytes is a prefix of what u sent                   *)
(*   t.ceof             the client saw end of stream                       *)
(*   t.cdrained         the client kept reading until EOF/error            *)
(*   t.returned         Handle returned within the grace period            *)
(***************************************************************************)
EXTENDS Integers, Sequences, FiniteSets, TLC

\* connections opened by a dial attempt that was given up (a later peer of the same upstream refused) carry no
\* data; they only have to be closed (P5)
\* an upstream server that never accepted a connection (the handler's dial failed and it returned the error) has
\* nothing to receive or to be closed
U(t) == { u \in DOMAIN t.ups : ~t.ups[u].abandoned /\ t.ups[u].opened }
\* nobody aborted: no reset - and the client did not CLOSE (both directions) while upstream bytes were still unread
\* on its side, which TCP turns into a reset of the connection
NoReset(t) == /\ t.cend # "rst" /\ \A u \in U(t) : t.ups[u].end # "rst"
              /\ ~t.dialErr                 \* the handler did not give up on a dial error
              /\ ~(t.cend = "close" /\ \E u \in U(t) : t.crecv[u].n < t.ups[u].sent)

\* P1: each upstream reads the client's stream exactly once, in order, from its first
\*     unconsumed byte; everything, when nobody aborted and it read to the end
P1(t) == \A u \in U(t) :
           /\ t.ups[u].recvIntact /\ t.ups[u].recv <= t.csent
           /\ (NoReset(t) /\ t.ups[u].drained) => t.ups[u].recv = t.csent
\* P2: the client reads each upstream's bytes in order; everything, when nobody aborted
P2(t) == \A u \in U(t) :
           /\ t.crecv[u].intact /\ t.crecv[u].n <= t.ups[u].sent
           /\ (NoReset(t) /\ t.cend = "fin" /\ t.cdrained) => t.crecv[u].n = t.ups[u].sent
\* P3: when the client finishes sending, every upstream observes end of stream
P3(t) == (t.cend = "fin" /\ NoReset(t)) => \A u \in U(t) : t.ups[u].drained => t.ups[u].sawEOF
\* P4: when every upstream has finished sending, the client observes end of stream
P4(t) == (NoReset(t) /\ t.cend = "fin" /\ t.cdrained) => t.ceof
\* P3b / P4b: ... WHILE THE OPPOSITE DIRECTION KEEPS FLOWING: the side that waits for the other's end of stream
\* before it sends anything (orders client_first / upstream_first) gets it although its own direction is still open
P34b(t) == (NoReset(t) /\ t.err = "") => t.waitedEOF # "timeout"
\* P5: then the handler returns and every upstream connection it opened is closed
\* P0: the handler returns no error other than a failed dial (anything else would make the clauses below vacuous)
P0(t) == t.err = "" \/ t.dialErr
P5(t) == t.returned /\ \A u \in DOMAIN t.ups : t.ups[u].opened => t.ups[u].closedAfterReturn

\* P7 (UDP): while the association lives (no idle expiry within a run) all datagrams of the client go out from ONE
\* upstream socket, and the upstream's answer to every one of them comes back to the client
P7(t) == /\ t.udp.sources <= 1
         /\ \A i \in 1..Len(t.udp.sent) : \E j \in 1..Len(t.udp.acks) : t.udp.acks[j] = t.udp.sent[i].seq
\* P6 (UDP): every datagram the client sent reaches the upstream once, whole and unaltered, in order
\*     t.udp.sent[i] = [seq, n]; t.udp.recv[j] = [seq, n, intact]
P6(t) == /\ Len(t.udp.recv) = Len(t.udp.sent)
         /\ \A i \in DOMAIN t.udp.sent : i \in DOMAIN t.udp.recv =>
               (t.udp.recv[i].seq = t.udp.sent[i].seq /\ t.udp.recv[i].n = t.udp.sent[i].n /\ t.udp.recv[i].intact)
ProxyViolations(t) ==
  IF "udp" \in DOMAIN t THEN (IF P6(t) THEN {} ELSE {"P6 a datagram did not reach the upstream once, whole and in order"})
                              \cup (IF P7(t) THEN {} ELSE {"P7 (UDP) the client's datagrams did not travel over one upstream socket, or an answer of the upstream did not come back"}) ELSE
  (IF P0(t) THEN {} ELSE {"P0 the handler chain returned an error that is not a dial failure"}) \cup
  (IF P1(t) THEN {} ELSE {"P1 an upstream did not receive the client's stream exactly once in order"})
  \cup (IF P2(t) THEN {} ELSE {"P2 the client did not receive an upstream's bytes in order / completely"})
  \cup (IF P3(t) THEN {} ELSE {"P3 the client's end of stream did not reach every upstream"})
  \cup (IF P4(t) THEN {} ELSE {"P4 the upstreams' end of stream did not reach the client"})
  \cup (IF P34b(t) THEN {} ELSE {"P3b/P4b one side's end of stream did not reach the other side while the opposite direction was still open"})
  \cup (IF P5(t) THEN {} ELSE {"P5 the handler did not return, or left an upstream connection open"})
=============================================================================
