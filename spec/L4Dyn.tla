-------------------------------- MODULE L4Dyn --------------------------------
(***************************************************************************)
(* Upstreams whose dial address contains a per-connection placeholder      *)
(* (`{l4.tls.server_name}:443`, `{l4.http.host}:80` - the documented way   *)
(* to route by SNI or Host) - beyond the listed properties (C11 speaks of  *)
(* "an upstream" and its dial failures; this module is about WHICH backend *)
(* a remembered failure belongs to when one configured upstream stands for *)
(* many backends).                                                         *)
(*                                                                         *)
(* modules/l4proxy: Upstream.provision creates one peer per configured     *)
(* dial address (upstream.go, ReplaceKnown leaves connection placeholders  *)
(* in place); dialPeers resolves the placeholders per connection           *)
(* (proxy.go, repl.ReplaceAll) and counts a failed dial against that peer; *)
(* the active checker dials p.address as configured (healthchecks.go) - an *)
(* address that still contains the placeholder and so never resolves.      *)
(*                                                                         *)
(* Hosts = the backends clients may name.  Key = "template" is the code as *)
(* it is (health is kept per configured dial address), "resolved" a proxy  *)
(* that keeps it per resolved address.  Every remembered failure is        *)
(* forgotten on its own after fail_duration (Forget).                      *)
(***************************************************************************)
EXTENDS Integers, FiniteSets, TLC

CONSTANTS Hosts, MaxFails, MaxEvents, Key, Active
ASSUME MaxFails \in Nat \ {0} /\ MaxEvents \in Nat /\ Key \in {"template", "resolved"} /\ Active \in BOOLEAN

VARIABLES up,        \* up[h]: backend h accepts connections (fixed per behaviour)
          rem,       \* rem[h]: dial failures towards h that are still remembered
          adown,     \* adown[k]: the active checker's verdict for health key k is "down"
          last,      \* last[h]: outcome of the latest connection naming h: "none" | "served" | "dialfail" | "unavailable"
          wrong,     \* some connection was refused although the backend it named accepts and has no remembered failures of its own
          n          \* events so far (bound)
vars == <<up, rem, adown, last, wrong, n>>

Keys == IF Key = "template" THEN {"tmpl"} ELSE Hosts
KeyOf(h) == IF Key = "template" THEN "tmpl" ELSE h
RECURSIVE Sum(_, _)
Sum(f, S) == IF S = {} THEN 0 ELSE LET x == CHOOSE y \in S : TRUE IN f[x] + Sum(f, S \ {x})
Fails(k) == IF Key = "template" THEN Sum(rem, Hosts) ELSE rem[k]
Available(k) == Fails(k) < MaxFails /\ ~adown[k]

Init == /\ up \in [Hosts -> BOOLEAN] /\ rem = [h \in Hosts |-> 0] /\ adown = [k \in Keys |-> FALSE]
        /\ last = [h \in Hosts |-> "none"] /\ wrong = FALSE /\ n = 0

\* a client names backend h: selection looks at the health of the configured upstream, the dial goes to h
Connect(h) ==
  /\ n < MaxEvents /\ n' = n + 1
  /\ IF ~Available(KeyOf(h))
     THEN /\ last' = [last EXCEPT ![h] = "unavailable"] /\ UNCHANGED rem
          /\ wrong' = (wrong \/ (up[h] /\ rem[h] < MaxFails))
     ELSE /\ UNCHANGED wrong
          /\ IF up[h] THEN last' = [last EXCEPT ![h] = "served"] /\ UNCHANGED rem
             ELSE last' = [last EXCEPT ![h] = "dialfail"] /\ rem' = [rem EXCEPT ![h] = @ + 1]
  /\ UNCHANGED <<up, adown>>
\* fail_duration after a failure its goroutine forgets it
Forget(h) == /\ rem[h] > 0 /\ rem' = [rem EXCEPT ![h] = @ - 1] /\ UNCHANGED <<up, adown, last, wrong, n>>
\* one round of the active checker: it dials the address AS CONFIGURED - a template does not resolve, so the verdict
\* is "down" whatever the backends do; a checker that knew the resolved addresses would find each backend's state
Check(k) == /\ Active /\ n < MaxEvents /\ n' = n + 1
            /\ adown' = [adown EXCEPT ![k] = IF Key = "template" THEN TRUE ELSE ~up[k]]
            /\ UNCHANGED <<up, rem, last, wrong>>

Next == \/ \E h \in Hosts : Connect(h) \/ Forget(h)
        \/ \E k \in Keys : Check(k)
Spec == Init /\ [][Next]_vars

TypeOK == /\ up \in [Hosts -> BOOLEAN] /\ rem \in [Hosts -> 0..MaxEvents] /\ n \in 0..MaxEvents /\ wrong \in BOOLEAN
          /\ last \in [Hosts -> {"none", "served", "dialfail", "unavailable"}]
CountExact == \A h \in Hosts : rem[h] >= 0 /\ (up[h] => rem[h] = 0)
(* a backend is out of rotation only for failures of ITS OWN (what C11 says of an upstream, read per backend).      *)
(* Violated by the code as it is: a remembered failure towards one backend - or one round of the active checker -   *)
(* takes every backend the upstream stands for out of rotation.                                                      *)
NeverWronglyRefused == ~wrong
=============================================================================
