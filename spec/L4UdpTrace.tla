----------------------------- MODULE L4UdpTrace -----------------------------
EXTENDS L4UdpAbs, Json, TLCExt
Traces == ndJsonDeserialize("udp_traces.ndjson")
Judge(tr) == LET v == UdpViolations(tr.hist, tr.complete) IN
             IF v = {} THEN TRUE ELSE PrintT(<<"VBAD", ToJson([id |-> tr.id, clauses |-> v])>>)
VARIABLE k
TInit == k = 0
TNext == k < Len(Traces) /\ Judge(Traces[k + 1]) /\ k' = k + 1
Done == (k = Len(Traces)) => PrintT(<<"VDONE", k>>)
=============================================================================
