------------------------------- MODULE L4Proxy -------------------------------
(***************************************************************************)
(* The duplex relay of modules/l4proxy/proxy.go Handler.proxy (C03).       *)
(*                                                                         *)
(* Processes (one action per blocking operation of the Go code):           *)
(*   Client     writes chunks 1..NC, then half-closes, closes or resets    *)
(*   Up(u)      upstream server: reads, writes chunks 1..NU, then          *)
(*              half-closes, closes or resets                              *)
(*   Pump       io.Copy(io.Discard, downTee): one read from the client is  *)
(*              written to EVERY upstream in order (chained TeeReaders);   *)
(*              at EOF/error: downConnClosedCh <- {}; downClosed;          *)
(*              CloseWrite every upstream                    (293-314)     *)
(*   Copier(u)  io.Copy(down, up); wg.Done                   (273-288)     *)
(*   Main       wg.Wait(); CloseWrite(down); <-downConnClosedCh; return;   *)
(*              deferred: close every upstream connection (187-191,318-27) *)
(*                                                                         *)
(* Streams are sequences of chunk numbers; a TCP direction is a FIFO plus  *)
(* a state "open" | "fin" (writer half-closed: reader gets EOF after the   *)
(* queued data) | "rst" (reader gets an error, queued data is lost).       *)
(***************************************************************************)
EXTENDS Integers, Sequences, FiniteSets, TLC

CONSTANTS Ups,      \* upstream connections of the selected upstream (its peers)
          NC, NU,   \* chunks the client / each upstream wants to send
          ClientEnd,  \* how the client finishes: "fin" | "close" | "rst"
          UpEnd,      \* how upstreams finish:    "fin" | "close" | "rst"
          DownCanHalfClose,  \* the downstream connection the proxy holds offers CloseWrite (FALSE: it is a wrapper that
                             \* hides it - what a throttle / proxy_protocol handler in front made it before the repairs)
          ClientWaitsForEOF  \* the client sends only after it has seen the upstreams' end of stream

VARIABLES c2p, c2pSt,        \* client -> proxy direction
          p2c, p2cSt,        \* proxy -> client
          p2u, p2uSt,        \* proxy -> upstream u
          u2p, u2pSt,        \* upstream u -> proxy
          cSent, uSent,      \* chunks written so far by client / upstream u
          cGot,              \* u -> chunks of u the client has read (demultiplexed by origin)
          uGot,              \* u -> chunks of the client upstream u has read
          cEOF, uEOF,        \* reader saw end of stream
          pump, copier, main, wg, downCh, upClosed
vars == <<c2p, c2pSt, p2c, p2cSt, p2u, p2uSt, u2p, u2pSt, cSent, uSent, cGot, uGot, cEOF, uEOF,
          pump, copier, main, wg, downCh, upClosed>>

Init == /\ c2p = <<>> /\ c2pSt = "open" /\ p2c = <<>> /\ p2cSt = "open"
        /\ p2u = [u \in Ups |-> <<>>] /\ p2uSt = [u \in Ups |-> "open"]
        /\ u2p = [u \in Ups |-> <<>>] /\ u2pSt = [u \in Ups |-> "open"]
        /\ cSent = 0 /\ uSent = [u \in Ups |-> 0]
        /\ cGot = [u \in Ups |-> <<>>] /\ uGot = [u \in Ups |-> <<>>]
        /\ cEOF = FALSE /\ uEOF = [u \in Ups |-> FALSE]
        /\ pump = "run" /\ copier = [u \in Ups |-> "run"] /\ main = "wait"
        /\ wg = Cardinality(Ups) /\ downCh = 0 /\ upClosed = [u \in Ups |-> FALSE]

\* ---- environment ----
ClientWrite == /\ cSent < NC /\ c2pSt = "open" /\ (ClientWaitsForEOF => cEOF)
               /\ cSent' = cSent + 1 /\ c2p' = Append(c2p, cSent + 1)
               /\ UNCHANGED <<c2pSt, p2c, p2cSt, p2u, p2uSt, u2p, u2pSt, uSent, cGot, uGot, cEOF, uEOF, pump, copier, main, wg, downCh, upClosed>>
ClientFinish == /\ cSent = NC /\ c2pSt = "open" /\ (ClientWaitsForEOF => cEOF)
                /\ c2pSt' = (IF ClientEnd = "rst" THEN "rst" ELSE "fin")
                /\ c2p' = (IF ClientEnd = "rst" THEN <<>> ELSE c2p)
                \* a full close / reset also ends the client's reading side
                /\ p2cSt' = (IF ClientEnd = "fin" THEN p2cSt ELSE "rst")
                /\ UNCHANGED <<p2c, p2u, p2uSt, u2p, u2pSt, cSent, uSent, cGot, uGot, cEOF, uEOF, pump, copier, main, wg, downCh, upClosed>>
ClientRead == /\ p2c # <<>> /\ p2cSt # "rst"
              /\ LET x == Head(p2c) IN cGot' = [cGot EXCEPT ![x.u] = Append(@, x.n)]
              /\ p2c' = Tail(p2c)
              /\ UNCHANGED <<c2p, c2pSt, p2cSt, p2u, p2uSt, u2p, u2pSt, cSent, uSent, uGot, cEOF, uEOF, pump, copier, main, wg, downCh, upClosed>>
ClientSeesEOF == /\ p2c = <<>> /\ p2cSt = "fin" /\ ~cEOF /\ cEOF' = TRUE
                 /\ UNCHANGED <<c2p, c2pSt, p2c, p2cSt, p2u, p2uSt, u2p, u2pSt, cSent, uSent, cGot, uGot, uEOF, pump, copier, main, wg, downCh, upClosed>>
UpWrite(u) == /\ uSent[u] < NU /\ u2pSt[u] = "open"
              /\ uSent' = [uSent EXCEPT ![u] = @ + 1]
              /\ u2p' = [u2p EXCEPT ![u] = Append(@, uSent[u] + 1)]
              /\ UNCHANGED <<c2p, c2pSt, p2c, p2cSt, p2u, p2uSt, u2pSt, cSent, cGot, uGot, cEOF, uEOF, pump, copier, main, wg, downCh, upClosed>>
UpFinish(u) == /\ uSent[u] = NU /\ u2pSt[u] = "open"
               /\ u2pSt' = [u2pSt EXCEPT ![u] = (IF UpEnd = "rst" THEN "rst" ELSE "fin")]
               /\ u2p' = (IF UpEnd = "rst" THEN [u2p EXCEPT ![u] = <<>>] ELSE u2p)
               /\ p2uSt' = (IF UpEnd = "fin" THEN p2uSt ELSE [p2uSt EXCEPT ![u] = "rst"])
               /\ UNCHANGED <<c2p, c2pSt, p2c, p2cSt, p2u, cSent, uSent, cGot, uGot, cEOF, uEOF, pump, copier, main, wg, downCh, upClosed>>
UpRead(u) == /\ p2u[u] # <<>> /\ p2uSt[u] # "rst"
             /\ uGot' = [uGot EXCEPT ![u] = Append(@, Head(p2u[u]))]
             /\ p2u' = [p2u EXCEPT ![u] = Tail(@)]
             /\ UNCHANGED <<c2p, c2pSt, p2c, p2cSt, p2uSt, u2p, u2pSt, cSent, uSent, cGot, cEOF, uEOF, pump, copier, main, wg, downCh, upClosed>>
UpSeesEOF(u) == /\ p2u[u] = <<>> /\ p2uSt[u] = "fin" /\ ~uEOF[u] /\ uEOF' = [uEOF EXCEPT ![u] = TRUE]
                /\ UNCHANGED <<c2p, c2pSt, p2c, p2cSt, p2u, p2uSt, u2p, u2pSt, cSent, uSent, cGot, uGot, cEOF, pump, copier, main, wg, downCh, upClosed>>

\* ---- the proxy ----
\* Pump: one chunk from the client to every upstream (a write to a reset upstream fails: the
\* TeeReader returns the error and the copy ends)
PumpCopy == /\ pump = "run" /\ c2p # <<>> /\ c2pSt # "rst"
            /\ IF \E u \in Ups : p2uSt[u] # "open"
               THEN /\ pump' = "closing" /\ UNCHANGED p2u
               ELSE /\ p2u' = [u \in Ups |-> Append(p2u[u], Head(c2p))] /\ UNCHANGED pump
            /\ c2p' = Tail(c2p)
            /\ UNCHANGED <<c2pSt, p2c, p2cSt, p2uSt, u2p, u2pSt, cSent, uSent, cGot, uGot, cEOF, uEOF, copier, main, wg, downCh, upClosed>>
PumpEnd == /\ pump = "run" /\ ((c2p = <<>> /\ c2pSt = "fin") \/ c2pSt = "rst")
           /\ pump' = "closing"
           /\ UNCHANGED <<c2p, c2pSt, p2c, p2cSt, p2u, p2uSt, u2p, u2pSt, cSent, uSent, cGot, uGot, cEOF, uEOF, copier, main, wg, downCh, upClosed>>
\* downConnClosedCh <- {}; downClosed; CloseWrite every upstream
PumpShutdown == /\ pump = "closing"
                /\ downCh' = 1
                /\ p2uSt' = [u \in Ups |-> IF p2uSt[u] = "open" THEN "fin" ELSE p2uSt[u]]
                /\ pump' = "done"
                /\ UNCHANGED <<c2p, c2pSt, p2c, p2cSt, p2u, u2p, u2pSt, cSent, uSent, cGot, uGot, cEOF, uEOF, copier, main, wg, upClosed>>
CopierCopy(u) == /\ copier[u] = "run" /\ u2p[u] # <<>> /\ u2pSt[u] # "rst"
                 /\ IF p2cSt # "open"
                    THEN /\ copier' = [copier EXCEPT ![u] = "done"] /\ wg' = wg - 1 /\ UNCHANGED p2c
                    ELSE /\ p2c' = Append(p2c, [u |-> u, n |-> Head(u2p[u])]) /\ UNCHANGED <<copier, wg>>
                 /\ u2p' = [u2p EXCEPT ![u] = Tail(@)]
                 /\ UNCHANGED <<c2p, c2pSt, p2cSt, p2u, p2uSt, u2pSt, cSent, uSent, cGot, uGot, cEOF, uEOF, pump, main, downCh, upClosed>>
CopierEnd(u) == /\ copier[u] = "run" /\ ((u2p[u] = <<>> /\ u2pSt[u] = "fin") \/ u2pSt[u] = "rst" \/ upClosed[u])
                /\ copier' = [copier EXCEPT ![u] = "done"] /\ wg' = wg - 1
                /\ UNCHANGED <<c2p, c2pSt, p2c, p2cSt, p2u, p2uSt, u2p, u2pSt, cSent, uSent, cGot, uGot, cEOF, uEOF, pump, main, downCh, upClosed>>
\* Main: wg.Wait(); CloseWrite(down)
MainHalfClose == /\ main = "wait" /\ wg = 0
                 /\ p2cSt' = (IF p2cSt = "open" /\ DownCanHalfClose THEN "fin" ELSE p2cSt)
                 /\ main' = "join"
                 /\ UNCHANGED <<c2p, c2pSt, p2c, p2u, p2uSt, u2p, u2pSt, cSent, uSent, cGot, uGot, cEOF, uEOF, pump, copier, wg, downCh, upClosed>>
\* <-downConnClosedCh; return; deferred close of every upstream connection
MainReturn == /\ main = "join" /\ downCh = 1
              /\ main' = "returned"
              /\ upClosed' = [u \in Ups |-> TRUE]
              /\ p2uSt' = [u \in Ups |-> IF p2uSt[u] = "open" THEN "fin" ELSE p2uSt[u]]
              /\ UNCHANGED <<c2p, c2pSt, p2c, p2cSt, p2u, u2p, u2pSt, cSent, uSent, cGot, uGot, cEOF, uEOF, pump, copier, wg, downCh>>

\* Server.handle: the connection is closed once the handler chain has returned
ServerClose == /\ main = "returned" /\ p2cSt = "open" /\ p2cSt' = "fin"
               /\ UNCHANGED <<c2p, c2pSt, p2c, p2u, p2uSt, u2p, u2pSt, cSent, uSent, cGot, uGot, cEOF, uEOF, pump, copier, main, wg, downCh, upClosed>>

Next == \/ ServerClose \/ ClientWrite \/ ClientFinish \/ ClientRead \/ ClientSeesEOF
        \/ \E u \in Ups : UpWrite(u) \/ UpFinish(u) \/ UpRead(u) \/ UpSeesEOF(u) \/ CopierCopy(u) \/ CopierEnd(u)
        \/ PumpCopy \/ PumpEnd \/ PumpShutdown \/ MainHalfClose \/ MainReturn
Spec == Init /\ [][Next]_vars /\ WF_vars(Next)

\* ---- properties (C03) ----
IsPrefixOfCount(s, n) == Len(s) <= n /\ \A i \in 1..Len(s) : s[i] = i
\* every upstream reads a prefix of the client's stream: exactly once, in order
UpExact == \A u \in Ups : IsPrefixOfCount(uGot[u], cSent)
\* the client reads, per upstream, a prefix of what that upstream sent
DownOrdered == \A u \in Ups : IsPrefixOfCount(cGot[u], uSent[u])
\* with graceful ends on both sides nothing is lost, both sides see end of stream,
\* the handler returns and every upstream connection is closed
Graceful == ClientEnd = "fin" /\ UpEnd = "fin"
Complete == /\ main = "returned"
            /\ \A u \in Ups : upClosed[u]
            /\ Graceful => /\ \A u \in Ups : Len(uGot[u]) = NC /\ uEOF[u] /\ Len(cGot[u]) = NU
                           /\ cEOF
Cleanup == <>[]Complete
\* half-close: the client's end of stream reaches the upstreams although they have not finished
HalfCloseSeen == (ClientEnd = "fin" /\ main = "returned") => \A u \in Ups : (p2uSt[u] # "open")
=============================================================================
