--------------------------- MODULE L4ProxyProtoGrid ---------------------------
EXTENDS L4ProxyProto, Json
CONSTANT Tier
RecvCases == { c \in [kind : {"recv"}, ver : {1, 2}, fam : {"TCP4", "TCP6", "UNKNOWN", "LOCAL"}, addr : {1, 2, 3},
                      peer : {"any", "in1", "out1", "inSpecific", "inBroad", "out2", "in6", "out6"}, split : {"whole", "hdr", "mid", "byte"},
                      pre : {"none", "part", "hdr", "hdr1", "all"}, payload : {0, 1, 5000, 20000}, layout : {"nested", "flat"}] :
                 /\ (c.fam = "UNKNOWN" => c.ver = 1) /\ (c.fam = "LOCAL" => c.ver = 2)
                 /\ (c.fam \in {"UNKNOWN", "LOCAL"} => c.addr = 1)
                 \* flat: PROXY route, address route and a route that needs more data at ONE level (the address route
                 \* is first evaluated on the socket's addresses); only where the header is honoured and declares addresses
                 /\ (c.layout = "flat" => (c.pre = "none" /\ c.fam \in {"TCP4", "TCP6"} /\ c.peer \notin {"out1", "out2", "out6"} /\ c.payload > 0)) }
SendCases == { s \in [kind : {"send"}, ver : {"v1", "v2"}, via : {"direct", "received"}, fam : {"TCP4", "TCP6"}, addr : {1, 2, 3},
                      peers : {1, 2}, payload : {0, 1, 5000}, pre : {"none", "part"}] :
                 s.pre = "part" => s.payload >= 3 }
QuickCases == { c \in RecvCases : c.payload \in {1, 5000} /\ c.addr \in {1, 3} /\ c.split # "byte" }
              \cup { c \in RecvCases : c.split = "byte" /\ c.payload = 1 /\ c.addr = 1 /\ c.pre = "none" }
              \cup { s \in SendCases : s.payload \in {0, 5000} /\ s.addr \in {1, 3} }
VARIABLE g
Init == g \in (IF Tier = "quick" THEN QuickCases ELSE RecvCases \cup SendCases)
Next == UNCHANGED g
Emit == PrintT(<<"VOUT", ToJson(g)>>)
=============================================================================
