------------------------------- MODULE L4Health -------------------------------
(***************************************************************************)
(* Passive health accounting, retries and connection limits of the proxy   *)
(* handler (C11): modules/l4proxy/proxy.go Handle / dialPeers /            *)
(* countFailure, loadbalancing.go tryAgain, upstream.go healthy / full.    *)
(* Integer ticks.                                                          *)
(*                                                                         *)
(* One upstream per peer here (the accounting is per peer).  Actions:      *)
(*   Attempt(c)   a connection handler selects an upstream (policy first), *)
(*                dials it; a refused dial counts a failure and arms a     *)
(*                forgetter FailDur ticks later; then tryAgain             *)
(*   Forget       a forgetter fires: fails--                               *)
(*   Outage(p) / Recover(p)   the environment                              *)
(*   EndConn(c)   a proxied connection ends: conns--                       *)
(*   Tick         time passes (never past a due forgetter or retry)        *)
(***************************************************************************)
EXTENDS Integers, Sequences, FiniteSets, TLC

CONSTANTS Peers,       \* sequence of peer names, in pool order
          FailDur, MaxFails, TryDur, TryInt, MaxConns,
          NConns, MaxNow

VARIABLES now, down, fails, forget, failLog, conns,
          st        \* connection c -> [pc, start, due, lastErr, peer]
vars == <<now, down, fails, forget, failLog, conns, st>>
P == 1..Len(Peers)
C == 1..NConns

Init == /\ now = 0 /\ down \in SUBSET P
        /\ fails = [p \in P |-> 0] /\ forget = {} /\ failLog = {}
        /\ conns = [p \in P |-> 0]
        /\ st = [c \in C |-> [pc |-> "idle", start |-> 0, due |-> 0, lastErr |-> "", peer |-> 0]]

Healthy(p) == MaxFails = 0 \/ fails[p] < MaxFails
Full(p) == MaxConns # 0 /\ conns[p] >= MaxConns
Avail == { p \in P : Healthy(p) /\ ~Full(p) }

Start(c) == /\ st[c].pc = "idle"
            /\ st' = [st EXCEPT ![c] = [pc |-> "try", start |-> now, due |-> now, lastErr |-> "", peer |-> 0]]
            /\ UNCHANGED <<now, down, fails, forget, failLog, conns>>

\* tryAgain: give up once try_duration has elapsed, otherwise come back after try_interval
After(c, err) == IF now - st[c].start >= TryDur
                 THEN [st[c] EXCEPT !.pc = "failed", !.lastErr = err]
                 ELSE [st[c] EXCEPT !.pc = "try", !.due = now + TryInt, !.lastErr = err]

Attempt(c) ==
  /\ st[c].pc = "try" /\ st[c].due <= now
  /\ IF Avail = {}
     THEN /\ st' = [st EXCEPT ![c] = After(c, IF st[c].lastErr = "" THEN "none" ELSE st[c].lastErr)]
          /\ UNCHANGED <<fails, forget, failLog, conns>>
     ELSE LET p == CHOOSE q \in Avail : \A r \in Avail : q <= r IN     \* policy "first"
          IF p \in down
          THEN /\ fails' = [fails EXCEPT ![p] = IF FailDur > 0 THEN @ + 1 ELSE @]
               /\ forget' = IF FailDur > 0 THEN forget \cup {[p |-> p, at |-> now + FailDur, id |-> Cardinality(failLog)]} ELSE forget
               /\ failLog' = IF FailDur > 0 THEN failLog \cup {[p |-> p, t |-> now, id |-> Cardinality(failLog)]} ELSE failLog
               /\ st' = [st EXCEPT ![c] = After(c, "refused")]
               /\ UNCHANGED conns
          ELSE /\ conns' = [conns EXCEPT ![p] = @ + 1]
               /\ st' = [st EXCEPT ![c] = [st[c] EXCEPT !.pc = "open", !.peer = p]]
               /\ UNCHANGED <<fails, forget, failLog>>
  /\ UNCHANGED <<now, down>>

EndConn(c) == /\ st[c].pc = "open"
              /\ conns' = [conns EXCEPT ![st[c].peer] = @ - 1]
              /\ st' = [st EXCEPT ![c].pc = "closed"]
              /\ UNCHANGED <<now, down, fails, forget, failLog>>

Forget == \E f \in forget : /\ f.at <= now
                            /\ fails' = [fails EXCEPT ![f.p] = @ - 1]
                            /\ forget' = forget \ {f}
                            /\ UNCHANGED <<now, down, failLog, conns, st>>
Outage(p) == p \notin down /\ down' = down \cup {p} /\ UNCHANGED <<now, fails, forget, failLog, conns, st>>
Recover(p) == p \in down /\ down' = down \ {p} /\ UNCHANGED <<now, fails, forget, failLog, conns, st>>
Urgent == (\E f \in forget : f.at <= now) \/ (\E c \in C : st[c].pc = "try" /\ st[c].due <= now)
Tick == /\ ~Urgent /\ now < MaxNow /\ now' = now + 1
        /\ UNCHANGED <<down, fails, forget, failLog, conns, st>>

Next == \/ \E c \in C : Start(c) \/ Attempt(c) \/ EndConn(c)
        \/ Forget \/ Tick \/ \E p \in P : Outage(p) \/ Recover(p)
Spec == Init /\ [][Next]_vars

\* ---- properties (C11) ----
\* the failure counter is exactly the number of failures remembered from the last FailDur ticks
Remembered(p) == Cardinality({ f \in failLog : f.p = p /\ now - f.t < FailDur })
Pending(p) == Cardinality({ f \in forget : f.p = p /\ f.at <= now })
CountExact == \A p \in P : fails[p] = Remembered(p) + Pending(p)
NeverNegative == \A p \in P : fails[p] >= 0 /\ conns[p] >= 0
\* connection limit
LimitRespected == MaxConns > 0 => \A p \in P : conns[p] <= MaxConns
ConnsExact == \A p \in P : conns[p] = Cardinality({ c \in C : st[c].pc = "open" /\ st[c].peer = p })
\* retries: a handler gives up only when try_duration has elapsed, with the last error
GiveUpOnlyLate == \A c \in C : st[c].pc = "failed" => (now - st[c].start >= TryDur /\ st[c].lastErr # "")
=============================================================================
