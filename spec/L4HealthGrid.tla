------------------------------ MODULE L4HealthGrid ------------------------------
(* Scenario grid of the health / retry / limit conformance runs (C11), enumerated by TLC.
   Durations in ms. A window script is a sequence of steps: "f" = one connection whose dial
   fails, a number = wait that many ms, "s" = sample the counters. *)
EXTENDS Integers, Sequences, TLC, Json
CONSTANT Tier
\* script 7: passive and active checks together (the peer recovers, and the active check notices, inside the window)
\* M = 0: max_fails is left out of the configuration (documented default: 1)
Window == [kind : {"window"}, F : {300, 600}, M : {0, 1, 2, 3}, script : {1, 2, 3, 4, 5, 6}]
          \cup [kind : {"window"}, F : {600}, M : {1}, script : {7}]
Retry  == [kind : {"retry"}, D : {0, 150, 400, 1000}, I : {50, 120, 250}, passive : {FALSE, TRUE}, ups : {1, 2}]
\* the limit holds whatever policy selects (the clauses L1-L3 do not depend on who is chosen)
Limit  == [kind : {"limit"}, max : {1, 2}, ups : {1, 2}, via : {"max_connections", "unhealthy_connection_count"},
           policy : {"first", "round_robin", "least_conn", "random"}]
          \cup [kind : {"limit"}, max : {1, 2}, ups : {1}, via : {"partial_dial"}, policy : {"first"}]
          \* deadfirst: an upstream that refuses every dial is listed before the serving one; connections are retried
          \cup [kind : {"limit"}, max : {1, 2}, ups : {1}, via : {"deadfirst"}, policy : {"first", "round_robin", "least_conn", "random"}]
\* hport: the active checks go to a separate health port (`port`); the service port keeps accepting throughout
\* defint: no interval configured (documented default: 30 s); only the check made when the handler starts is observed
Active == [kind : {"active"}, interval : {60, 150}, hport : BOOLEAN, defint : {FALSE}]
          \cup [kind : {"active"}, interval : {60}, hport : {FALSE}, defint : {TRUE}]
\* fresh: a peer marked down by a handler that is then unloaded; the backend returns; a new handler for the same dial
\* address (written host:port or network/host:port) starts with a clean peer
Fresh == [kind : {"fresh"}, form : {"plain", "net"}]
Grid == Window \cup Retry \cup Limit \cup Active \cup Fresh
QuickGrid == { g \in Grid : (g.kind = "retry" => g.D < 1000 /\ g.I # 250) /\ (g.kind = "window" => (g.F = 300 \/ g.script = 7)) /\ (g.kind = "active" => g.interval = 60) }
VARIABLE g
Init == g \in (IF Tier = "quick" THEN QuickGrid ELSE Grid)
Next == UNCHANGED g
Emit == PrintT(<<"VOUT", ToJson(g)>>)
=============================================================================
