------------------------------ MODULE L4UdpGrid ------------------------------
(* Scenario grid of the free-running UDP conformance runs (C09), enumerated by TLC. *)
EXTENDS Integers, TLC, Json
CONSTANT Tier
Grid == [clients : {1, 2, 3}, perClient : {1, 3, 8, 24}, reads : {1, 2, 5, 100},
         size : {16, 100, 9000}, buf : {64, 9000}, pace : {0, 1}, echo : {TRUE}]
QuickGrid == { g \in Grid : g.perClient \in {3, 24} /\ g.reads \in {1, 5, 100} /\ g.size \in {100, 9000} /\ g.clients \in {1, 3} }
VARIABLE g
Init == g \in (IF Tier = "quick" THEN QuickGrid ELSE Grid)
Next == UNCHANGED g
Emit == PrintT(<<"VOUT", ToJson(g)>>)
=============================================================================
