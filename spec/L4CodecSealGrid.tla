--------------------------- MODULE L4CodecSealGrid ---------------------------
(* Enumerates the sealed-message cases of one type (one TLC state per case). *)
EXTENDS L4Codec, Json
CONSTANTS Type
VARIABLE g
Init == g \in SealCases(Type)
Next == UNCHANGED g
Emit == PrintT(<<"VOUT", ToJson(g)>>)
=============================================================================
