------------------------------- MODULE L4LBSeq -------------------------------
EXTENDS L4LB, Json

(***************************************************************************)
(* Sequences of selections with ONE policy instance while upstreams go up  *)
(* and down: round_robin (code-shaped: the `robin' counter) and ip_hash.   *)
(***************************************************************************)
CONSTANTS N,        \* pool size
          MaxSteps
VARIABLES up,       \* availability vector
          robin,    \* RoundRobinSelection.robin
          steps     \* history: [up, rr] per selection (rr = round_robin's result, 0 = none)
vars == <<up, robin, steps>>

SInit == up \in [1..N -> BOOLEAN] /\ robin = 0 /\ steps = <<>>
\* RoundRobinSelection.Select: up to n times { robin++; host := pool[robin % n]; available? }
RECURSIVE RRFind(_, _, _)
RRFind(r, u, tries) == IF tries = 0 THEN [res |-> 0, robin |-> r]
                       ELSE LET r1 == r + 1
                                idx == (r1 % N) + 1 IN       \* Go index r1 % n, 1-based here
                            IF u[idx] THEN [res |-> idx, robin |-> r1] ELSE RRFind(r1, u, tries - 1)
Select == /\ Len(steps) < MaxSteps
          /\ LET f == RRFind(robin, up, N) IN
             /\ robin' = f.robin
             /\ steps' = Append(steps, [up |-> up, rr |-> f.res])
          /\ UNCHANGED up
Flip(i) == /\ Len(steps) < MaxSteps /\ up' = [up EXCEPT ![i] = ~@] /\ UNCHANGED <<robin, steps>>
SNext == Select \/ \E i \in 1..N : Flip(i)
SSpec == SInit /\ [][SNext]_vars

RRInv == RRok(steps)
EmitSeq == (Len(steps) = MaxSteps) => PrintT(<<"BEH", ToJson([n |-> N, steps |-> steps])>>)
=============================================================================
