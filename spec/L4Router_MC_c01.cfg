\* C01: shipped wrapping handlers in two-route lists with a one-route subroute
SPECIFICATION Spec
CONSTANTS
  Chunk = 512
  Limit = 2048
  StreamLens <- SLReal
  PullSizes <- PSReal
  PullFixed = TRUE
  MaxRoutes = 2
  MaxSubRoutes = 1
  Shapes <- ShapesC01
  SubShapes <- SubShapesC01
  WrapMode = "handover"
INVARIANTS TypeOK PropsAtEnd Emit
CHECK_DEADLOCK FALSE
