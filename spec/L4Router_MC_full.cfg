\* buffer-exhaustion scope: one route that stays undecided for long, streams beyond the limit
SPECIFICATION Spec
CONSTANTS
  Chunk = 2
  Limit = 8
  StreamLens <- SL11
  PullSizes <- PS12
  PullFixed = FALSE
  MaxRoutes = 1
  MaxSubRoutes = 0
  Shapes <- ShapesLong
  SubShapes <- SubShapesSmall
  WrapMode = "handover"
INVARIANTS TypeOK PropsHold Emit
CHECK_DEADLOCK FALSE
