------------------------------- MODULE L4Codec -------------------------------
(***************************************************************************)
(* Wire layouts of the exported wire-message types of the OpenVPN,         *)
(* WireGuard, Winbox and RDP modules (C18), as data: a layout is a         *)
(* sequence of fields [name, w, ord]; w is the width in bytes (0 = the     *)
(* variable-length tail or body), ord is "be" / "le" for numbers and       *)
(* "raw" for byte strings.  An abstract message gives every field its      *)
(* VALUE as a sequence of bytes, most significant byte first for numbers;  *)
(* Encode(T, m) is the reference serialisation.  Sources: the layouts      *)
(* documented next to each type in the repository (MS-RDPBCGR 2.2.1.1,     *)
(* RFC 1006 TPKT, X.224; WireGuard protocol paper 5.4; OpenVPN protocol /  *)
(* tls-crypt-v2.txt; MikroTik Winbox chunking).                            *)
(*                                                                         *)
(* The clauses (CodecViolations) are the inverse laws and the length rule: *)
(*   K1  parse(serialise(m)) = m for every well-formed message m           *)
(*   K2  serialise(parse(b)) = b for every byte string b the parser accepts*)
(*   K3  a byte string whose length the layout excludes is rejected        *)
(* Agreement of the real serialiser with Encode is counted, not demanded   *)
(* (the property speaks of inverses; C14 judges what the matchers accept). *)
(***************************************************************************)
EXTENDS Integers, Sequences, FiniteSets, TLC

F(n, w, o) == [name |-> n, w |-> w, ord |-> o]
Layout(T) ==
  CASE T = "rdp.TPKTHeader"  -> << F("Version", 1, "be"), F("Reserved", 1, "be"), F("Length", 2, "be") >>
    [] T = "rdp.X224Crq"     -> << F("Length", 1, "be"), F("TypeCredit", 1, "be"), F("DstRef", 2, "be"), F("SrcRef", 2, "be"), F("ClassOptions", 1, "be") >>
    [] T = "rdp.RDPNegReq"   -> << F("Type", 1, "le"), F("Flags", 1, "le"), F("Length", 2, "le"), F("Protocols", 4, "le") >>
    [] T = "rdp.RDPCorrInfo" -> << F("Type", 1, "le"), F("Flags", 1, "le"), F("Length", 2, "le"), F("Identity", 16, "raw"), F("Reserved", 16, "raw") >>
    [] T = "rdp.RDPToken"    -> << F("Version", 1, "be"), F("Reserved", 1, "be"), F("Length", 2, "be"), F("LengthIndicator", 1, "be"), F("TypeCredit", 1, "be"),
                                   F("DstRef", 2, "be"), F("SrcRef", 2, "be"), F("ClassOptions", 1, "be"), F("Optional", 0, "raw") >>
    [] T = "wireguard.MessageInitiation" -> << F("Type", 4, "le"), F("Sender", 4, "le"), F("Ephemeral", 32, "raw"), F("Static", 48, "raw"), F("Timestamp", 28, "raw"),
                                               F("MAC1", 16, "raw"), F("MAC2", 16, "raw") >>
    [] T = "wireguard.MessageTransport"  -> << F("Type", 4, "le"), F("Receiver", 4, "le"), F("Counter", 8, "le"), F("Content", 0, "raw") >>
    \* OpenVPN: the first byte packs Opcode (high 5 bits) and KeyID (low 3 bits): field "OpKey", value <<opcode, keyid>>
    [] T = "openvpn.MessageHeader" -> << F("OpKey", 1, "opkey") >>
    [] T = "openvpn.MessagePlain"  -> << F("OpKey", 1, "opkey"), F("LocalSessionID", 8, "be"), F("PrevPacketIDsCount", 1, "be"), F("ThisPacketID", 4, "be") >>
    [] T = "openvpn.MessageAuth"   -> << F("OpKey", 1, "opkey"), F("LocalSessionID", 8, "be"), F("HMAC", 0, "raw"), F("ReplayPacketID", 4, "be"), F("ReplayTimestamp", 4, "be"),
                                         F("PrevPacketIDsCount", 1, "be"), F("ThisPacketID", 4, "be") >>
    [] T = "openvpn.MessageCrypt"  -> << F("OpKey", 1, "opkey"), F("LocalSessionID", 8, "be"), F("ReplayPacketID", 4, "be"), F("ReplayTimestamp", 4, "be"),
                                         F("HMAC", 32, "raw"), F("Encrypted", 5, "raw") >>
    \* WKc: tag, encrypted client key (+ metadata), total length
    [] T = "openvpn.WrappedKey"    -> << F("HMAC", 32, "raw"), F("Encrypted", 0, "raw"), F("Length", 2, "len") >>
    [] T = "openvpn.MessageCrypt2" -> << F("OpKey", 1, "opkey"), F("LocalSessionID", 8, "be"), F("ReplayPacketID", 4, "be"), F("ReplayTimestamp", 4, "be"),
                                         F("HMAC", 32, "raw"), F("Encrypted", 5, "raw"), F("WKHMAC", 32, "raw"), F("WKEncrypted", 0, "raw"), F("WKLength", 2, "len") >>
    \* Winbox: Username, 0x00, public key (32), parity - cut into chunks [length, type (06 first, FF then), <= 255 bytes]
    [] T = "winbox.MessageAuth"    -> << F("Username", 0, "raw"), F("PublicKeyBytes", 32, "raw"), F("PublicKeyParity", 1, "be") >>
Types == {"rdp.TPKTHeader", "rdp.X224Crq", "rdp.RDPNegReq", "rdp.RDPCorrInfo", "rdp.RDPToken", "wireguard.MessageInitiation", "wireguard.MessageTransport",
          "openvpn.MessageHeader", "openvpn.MessagePlain", "openvpn.MessageAuth", "openvpn.MessageCrypt", "openvpn.WrappedKey", "openvpn.MessageCrypt2",
          "winbox.MessageAuth"}

RECURSIVE Rev(_)
Rev(s) == IF s = <<>> THEN <<>> ELSE Rev(Tail(s)) \o <<Head(s)>>
RECURSIVE SumW(_, _)
SumW(L, i) == IF i > Len(L) THEN 0 ELSE L[i].w + SumW(L, i + 1)
Fixed(T) == SumW(Layout(T), 1)                       \* bytes of the fixed-width fields
VarFields(T) == { i \in DOMAIN Layout(T) : Layout(T)[i].w = 0 }
RECURSIVE SumVar(_, _, _)
SumVar(T, m, i) == IF i > Len(Layout(T)) THEN 0
                   ELSE (IF Layout(T)[i].w = 0 THEN Len(m[Layout(T)[i].name]) ELSE 0) + SumVar(T, m, i + 1)

\* two bytes, most significant first
U16(n) == << n \div 256, n % 256 >>
\* the flat (unchunked) encoding
RECURSIVE Flat(_, _, _, _)
Flat(T, m, i, total) ==
  IF i > Len(Layout(T)) THEN <<>>
  ELSE LET f == Layout(T)[i]
           v == m[f.name]
           b == CASE f.ord = "be" -> v [] f.ord = "le" -> Rev(v) [] f.ord = "raw" -> v
                  [] f.ord = "opkey" -> << (v[1] * 8 + v[2]) % 256 >>
                  [] f.ord = "len" -> (IF v = <<>> THEN U16(total) ELSE v) IN    \* <<>> = the consistent value
       b \o Flat(T, m, i + 1, total)
\* the length the WKc length field counts: the wrapped key alone
WKTotal(T, m) == IF T = "openvpn.WrappedKey" THEN 32 + Len(m.Encrypted) + 2 ELSE IF T = "openvpn.MessageCrypt2" THEN 32 + Len(m.WKEncrypted) + 2 ELSE 0
RECURSIVE Chunks(_, _)
Chunks(s, first) == IF s = <<>> THEN <<>>
                    ELSE LET n == IF Len(s) > 255 THEN 255 ELSE Len(s) IN
                         << n, IF first THEN 6 ELSE 255 >> \o SubSeq(s, 1, n) \o Chunks(SubSeq(s, n + 1, Len(s)), FALSE)
Encode(T, m) == IF T = "winbox.MessageAuth" THEN Chunks(m.Username \o <<0>> \o m.PublicKeyBytes \o m.PublicKeyParity, TRUE)
                ELSE Flat(T, m, 1, WKTotal(T, m))

\* ---- which lengths the layout admits ----
DigestSizes == {16, 20, 28, 32, 36, 48, 64}
LenOK(T, n) ==
  CASE T \in {"rdp.TPKTHeader", "rdp.X224Crq", "rdp.RDPNegReq", "rdp.RDPCorrInfo", "wireguard.MessageInitiation", "openvpn.MessageHeader", "openvpn.MessagePlain", "openvpn.MessageCrypt"}
         -> n = Fixed(T)
    [] T \in {"rdp.RDPToken", "wireguard.MessageTransport"} -> n >= Fixed(T)
    [] T = "openvpn.MessageAuth" -> (n - Fixed(T)) \in DigestSizes
    [] T = "openvpn.WrappedKey" -> n >= 32 + 256 + 2 /\ n <= 1024
    [] T = "openvpn.MessageCrypt2" -> n >= 54 + 32 + 256 + 2 /\ n <= 54 + 1024
    [] T = "winbox.MessageAuth" -> n >= 2 + 1 + 1 + 32 + 1
\* ---- which messages are well-formed (serialise -> parse must reproduce them) ----
AllBytes(s) == \A i \in DOMAIN s : s[i] \in 0..255
UserOK(u) == /\ Len(u) >= 1 /\ Len(u) <= 255
             /\ \A i \in DOMAIN u : u[i] \in (48..57) \cup (65..90) \cup (97..122) \cup {43}       \* alphanumerics, '+' only in the "+r" suffix
             /\ \A i \in DOMAIN u : u[i] = 43 => (i = Len(u) - 1 /\ u[Len(u)] = 114 /\ Len(u) >= 3)
WellFormed(T, m) ==
  /\ \A i \in DOMAIN Layout(T) : LET f == Layout(T)[i] IN
        CASE f.ord = "opkey" -> m[f.name][1] \in 0..31 /\ m[f.name][2] \in 0..7
          [] f.ord = "len" -> m[f.name] = <<>>
          [] f.w > 0 -> Len(m[f.name]) = f.w /\ AllBytes(m[f.name])
          [] OTHER -> AllBytes(m[f.name])
  /\ LenOK(T, IF T = "winbox.MessageAuth" THEN 40 ELSE Fixed(T) + SumVar(T, m, 1))
  /\ (T \in {"openvpn.MessagePlain", "openvpn.MessageAuth", "openvpn.MessageCrypt"} => m.OpKey[1] = 7)
  /\ (T = "openvpn.MessageCrypt2" => m.OpKey[1] = 10)
  /\ (T = "winbox.MessageAuth" => UserOK(m.Username) /\ m.PublicKeyParity[1] \in {0, 1})

(***************************************************************************)
(* Cases.  Values: Pat(w, k) - asc (1, 2, 3, ...: makes field order and    *)
(* byte order visible), zero, ones, hi (0x80 then zeros), lo (zeros, 1).   *)
(***************************************************************************)
Pat(w, k) == [i \in 1..w |-> IF k = "asc" THEN ((i * 7 + w) % 251) + 1
                             ELSE IF k = "zero" THEN 0 ELSE IF k = "ones" THEN 255
                             ELSE IF k = "hi" THEN (IF i = 1 THEN 128 ELSE 0) ELSE (IF i = w THEN 1 ELSE 0)]
Kinds == {"asc", "zero", "ones", "hi", "lo"}
VarLens(T, name) ==
  CASE T = "rdp.RDPToken" -> {0, 1, 26, 243}
    [] T = "wireguard.MessageTransport" -> {0, 1, 16, 1400}
    [] T = "openvpn.MessageAuth" -> {16, 20, 32, 64, 15, 17, 65, 0}
    [] T \in {"openvpn.WrappedKey", "openvpn.MessageCrypt2"} -> {256, 257, 265, 990, 255, 991}
    [] T = "winbox.MessageAuth" -> {1, 5, 7, 219, 220, 221, 222, 255, 0}
    [] OTHER -> {0}
OpKeys(T) == CASE T \in {"openvpn.MessagePlain", "openvpn.MessageAuth", "openvpn.MessageCrypt"} -> { <<7, 0>>, <<7, 7>>, <<10, 0>>, <<0, 0>> }
               [] T = "openvpn.MessageCrypt2" -> { <<10, 0>>, <<10, 5>>, <<7, 0>> }
               [] OTHER -> { <<7, 0>>, <<10, 0>>, <<0, 0>>, <<31, 7>>, <<1, 1>> }
UserName(n, romon) == [i \in 1..n |-> IF romon /\ i = n - 1 THEN 43 ELSE IF romon /\ i = n THEN 114 ELSE 97 + (i % 26)]
FieldVals(T, f) ==
  CASE f.ord = "opkey" -> OpKeys(T)
    [] f.ord = "len" -> { <<>>, <<0, 0>>, <<255, 255>> }
    [] T = "winbox.MessageAuth" /\ f.name = "Username" -> { UserName(n, r) : n \in VarLens(T, f.name), r \in BOOLEAN } \cup { <<97, 0, 98>>, <<45, 97>> }
    [] T = "winbox.MessageAuth" /\ f.name = "PublicKeyParity" -> { <<0>>, <<1>>, <<2>> }
    [] f.w = 0 -> { Pat(n, "asc") : n \in VarLens(T, f.name) }
    [] OTHER -> { Pat(f.w, k) : k \in Kinds }
BaseVal(T, f) ==
  CASE f.ord = "opkey" -> (IF T = "openvpn.MessageCrypt2" THEN <<10, 0>> ELSE <<7, 0>>)
    [] f.ord = "len" -> <<>>
    [] T = "winbox.MessageAuth" /\ f.name = "Username" -> UserName(5, FALSE)
    [] T = "winbox.MessageAuth" /\ f.name = "PublicKeyParity" -> <<1>>
    [] f.w = 0 -> Pat(CASE T = "openvpn.MessageAuth" -> 20 [] T \in {"openvpn.WrappedKey", "openvpn.MessageCrypt2"} -> 256 [] OTHER -> 26, "asc")
    [] OTHER -> Pat(f.w, "asc")
Names(T) == { Layout(T)[i].name : i \in DOMAIN Layout(T) }
FieldOf(T, n) == Layout(T)[CHOOSE i \in DOMAIN Layout(T) : Layout(T)[i].name = n]
Base(T) == [n \in Names(T) |-> BaseVal(T, FieldOf(T, n))]
\* messages: the base message with at most `dev' fields changed
Msgs(T, dev) == LET step(S) == S \cup UNION { UNION { { [x EXCEPT ![n] = v] : v \in FieldVals(T, FieldOf(T, n)) } : n \in Names(T) } : x \in S } IN
                IF dev = 1 THEN step({Base(T)}) ELSE step(step({Base(T)}))
\* byte strings offered to the parser: the reference encoding, cut short or extended
Deltas == {0, 1, 2, 257, -1, -2}
Mangle(b, d) == IF d >= 0 THEN b \o [i \in 1..d |-> 0] ELSE SubSeq(b, 1, IF Len(b) + d < 0 THEN 0 ELSE Len(b) + d)
Cases(T, dev) == { [type |-> T, fields |-> m, delta |-> d, bytes |-> Mangle(Encode(T, m), d), wf |-> WellFormed(T, m)] : m \in Msgs(T, dev), d \in Deltas }

(***************************************************************************)
(* Judging one observation o of the real codec on case c:                  *)
(*   o.ser      ToBytes of the message built from c.fields ("-" if the     *)
(*              harness could not build it: a value too wide for its field)*)
(*   o.ok2, o.parsed2   FromBytes(o.ser): accepted?, the fields it filled  *)
(*   o.ok, o.reser      FromBytes(c.bytes): accepted?, ToBytes of the      *)
(*              result                                                     *)
(*   o.panic    text of a panic, "" if none                                *)
(***************************************************************************)
\* the fields a parsed message exposes (a length field is checked by the parser and not kept)
Proj(T, m) == [n \in { x \in Names(T) : FieldOf(T, x).ord # "len" } |-> m[n]]
K0(c, o) == o.panic = ""
K1(c, o) == (c.wf /\ c.delta = 0 /\ o.built) => (o.ok2 /\ o.parsed2 = Proj(c.type, c.fields))
K2(c, o) == o.ok => o.reser = c.bytes
K3(c, o) == ~LenOK(c.type, Len(c.bytes)) => ~o.ok
CodecViolations(c, o) ==
  (IF K0(c, o) THEN {} ELSE {"K0 the codec panicked instead of accepting or rejecting"}) \cup
  (IF K1(c, o) THEN {} ELSE {"K1 serialising a well-formed message and parsing the result did not reproduce the message"})
  \cup (IF K2(c, o) THEN {} ELSE {"K2 the parser accepted a byte string whose re-serialisation differs from it"})
  \cup (IF K3(c, o) THEN {} ELSE {"K3 the parser accepted an input of a length the wire layout excludes (it truncated or padded instead of rejecting)"})

(***************************************************************************)
(* Sealed messages (clause K4).  Four OpenVPN types are serialised from a  *)
(* message by SIGNING (MessageAuth) or SIGNING AND ENCRYPTING it           *)
(* (MessageCrypt, WrappedKey, MessageCrypt2): the fields a peer means -    *)
(* session id, replay packet id, timestamp, packet id; the client key and  *)
(* its optional meta data - are on the wire only under a key.  For these   *)
(* "serialising then parsing reproduces the message" is: seal with a key,  *)
(* ToBytes, FromBytes, open with the same key - the clear fields come      *)
(* back, the message that was serialised is itself unchanged, and the      *)
(* bytes re-serialise to themselves.                                       *)
(*   c.clear   sid (8), rpid (4), ts (4), pid (4): big-endian bytes;       *)
(*             key (256 bytes), mtype (1 byte iff meta is non-empty),      *)
(*             meta (0, 4 or 32 bytes) - <<>> where the type has no such   *)
(*             field                                                       *)
(*   o.sealed / o.accepted / o.opened   signing+encrypting succeeded /     *)
(*             FromBytes accepted the bytes / authentication (and          *)
(*             decryption) with the same key succeeded                     *)
(*   o.clear   the clear fields of the opened message                      *)
(*   o.kept    the clear fields of the serialised message afterwards       *)
(*   o.ser, o.reser   ToBytes of the sealed message / of the parsed one    *)
(***************************************************************************)
SealTypes == {"openvpn.MessageAuth", "openvpn.MessageCrypt", "openvpn.WrappedKey", "openvpn.MessageCrypt2"}
HasPacket(T) == T # "openvpn.WrappedKey"
HasKey(T) == T \in {"openvpn.WrappedKey", "openvpn.MessageCrypt2"}
SealCases(T) ==
  { [type |-> T, clear |-> [sid |-> sid, rpid |-> rpid, ts |-> ts, pid |-> pid, key |-> key, mtype |-> (IF meta = <<>> THEN <<>> ELSE mt), meta |-> meta]] :
      sid \in (IF HasPacket(T) THEN {Pat(8, "asc"), Pat(8, "ones"), Pat(8, "lo")} ELSE {<<>>}),
      rpid \in (IF HasPacket(T) THEN {<<0, 0, 0, 1>>, Pat(4, "asc")} ELSE {<<>>}),
      ts \in (IF HasPacket(T) THEN {Pat(4, "asc"), Pat(4, "zero")} ELSE {<<>>}),
      pid \in (IF HasPacket(T) THEN {Pat(4, "zero"), Pat(4, "hi")} ELSE {<<>>}),
      key \in (IF HasKey(T) THEN {Pat(256, "asc"), Pat(256, "ones"), Pat(256, "zero")} ELSE {<<>>}),
      mt \in (IF HasKey(T) THEN {<<0>>, <<1>>} ELSE {<<>>}),
      meta \in (IF HasKey(T) THEN {<<>>, Pat(4, "asc"), Pat(32, "asc")} ELSE {<<>>}) }
K4(c, o) == /\ o.panic = "" /\ o.sealed /\ o.accepted /\ o.opened
            /\ o.clear = c.clear /\ o.kept = c.clear /\ o.reser = o.ser
SealViolations(c, o) ==
  IF K4(c, o) THEN {}
  ELSE {"K4 a well-formed message that was sealed with a key, serialised, parsed and opened with the same key did not come back as it was"
        \o (IF o.panic # "" THEN " (panic)" ELSE IF ~o.sealed THEN " (could not be sealed)" ELSE IF ~o.accepted THEN " (its bytes were rejected by the parser)"
            ELSE IF ~o.opened THEN " (the parsed message does not authenticate / decrypt)" ELSE IF o.kept # c.clear THEN " (serialising changed the message itself)"
            ELSE IF o.clear # c.clear THEN " (the opened message differs)" ELSE " (the parsed message re-serialises differently)")}
=============================================================================
