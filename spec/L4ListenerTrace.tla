--------------------------- MODULE L4ListenerTrace ---------------------------
EXTENDS L4ListenerAbs, Json, TLCExt
Traces == ndJsonDeserialize("listener_traces.ndjson")
Judge(tr) == LET v == ListenerViolations(tr.hist, tr.complete) IN
             IF v = {} THEN TRUE ELSE PrintT(<<"VBAD", ToJson([id |-> tr.id, clauses |-> v])>>)
VARIABLE k
TInit == k = 0
TNext == k < Len(Traces) /\ Judge(Traces[k + 1]) /\ k' = k + 1
Done == (k = Len(Traces)) => PrintT(<<"VDONE", k>>)
=============================================================================
