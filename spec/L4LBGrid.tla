------------------------------ MODULE L4LBGrid ------------------------------
(* Pool-state enumeration for the single-selection contract, and behaviour emission for the
   selection sequences. *)
EXTENDS L4LB, Json
CONSTANT Tier

P(unh, f, c) == [unhealthy |-> unh, fails |-> f, conns |-> c]
\* boundary peer states for maxFails = 2, maxConns = 2: idle, busy below limit, at the limit,
\* one failure short, failed, marked unhealthy
PeersQ == { P(FALSE, 0, 0), P(FALSE, 0, 1), P(FALSE, 0, 2), P(FALSE, 2, 0), P(TRUE, 0, 0) }
PeersT == PeersQ \cup { P(FALSE, 1, 1), P(FALSE, 3, 0), P(TRUE, 2, 3) }
Peers == IF Tier = "quick" THEN PeersQ ELSE PeersT
Ups == [peers : { <<p>> : p \in Peers }, maxConns : {0, 2}]
       \cup [peers : { <<p, q>> : p \in PeersQ, q \in {P(FALSE, 0, 0), P(FALSE, 0, 2), P(TRUE, 0, 0)} }, maxConns : {2}]
\* Tier "sim": pools of up to 8 upstreams, visited by random walks (tlc -simulate); the exhaustive tiers stop at 3
MaxPool == IF Tier = "sim" THEN 8 ELSE 3

VARIABLES pool, mf
GInit == pool = <<>> /\ mf \in {0, 2}
GNext == /\ Len(pool) < MaxPool
         /\ \E u \in Ups : pool' = Append(pool, u)
         /\ UNCHANGED mf
\* one line per pool state: the pool and, per policy, the allowed results
EmitPool == PrintT(<<"VOUT", ToJson([pool |-> pool, maxFails |-> mf])>>)
=============================================================================
