----------------------------- MODULE L4HealthTrace -----------------------------
EXTENDS L4HealthAbs, Json, TLCExt
Traces == ndJsonDeserialize("health_traces.ndjson")
Judge(t) == LET v == HealthViolations(t) IN
            IF v = {} THEN TRUE ELSE PrintT(<<"VBAD", ToJson([id |-> t.id, clauses |-> v])>>)
VARIABLE k
TInit == k = 0
TNext == k < Len(Traces) /\ Judge(Traces[k + 1]) /\ k' = k + 1
Done == (k = Len(Traces)) => PrintT(<<"VDONE", k>>)
=============================================================================
