------------------------------ MODULE L4ProxyGrid ------------------------------
(* Scenario grid of the proxy relay conformance runs (C03), enumerated by TLC:
   who finishes first and how, payload sizes, chunking, peers, prefetched bytes. *)
EXTENDS Integers, TLC, Json
CONSTANT Tier
Orders == {"client_first", "upstream_first", "simultaneous", "client_rst", "upstream_rst", "client_close"}
\* via "route": behind a real route whose matcher needs two matching rounds (the client's first segment is short);
\* failpeer: a dial attempt to a multi-peer upstream is given up half-way, a second upstream serves
Grid == { g \in [order : Orders, csize : {0, 1, 3000, 70000, 1048576}, usize : {0, 1, 5000, 200000}, peers : {1, 2},
                  chunk : {1, 1000, 65536}, prefetch : {0, 5, 2048}, via : {"direct", "route", "route2", "bigroute", "throttle", "throttle2", "pp", "ppu"}, failpeer : BOOLEAN,
                  transport : {"tcp", "unix", "tls"}] :
            /\ (g.via \in {"route", "route2"} => (g.prefetch = 0 /\ g.csize >= 3000))
            \* bigroute: the route's matcher needs 8000 bytes, delivered in segments that take the matching buffer beyond 8192
            /\ (g.via = "bigroute" => (g.prefetch = 0 /\ g.csize >= 70000 /\ g.chunk = 65536 /\ ~g.failpeer /\ g.usize \in {0, 5000}
                                       /\ g.order \in {"client_first", "upstream_first", "simultaneous"}))
            \* route2: a matched non-terminal route, then the proxy's route; the client goes on sending after the matching timeout
            /\ (g.via = "route2" => (g.order \in {"client_first", "simultaneous"} /\ g.chunk = 65536 /\ ~g.failpeer))
            \* throttle: the shipped throttle handler (no limits) wraps the connection before the proxy handler gets it -
            \* the downstream the proxy sees is then a wrapper, not the TCP connection itself
            \* pp: the shipped proxy_protocol handler consumes a v1 header and wraps the connection before the proxy handler
            /\ (g.via \in {"throttle", "throttle2", "pp", "ppu"} => (g.prefetch = 0 /\ g.chunk = 65536 /\ ~g.failpeer /\ g.csize \in {0, 3000, 70000} /\ g.usize \in {0, 5000}))
            /\ (g.failpeer => (g.order \in {"client_first", "simultaneous"} /\ g.chunk = 65536))
            \* the other transports that offer half-close: Unix stream sockets on both sides; TLS on both sides (the client's
            \* TLS terminated by the real tls handler in front of the proxy, the proxy speaking TLS to its upstreams)
            /\ (g.transport # "tcp" => (/\ g.via = "direct" /\ g.prefetch = 0 /\ ~g.failpeer /\ g.chunk \in {1000, 65536}
                                        /\ g.order \in {"client_first", "upstream_first", "simultaneous", "client_close"}
                                        /\ g.csize \in {0, 3000, 70000} /\ g.usize \in {0, 1, 5000, 200000})) }
QuickGrid == { g \in Grid : /\ g.csize \in {0, 3000, 70000} /\ g.usize \in {1, 5000, 200000}
                            /\ g.chunk \in {1000, 65536} /\ g.prefetch \in {0, 5}
                            /\ (g.via \in {"route", "route2"} => g.chunk = 65536 /\ g.usize # 200000)
                            /\ (g.via \in {"throttle", "throttle2", "pp", "ppu"} => g.csize = 3000 /\ g.usize = 5000)
                            /\ (g.transport # "tcp" => g.chunk = 65536 /\ g.usize \in {1, 5000}) }
VARIABLE g
Init == g \in (IF Tier = "quick" THEN QuickGrid ELSE Grid)
Next == UNCHANGED g
Emit == PrintT(<<"VOUT", ToJson(g)>>)
=============================================================================
