INIT TInit
NEXT TNext
CONSTANT Tier = "thorough"
INVARIANT Done
CHECK_DEADLOCK FALSE
