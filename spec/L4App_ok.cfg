SPECIFICATION Spec
CONSTANTS N = 3 FailAt = 0 MaxConns = 3 CleanupOnFailedStart = FALSE
INVARIANTS TypeOK AllTracked StopClosesAll FailedStartLeavesNothing
PROPERTIES LoopsEnd NoAcceptAfterStop
CHECK_DEADLOCK FALSE
