SPECIFICATION Spec
CONSTANTS N = 3 FailAt = 0 MaxConns = 3 CleanupOnFailedStart = FALSE MaxErrs = 0 RetryTransient = FALSE
INVARIANTS TypeOK AllTracked StopClosesAll FailedStartLeavesNothing ServedWhileBound
PROPERTIES LoopsEnd NoAcceptAfterStop
CHECK_DEADLOCK FALSE
