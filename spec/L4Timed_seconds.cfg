SPECIFICATION Spec
CONSTANTS T = 3  Gran = 4  MaxNow = 12  Store = "seconds"  MaxData = 2
INVARIANTS NotEarly NotLate
PROPERTY Ends
CHECK_DEADLOCK FALSE
