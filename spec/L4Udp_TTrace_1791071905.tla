---- MODULE L4Udp_TTrace_1791071905 ----
EXTENDS Sequences, TLCExt, Toolbox, Naturals, TLC, L4Udp

_expression ==
    LET L4Udp_TEExpression == INSTANCE L4Udp_TEExpression
    IN L4Udp_TEExpression!expression
----

_trace ==
    LET L4Udp_TETrace == INSTANCE L4Udp_TETrace
    IN L4Udp_TETrace!trace
----

_inv ==
    ~(
        TLCGet("level") = Len(_TETrace)
        /\
        A = (<<[addr |-> "c1", q |-> <<>>, closed |-> TRUE, st |-> "close2", reads |-> 0], [addr |-> "none", q |-> <<>>, closed |-> FALSE, st |-> "unused", reads |-> 0], [addr |-> "none", q |-> <<>>, closed |-> FALSE, st |-> "unused", reads |-> 0], [addr |-> "none", q |-> <<>>, closed |-> FALSE, st |-> "unused", reads |-> 0]>>)
        /\
        nextA = (2)
        /\
        staleDelete = (FALSE)
        /\
        loop = ([a |-> 1, pc |-> "send", pkt |-> [addr |-> "c1", seq |-> 1]])
        /\
        crashed = (TRUE)
        /\
        lateTo = ({})
        /\
        delivered = (<<<<>>, <<>>, <<>>, <<>>>>)
        /\
        closeCh = (<<[addr |-> "c1", a |-> 1]>>)
        /\
        udpConns = ([c1 |-> 1, c2 |-> 0])
        /\
        sent = (1)
        /\
        packets = (<<>>)
    )
----

_init ==
    /\ A = _TETrace[1].A
    /\ udpConns = _TETrace[1].udpConns
    /\ delivered = _TETrace[1].delivered
    /\ packets = _TETrace[1].packets
    /\ staleDelete = _TETrace[1].staleDelete
    /\ loop = _TETrace[1].loop
    /\ crashed = _TETrace[1].crashed
    /\ sent = _TETrace[1].sent
    /\ nextA = _TETrace[1].nextA
    /\ lateTo = _TETrace[1].lateTo
    /\ closeCh = _TETrace[1].closeCh
----

_next ==
    /\ \E i,j \in DOMAIN _TETrace:
        /\ \/ /\ j = i + 1
              /\ i = TLCGet("level")
        /\ A  = _TETrace[i].A
        /\ A' = _TETrace[j].A
        /\ udpConns  = _TETrace[i].udpConns
        /\ udpConns' = _TETrace[j].udpConns
        /\ delivered  = _TETrace[i].delivered
        /\ delivered' = _TETrace[j].delivered
        /\ packets  = _TETrace[i].packets
        /\ packets' = _TETrace[j].packets
        /\ staleDelete  = _TETrace[i].staleDelete
        /\ staleDelete' = _TETrace[j].staleDelete
        /\ loop  = _TETrace[i].loop
        /\ loop' = _TETrace[j].loop
        /\ crashed  = _TETrace[i].crashed
        /\ crashed' = _TETrace[j].crashed
        /\ sent  = _TETrace[i].sent
        /\ sent' = _TETrace[j].sent
        /\ nextA  = _TETrace[i].nextA
        /\ nextA' = _TETrace[j].nextA
        /\ lateTo  = _TETrace[i].lateTo
        /\ lateTo' = _TETrace[j].lateTo
        /\ closeCh  = _TETrace[i].closeCh
        /\ closeCh' = _TETrace[j].closeCh

\* Uncomment the ASSUME below to write the states of the error trace
\* to the given file in Json format. Note that you can pass any tuple
\* to `JsonSerialize`. For example, a sub-sequence of _TETrace.
    \* ASSUME
    \*     LET J == INSTANCE Json
    \*         IN J!JsonSerialize("L4Udp_TTrace_1791071905.json", _TETrace)

=============================================================================

 Note that you can extract this module `L4Udp_TEExpression`
  to a dedicated file to reuse `expression` (the module in the 
  dedicated `L4Udp_TEExpression.tla` file takes precedence 
  over the module `L4Udp_TEExpression` below).

---- MODULE L4Udp_TEExpression ----
EXTENDS Sequences, TLCExt, Toolbox, Naturals, TLC, L4Udp

expression == 
    [
        \* To hide variables of the `L4Udp` spec from the error trace,
        \* remove the variables below.  The trace will be written in the order
        \* of the fields of this record.
        A |-> A
        ,udpConns |-> udpConns
        ,delivered |-> delivered
        ,packets |-> packets
        ,staleDelete |-> staleDelete
        ,loop |-> loop
        ,crashed |-> crashed
        ,sent |-> sent
        ,nextA |-> nextA
        ,lateTo |-> lateTo
        ,closeCh |-> closeCh
        
        \* Put additional constant-, state-, and action-level expressions here:
        \* ,_stateNumber |-> _TEPosition
        \* ,_AUnchanged |-> A = A'
        
        \* Format the `A` variable as Json value.
        \* ,_AJson |->
        \*     LET J == INSTANCE Json
        \*     IN J!ToJson(A)
        
        \* Lastly, you may build expressions over arbitrary sets of states by
        \* leveraging the _TETrace operator.  For example, this is how to
        \* count the number of times a spec variable changed up to the current
        \* state in the trace.
        \* ,_AModCount |->
        \*     LET F[s \in DOMAIN _TETrace] ==
        \*         IF s = 1 THEN 0
        \*         ELSE IF _TETrace[s].A # _TETrace[s-1].A
        \*             THEN 1 + F[s-1] ELSE F[s-1]
        \*     IN F[_TEPosition - 1]
    ]

=============================================================================



Parsing and semantic processing can take forever if the trace below is long.
 In this case, it is advised to uncomment the module below to deserialize the
 trace from a generated binary file.

\*
\*---- MODULE L4Udp_TETrace ----
\*EXTENDS IOUtils, TLC, L4Udp
\*
\*trace == IODeserialize("L4Udp_TTrace_1791071905.bin", TRUE)
\*
\*=============================================================================
\*

---- MODULE L4Udp_TETrace ----
EXTENDS TLC, L4Udp

trace == 
    <<
    ([A |-> <<[addr |-> "none", q |-> <<>>, closed |-> FALSE, st |-> "unused", reads |-> 0], [addr |-> "none", q |-> <<>>, closed |-> FALSE, st |-> "unused", reads |-> 0], [addr |-> "none", q |-> <<>>, closed |-> FALSE, st |-> "unused", reads |-> 0], [addr |-> "none", q |-> <<>>, closed |-> FALSE, st |-> "unused", reads |-> 0]>>,nextA |-> 1,staleDelete |-> FALSE,loop |-> [pc |-> "select"],crashed |-> FALSE,lateTo |-> {},delivered |-> <<<<>>, <<>>, <<>>, <<>>>>,closeCh |-> <<>>,udpConns |-> [c1 |-> 0, c2 |-> 0],sent |-> 0,packets |-> <<>>]),
    ([A |-> <<[addr |-> "none", q |-> <<>>, closed |-> FALSE, st |-> "unused", reads |-> 0], [addr |-> "none", q |-> <<>>, closed |-> FALSE, st |-> "unused", reads |-> 0], [addr |-> "none", q |-> <<>>, closed |-> FALSE, st |-> "unused", reads |-> 0], [addr |-> "none", q |-> <<>>, closed |-> FALSE, st |-> "unused", reads |-> 0]>>,nextA |-> 1,staleDelete |-> FALSE,loop |-> [pc |-> "select"],crashed |-> FALSE,lateTo |-> {},delivered |-> <<<<>>, <<>>, <<>>, <<>>>>,closeCh |-> <<>>,udpConns |-> [c1 |-> 0, c2 |-> 0],sent |-> 1,packets |-> <<[addr |-> "c1", seq |-> 1]>>]),
    ([A |-> <<[addr |-> "c1", q |-> <<>>, closed |-> FALSE, st |-> "reading", reads |-> 0], [addr |-> "none", q |-> <<>>, closed |-> FALSE, st |-> "unused", reads |-> 0], [addr |-> "none", q |-> <<>>, closed |-> FALSE, st |-> "unused", reads |-> 0], [addr |-> "none", q |-> <<>>, closed |-> FALSE, st |-> "unused", reads |-> 0]>>,nextA |-> 2,staleDelete |-> FALSE,loop |-> [a |-> 1, pc |-> "send", pkt |-> [addr |-> "c1", seq |-> 1]],crashed |-> FALSE,lateTo |-> {},delivered |-> <<<<>>, <<>>, <<>>, <<>>>>,closeCh |-> <<>>,udpConns |-> [c1 |-> 1, c2 |-> 0],sent |-> 1,packets |-> <<>>]),
    ([A |-> <<[addr |-> "c1", q |-> <<>>, closed |-> FALSE, st |-> "close1", reads |-> 0], [addr |-> "none", q |-> <<>>, closed |-> FALSE, st |-> "unused", reads |-> 0], [addr |-> "none", q |-> <<>>, closed |-> FALSE, st |-> "unused", reads |-> 0], [addr |-> "none", q |-> <<>>, closed |-> FALSE, st |-> "unused", reads |-> 0]>>,nextA |-> 2,staleDelete |-> FALSE,loop |-> [a |-> 1, pc |-> "send", pkt |-> [addr |-> "c1", seq |-> 1]],crashed |-> FALSE,lateTo |-> {},delivered |-> <<<<>>, <<>>, <<>>, <<>>>>,closeCh |-> <<[addr |-> "c1", a |-> 1]>>,udpConns |-> [c1 |-> 1, c2 |-> 0],sent |-> 1,packets |-> <<>>]),
    ([A |-> <<[addr |-> "c1", q |-> <<>>, closed |-> TRUE, st |-> "close2", reads |-> 0], [addr |-> "none", q |-> <<>>, closed |-> FALSE, st |-> "unused", reads |-> 0], [addr |-> "none", q |-> <<>>, closed |-> FALSE, st |-> "unused", reads |-> 0], [addr |-> "none", q |-> <<>>, closed |-> FALSE, st |-> "unused", reads |-> 0]>>,nextA |-> 2,staleDelete |-> FALSE,loop |-> [a |-> 1, pc |-> "send", pkt |-> [addr |-> "c1", seq |-> 1]],crashed |-> FALSE,lateTo |-> {},delivered |-> <<<<>>, <<>>, <<>>, <<>>>>,closeCh |-> <<[addr |-> "c1", a |-> 1]>>,udpConns |-> [c1 |-> 1, c2 |-> 0],sent |-> 1,packets |-> <<>>]),
    ([A |-> <<[addr |-> "c1", q |-> <<>>, closed |-> TRUE, st |-> "close2", reads |-> 0], [addr |-> "none", q |-> <<>>, closed |-> FALSE, st |-> "unused", reads |-> 0], [addr |-> "none", q |-> <<>>, closed |-> FALSE, st |-> "unused", reads |-> 0], [addr |-> "none", q |-> <<>>, closed |-> FALSE, st |-> "unused", reads |-> 0]>>,nextA |-> 2,staleDelete |-> FALSE,loop |-> [a |-> 1, pc |-> "send", pkt |-> [addr |-> "c1", seq |-> 1]],crashed |-> TRUE,lateTo |-> {},delivered |-> <<<<>>, <<>>, <<>>, <<>>>>,closeCh |-> <<[addr |-> "c1", a |-> 1]>>,udpConns |-> [c1 |-> 1, c2 |-> 0],sent |-> 1,packets |-> <<>>])
    >>
----


=============================================================================

---- CONFIG L4Udp_TTrace_1791071905 ----
CONSTANTS
    Clients = { "c1" , "c2" }
    MaxDg = 5
    MaxAssoc = 4
    PacketsCap = 2
    ReadCap = 1
    CloseCap = 2
    ReadsBeforeReturn = 1
    Mode = "pinned"

INVARIANT
    _inv

CHECK_DEADLOCK
    \* CHECK_DEADLOCK off because of PROPERTY or INVARIANT above.
    FALSE

INIT
    _init

NEXT
    _next

CONSTANT
    _TETrace <- _trace

ALIAS
    _expression
=============================================================================
\* Generated on Sat Oct 03 23:58:26 UTC 2026