SPECIFICATION Spec
CONSTANTS Ups = {"u1", "u2"} NC = 2 NU = 2 ClientEnd = "fin" UpEnd = "fin" DownCanHalfClose = TRUE ClientWaitsForEOF = FALSE
INVARIANTS UpExact DownOrdered HalfCloseSeen
PROPERTY Cleanup
CHECK_DEADLOCK FALSE
