---------------------------- MODULE L4TimedTrace ----------------------------
(* Trace validation of timed executions of the real matching phase (C05):
   one line of timed_traces.ndjson = one connection / UDP association. *)
EXTENDS L4TimedAbs, Json, TLCExt

Traces == ndJsonDeserialize("timed_traces.ndjson")
Judge(tr) == LET v == TimedViolations(tr) IN
             IF v = {} THEN TRUE ELSE PrintT(<<"VBAD", ToJson([id |-> tr.id, clauses |-> v])>>)
VARIABLE k
TInit == k = 0
TNext == k < Len(Traces) /\ Judge(Traces[k + 1]) /\ k' = k + 1
Done == (k = Len(Traces)) => PrintT(<<"VDONE", k>>)
=============================================================================
