--------------------------- MODULE L4ProxyProtoTrace ---------------------------
EXTENDS L4ProxyProto, Json, TLCExt
Traces == ndJsonDeserialize("pp_traces.ndjson")
RECURSIVE SendAll(_, _, _)
SendAll(s, obs, i) == IF i > Len(obs) THEN {} ELSE SendViolations(s, obs[i]) \cup SendAll(s, obs, i + 1)
Judge(t) == LET v == IF t.case.kind = "recv" THEN RecvViolations(t.case, t.obs) ELSE SendAll(t.case, t.obs, 1) IN
            IF v = {} THEN TRUE ELSE PrintT(<<"VBAD", ToJson([id |-> t.id, clauses |-> v])>>)
VARIABLE k
TInit == k = 0
TNext == k < Len(Traces) /\ Judge(Traces[k + 1]) /\ k' = k + 1
Done == (k = Len(Traces)) => PrintT(<<"VDONE", k>>)
=============================================================================
