SPECIFICATION Spec
CONSTANTS Chunks = 3 ClosePipeOnReturn = TRUE BranchEndDrains = TRUE
INVARIANTS TypeOK Lockstep BranchSeesAll
PROPERTIES MainEnds BranchEnds
CHECK_DEADLOCK FALSE
