----------------------------- MODULE L4TimedAbs -----------------------------
EXTENDS Integers, Sequences, TLC

(***************************************************************************)
(* TimedAbs: clauses over one timed trace tr = [T, eps, slack, limit,      *)
(* chunk, scen, ev], times in milliseconds since the connection was handed *)
(* to the server (taken BEFORE the hand-over, so elapsed times are never   *)
(* over-estimated).                                                        *)
(*   ev: [e |-> "Abort", k, t] [e |-> "Handle", t] [e |-> "Pull", n, t]    *)
(*       [e |-> "HRead", n, t] [e |-> "HErr", t] [e |-> "Closed", t]       *)
(*       [e |-> "Return", t]                                               *)
(***************************************************************************)
IsE(ev, name) == ev.e = name
Idx(tr, name) == { i \in 1..Len(tr.ev) : IsE(tr.ev[i], name) }
RECURSIVE SumPulls(_, _)
SumPulls(ev, upto) == IF upto = 0 THEN 0
                      ELSE (IF IsE(ev[upto], "Pull") THEN ev[upto].n ELSE 0) + SumPulls(ev, upto - 1)
FirstOf(tr, names) == LET S == { i \in 1..Len(tr.ev) : tr.ev[i].e \in names } IN
                      IF S = {} THEN Len(tr.ev) + 1 ELSE CHOOSE x \in S : \A y \in S : x <= y

\* TE: matching is not abandoned by timeout before the timeout has elapsed
\*     (whatever the reason given: a client that is silent, sends one chunk or trickles keeps its connection open and
\*     never fills the buffer, so NOTHING may end matching before the timeout)
TE(tr) == \A i \in Idx(tr, "Abort") :
            (tr.ev[i].k = "timeout" \/ tr.scen \in {"silent", "exact", "trickle"}) => tr.ev[i].t >= tr.T - tr.eps
\* TL: with an undecided route matching ends by T + slack however the client sends: by the
\*     timeout for a silent or trickling client, by timeout or buffer limit for a flooding one
TL(tr) == tr.scen \in {"silent", "exact", "trickle", "flood"} =>
            \E i \in Idx(tr, "Abort") :
               /\ tr.ev[i].t <= tr.T + tr.slack
               /\ tr.ev[i].k \in (IF tr.scen = "flood" THEN {"timeout", "full"} ELSE {"timeout"})
\* TC: fail closed: after an abort no handler runs, and the connection is closed
TC(tr) == \A i \in Idx(tr, "Abort") :
            /\ \A j \in (i+1)..Len(tr.ev) : ~(IsE(tr.ev[j], "Handle") \/ IsE(tr.ev[j], "HRead"))
            /\ tr.needClosed => \E j \in 1..Len(tr.ev) : IsE(tr.ev[j], "Closed")
\* TB: never more than limit + chunk - 1 bytes are taken from the client before a handler runs
TB(tr) == SumPulls(tr.ev, FirstOf(tr, {"Handle"}) - 1) <= tr.limit + tr.chunk - 1
\* TH: once a route has matched, its handler is not limited by the matching deadline
TH(tr) == tr.scen = "slowhandler" =>
            /\ Idx(tr, "HErr") = {} /\ Idx(tr, "Abort") = {}
            /\ \E i \in Idx(tr, "HRead") : tr.ev[i].n = tr.want /\ tr.ev[i].t >= tr.T

\* TN: a nested route list (subroute) is a matching phase of its own: it ends by ITS timeout, counted from the moment the
\*     outer route's handlers ran - not earlier, and not later than that plus slack (a deadline that is not re-armed
\*     leaves the connection to the idle timeout)
TN(tr) == tr.scen = "nested" =>
            LET h == FirstOf(tr, {"Handle"}) IN
            /\ h <= Len(tr.ev)
            \* (the nested list reports its abort through a logger of its own; what is observed is the connection / the
            \*  UDP association being closed when the handler chain comes back)
            /\ \E i \in Idx(tr, "Closed") : /\ i > h
                                            /\ tr.ev[i].t >= tr.ev[h].t + tr.T - tr.eps
                                            /\ tr.ev[i].t <= tr.ev[h].t + tr.T + tr.slack
            /\ \A i \in Idx(tr, "Closed") : tr.ev[i].t >= tr.ev[h].t + tr.T - tr.eps

TimedViolations(tr) ==
  (IF TE(tr) THEN {} ELSE {"TE matching abandoned before the timeout elapsed"})
  \cup (IF TL(tr) THEN {} ELSE {"TL matching not ended by timeout + slack"})
  \cup (IF TC(tr) THEN {} ELSE {"TC a handler ran after matching was abandoned, or the connection was not closed"})
  \cup (IF TB(tr) THEN {} ELSE {"TB more than limit+chunk-1 bytes buffered during matching"})
  \cup (IF TN(tr) THEN {} ELSE {"TN the matching phase of a nested route list did not end by its own timeout (early, late or never)"})
  \cup (IF TH(tr) THEN {} ELSE {"TH the matching deadline interrupted the handler of a matched route"})
=============================================================================
