SPECIFICATION Spec
CONSTANTS
  Chunk = 2
  Limit = 8
  StreamLens <- SL3
  PullSizes <- PS12
  PullFixed = FALSE
  MaxRoutes = 2
  MaxSubRoutes = 1
  Shapes <- ShapesSmall
  SubShapes <- SubShapesSmall
  WrapMode = "handover"
INVARIANTS TypeOK PropsHold Emit
CHECK_DEADLOCK FALSE
