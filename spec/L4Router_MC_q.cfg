SPECIFICATION Spec
CONSTANTS
  Chunk = 2
  Limit = 8
  MaxStream = 3
  MaxRoutes = 2
  MaxSubRoutes = 1
  Shapes <- ShapesSmall
  SubShapes <- SubShapesSmall
  WrapMode = "handover"
INVARIANTS TypeOK PropsHold Emit
CHECK_DEADLOCK FALSE
