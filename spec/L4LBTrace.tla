------------------------------ MODULE L4LBTrace ------------------------------
(* Trace validation for the selection policies (C10): what the REAL Select returned on pools
   built in-package, judged by the operators of L4LB. *)
EXTENDS L4LB, Json, TLCExt
Traces == ndJsonDeserialize("lb_traces.ndjson")

\* JSON: results arrive as a sequence; booleans/ints as themselves
ResSet(t) == Range(t.results)
JudgeSingle(t) ==
  LET allowed == Allowed(t.policy, t.pool, t.maxFails)
      bad == ResSet(t) \ allowed IN
  (IF -1 \in ResSet(t) THEN {"S0 Select panicked"} ELSE {})
  \cup (IF (bad \ {-1, 0}) # {} THEN {"S1 Select returned an upstream its policy does not allow (unavailable, or not the first / least-connected)"} ELSE {})
  \cup (IF 0 \in bad THEN {"S2 Select returned none although an upstream is available"} ELSE {})
JudgeSeq(t) ==
  (IF t.kind = "rr" /\ ~RRok(t.steps) THEN {"S3 round_robin: result unavailable, or a window of |available| selections did not visit each available upstream once"} ELSE {})
  \cup (IF t.kind = "iph" /\ ~IPHok(t.steps) THEN {"S4 ip_hash: result unavailable, not deterministic, or not stable when other upstreams leave"} ELSE {})
Judge(t) == LET v == IF t.kind = "single" THEN JudgeSingle(t) ELSE JudgeSeq(t) IN
            IF v = {} THEN TRUE ELSE PrintT(<<"VBAD", ToJson([id |-> t.id, clauses |-> v])>>)
VARIABLE k
TInit == k = 0
TNext == k < Len(Traces) /\ Judge(Traces[k + 1]) /\ k' = k + 1
Done == (k = Len(Traces)) => PrintT(<<"VDONE", k>>)
=============================================================================
