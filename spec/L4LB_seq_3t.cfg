INIT SInit
NEXT SNext
CONSTANTS N = 3 MaxSteps = 7
INVARIANTS RRInv EmitSeq
CHECK_DEADLOCK FALSE
