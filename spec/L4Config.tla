------------------------------- MODULE L4Config -------------------------------
(***************************************************************************)
(* Configuration terms of the layer4 app (C15).  A term IS the JSON        *)
(* configuration that "states the same servers, routes, matcher sets,      *)
(* handlers and options": records use the JSON keys, so ToJson(term) is    *)
(* the expected adapter output.  The harness prints the same term as a     *)
(* Caddyfile, following the syntax documented on each UnmarshalCaddyfile,  *)
(* runs the real adapter and compares; then loads (caddy.Validate) and     *)
(* round-trips the JSON.                                                   *)
(*                                                                         *)
(* Keys beginning with "_" are printing choices that do not appear in the  *)
(* JSON (option order inside a block, number of global layer4 blocks).     *)
(* "EMPTY" stands for the empty JSON object.  Durations are nanoseconds.   *)
(***************************************************************************)
EXTENDS Integers, Sequences, FiniteSets, TLC

CONSTANT Tier

S == 1000000000      \* one second

\* ---- matchers: [name, value] ----
Mt(n, v) == [name |-> n, value |-> v]
PrivateRanges == <<"192.168.0.0/16", "172.16.0.0/12", "10.0.0.0/8", "127.0.0.1/8", "fd00::/8", "::1">>
Rip == Mt("remote_ip", [ranges |-> <<"10.0.0.0/8", "192.168.1.1">>])
Matchers == {
  Mt("ssh", "EMPTY"), Mt("postgres", "EMPTY"), Mt("xmpp", "EMPTY"), Mt("proxy_protocol", "EMPTY"),
  Mt("tls", [sni |-> <<"a.example.com", "*.wild.test">>]),
  Mt("tls", [alpn |-> <<"h2">>]),
  \* tls.handshake_match.remote_ip: "!" in front of a range puts it into not_ranges; the keyword private_ranges
  \* stands for the six private blocks
  Mt("tls", [remote_ip |-> [ranges |-> <<"10.0.0.0/8">>, not_ranges |-> <<"10.1.0.0/16">>]]),
  Mt("tls", [remote_ip |-> [not_ranges |-> PrivateRanges]]),
  Mt("tls", [sni |-> <<"a.example.com">>, remote_ip |-> [ranges |-> PrivateRanges]]),
  Mt("remote_ip", [ranges |-> PrivateRanges]),
  Mt("http", << [host |-> <<"example.com">>] >>),
  Mt("regexp", [pattern |-> "^HELO", count |-> 8]),
  Rip,
  Mt("local_ip", [ranges |-> <<"127.0.0.1/32">>]),
  Mt("not", << [remote_ip |-> [ranges |-> <<"10.0.0.0/8">>]] >>),
  Mt("socks4", [commands |-> <<"CONNECT">>, networks |-> <<"10.0.0.0/24">>, ports |-> <<80, 443>>]),
  Mt("socks5", [auth_methods |-> <<0, 2>>]),
  Mt("dns", [allow |-> << [name |-> "example.com.", type |-> "A"] >>, deny |-> << [class |-> "CH"] >>, default_deny |-> TRUE]),
  \* regexp rules: allow_regexp / deny_regexp <name_pattern> [<type_pattern> [<class_pattern>]]
  Mt("dns", [allow |-> << [name_regexp |-> "^(a|b)[.]example[.]com[.]$", type_regexp |-> "^(A|AAAA)$", class_regexp |-> "^IN$"] >>,
             deny |-> << [type_regexp |-> "^(MX|NS)$", class_regexp |-> "^(CH|HS)$"], [name_regexp |-> "^internal[.]"] >>, prefer_allow |-> TRUE]),
  Mt("clock", [after |-> "08:00:00", before |-> "17:30:00", timezone |-> "UTC"]),
  \* a fixed offset with minutes is a documented time zone form ("+hh", "+hh:mm", "+hh:mm:ss")
  Mt("clock", [after |-> "00:00:00", before |-> "12:00:00", timezone |-> "+05:30"]),
  Mt("clock", [after |-> "22:00:00", before |-> "06:00:00", timezone |-> "-03:30:00"]),
  Mt("wireguard", [zero |-> 256]),
  Mt("rdp", [cookie_hash |-> "user"]),
  Mt("rdp", [cookie_ips |-> <<"10.0.0.0/8">>, cookie_ports |-> <<3389>>]) }

\* a matcher set: one or two matchers with different names
MatcherSets == { <<m>> : m \in Matchers } \cup
               { <<m, Rip>> : m \in { x \in Matchers : x.name \notin {"remote_ip", "not"} /\ (Tier # "quick" \/ x.name \in {"tls", "ssh", "dns"}) } }
MatchLists == { <<>> } \cup { <<s>> : s \in MatcherSets } \cup
              { <<s, <<Mt("local_ip", [ranges |-> <<"127.0.0.1/32">>])>> >> : s \in { <<m>> : m \in { x \in Matchers : x.name \in {"ssh", "tls"} } } }

\* ---- handlers ----
Up(d) == [dial |-> d]
Echo == [handler |-> "echo"]
ProxySimple == [handler |-> "proxy", upstreams |-> << Up(<<"127.0.0.1:8080">>) >>]
\* _upform: how the addresses of the two-address upstream are written (documented syntax "upstream [<addr>] { dial <addr> [<addr>] }"):
\*   "block"   upstream { dial a b }        "mixed"   upstream a { dial b }        "twodial" upstream { dial a ; dial b }
ProxyFullU(order, upform) ==
  [handler |-> "proxy",
   upstreams |-> << Up(<<"10.0.0.1:8080">>), [dial |-> <<"10.0.0.2:8080", "10.0.0.2:8888">>, max_connections |-> 3] >>,
   health_checks |-> [active |-> [interval |-> S, port |-> 8080, timeout |-> 2 * S],
                      passive |-> [fail_duration |-> S, max_fails |-> 10, unhealthy_connection_count |-> 5]],
   load_balancing |-> [selection |-> [policy |-> "round_robin"], try_duration |-> 2 * S, try_interval |-> S],
   proxy_protocol |-> "v2", _order |-> order, _upform |-> upform]
ProxyFull(order) == ProxyFullU(order, "block")
ProxyPassive(order) ==
  [handler |-> "proxy", upstreams |-> << Up(<<"10.0.0.3:443">>) >>,
   health_checks |-> [active |-> [timeout |-> 2 * S], passive |-> [max_fails |-> 2]],
   load_balancing |-> [selection |-> [policy |-> "random_choose", choose |-> 2]], _order |-> order]
\* random_choose without a count (documented default: 2)
ProxyChooseDefault == [handler |-> "proxy", upstreams |-> << Up(<<"10.0.0.4:443">>), Up(<<"10.0.0.5:443">>) >>,
                       load_balancing |-> [selection |-> [policy |-> "random_choose"]]]
PP == [handler |-> "proxy_protocol", allow |-> <<"10.0.0.0/8", "127.0.0.1/32">>, timeout |-> 2 * S]
TLSH == [handler |-> "tls"]
\* connection policies: "protocols <min> [<max>]", alpn, ciphers, curves, default_sni
TLSHP == [handler |-> "tls",
          connection_policies |-> << [alpn |-> <<"h2", "http/1.1">>, protocol_min |-> "tls1.2", protocol_max |-> "tls1.3",
                                      curves |-> <<"x25519", "secp256r1">>, default_sni |-> "a.example.com"],
                                     [protocol_min |-> "tls1.3", cipher_suites |-> <<"TLS_ECDHE_RSA_WITH_AES_128_GCM_SHA256">>] >>]
\* rates are floating-point numbers: 16777217 = 2^24 + 1 has no single-precision representation
Throttle == [handler |-> "throttle", read_bytes_per_second |-> 1000, read_burst_size |-> 500, total_read_bytes_per_second |-> 16777217,
             total_read_burst_size |-> 2500, latency |-> S]
Socks5 == [handler |-> "socks5", commands |-> <<"CONNECT", "BIND">>, credentials |-> [alice |-> "pw"], bind_ip |-> "10.0.0.1"]
Tee == [handler |-> "tee", branch |-> << Echo >>]
SubRoute(t) == [handler |-> "subroute",
                routes |-> << [match |-> << [ssh |-> "EMPTY"] >>, handle |-> << ProxySimple >>], [handle |-> << Echo >>] >>] @@
               (IF t THEN [matching_timeout |-> 2 * S] ELSE [handler |-> "subroute"])
Terminal == { Echo, ProxySimple, ProxyFull("active_first"), ProxyFull("passive_first"), ProxyFullU("active_first", "mixed"), ProxyFullU("passive_first", "twodial"), ProxyPassive("passive_first"), ProxyPassive("active_first"), ProxyChooseDefault,
              Socks5, SubRoute(FALSE), SubRoute(TRUE) }
Prefixes == { <<>>, <<PP>>, <<TLSH>>, <<TLSHP>>, <<Throttle>>, <<Tee>>, <<PP, TLSH>> }
HandlerLists == { p \o <<t>> : p \in Prefixes, t \in Terminal }

\* ---- routes, servers, configurations ----
\* a route's "match" key is absent when it has no matcher sets
Routes == { [match |-> ml, handle |-> hl] : ml \in MatchLists, hl \in HandlerLists }
QuickRoute(r) == \/ Len(r.handle) = 1
                 \/ (Len(r.match) <= 1 /\ r.handle[Len(r.handle)].handler \in {"echo", "proxy"} /\ Len(r.handle) = 2)
RouteSet == IF Tier = "quick" THEN { r \in Routes : QuickRoute(r) /\ (Len(r.match) <= 1 \/ Len(r.handle) = 1) } ELSE Routes

Servers(r) == { [listen |-> <<"0.0.0.0:443">>, routes |-> <<r>>],
                [listen |-> <<"127.0.0.1:8443", "udp/0.0.0.0:53">>, routes |-> <<r, [match |-> <<>>, handle |-> <<Echo>>]>>, matching_timeout |-> 2 * S] }

\* one state per configuration: form "global" (layer4 global option, one or two blocks) or
\* "wrapper" (caddy.listeners.layer4 inside an HTTP server)
VARIABLE cfg
Init == \E r \in RouteSet : \E sv \in Servers(r) :
          cfg \in { [form |-> "global", servers |-> <<sv>>, _blocks |-> 1],
                    [form |-> "global", servers |-> <<sv, [listen |-> <<":9999">>, routes |-> <<[match |-> <<>>, handle |-> <<Echo>>]>>]>>, _blocks |-> 1],
                    [form |-> "global", servers |-> <<sv, [listen |-> <<":9999">>, routes |-> <<[match |-> <<>>, handle |-> <<Echo>>]>>]>>, _blocks |-> 2],
                    [form |-> "wrapper", servers |-> <<sv>>, _blocks |-> 1] }
Next == UNCHANGED cfg
=============================================================================
