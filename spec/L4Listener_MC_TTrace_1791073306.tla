---- MODULE L4Listener_MC_TTrace_1791073306 ----
EXTENDS Sequences, TLCExt, Toolbox, Naturals, TLC, L4Listener_MC

_expression ==
    LET L4Listener_MC_TEExpression == INSTANCE L4Listener_MC_TEExpression
    IN L4Listener_MC_TEExpression!expression
----

_trace ==
    LET L4Listener_MC_TETrace == INSTANCE L4Listener_MC_TETrace
    IN L4Listener_MC_TETrace!trace
----

_inv ==
    ~(
        TLCGet("level") = Len(_TETrace)
        /\
        consumed = ({})
        /\
        owner = ([b1 |-> "c2", b2 |-> "pool", b3 |-> "pool"])
        /\
        pending = ({"c3"})
        /\
        h = ([c1 |-> "done", c2 |-> "running", c3 |-> "none"])
        /\
        delivered = (<<>>)
        /\
        clobbered = ({"c1"})
        /\
        done = (FALSE)
        /\
        chanClosed = (FALSE)
        /\
        wg = (1)
        /\
        closedC = ([c1 |-> FALSE, c2 |-> FALSE, c3 |-> FALSE])
        /\
        bufOf = ([c1 |-> "b1", c2 |-> "b1", c3 |-> "nobuf"])
        /\
        connChan = (<<"c1">>)
        /\
        loop = ("accepting")
        /\
        innerClosed = (FALSE)
        /\
        acceptErr = (FALSE)
        /\
        waiter = ("none")
    )
----

_init ==
    /\ done = _TETrace[1].done
    /\ delivered = _TETrace[1].delivered
    /\ h = _TETrace[1].h
    /\ consumed = _TETrace[1].consumed
    /\ loop = _TETrace[1].loop
    /\ innerClosed = _TETrace[1].innerClosed
    /\ waiter = _TETrace[1].waiter
    /\ pending = _TETrace[1].pending
    /\ closedC = _TETrace[1].closedC
    /\ chanClosed = _TETrace[1].chanClosed
    /\ clobbered = _TETrace[1].clobbered
    /\ bufOf = _TETrace[1].bufOf
    /\ wg = _TETrace[1].wg
    /\ connChan = _TETrace[1].connChan
    /\ acceptErr = _TETrace[1].acceptErr
    /\ owner = _TETrace[1].owner
----

_next ==
    /\ \E i,j \in DOMAIN _TETrace:
        /\ \/ /\ j = i + 1
              /\ i = TLCGet("level")
        /\ done  = _TETrace[i].done
        /\ done' = _TETrace[j].done
        /\ delivered  = _TETrace[i].delivered
        /\ delivered' = _TETrace[j].delivered
        /\ h  = _TETrace[i].h
        /\ h' = _TETrace[j].h
        /\ consumed  = _TETrace[i].consumed
        /\ consumed' = _TETrace[j].consumed
        /\ loop  = _TETrace[i].loop
        /\ loop' = _TETrace[j].loop
        /\ innerClosed  = _TETrace[i].innerClosed
        /\ innerClosed' = _TETrace[j].innerClosed
        /\ waiter  = _TETrace[i].waiter
        /\ waiter' = _TETrace[j].waiter
        /\ pending  = _TETrace[i].pending
        /\ pending' = _TETrace[j].pending
        /\ closedC  = _TETrace[i].closedC
        /\ closedC' = _TETrace[j].closedC
        /\ chanClosed  = _TETrace[i].chanClosed
        /\ chanClosed' = _TETrace[j].chanClosed
        /\ clobbered  = _TETrace[i].clobbered
        /\ clobbered' = _TETrace[j].clobbered
        /\ bufOf  = _TETrace[i].bufOf
        /\ bufOf' = _TETrace[j].bufOf
        /\ wg  = _TETrace[i].wg
        /\ wg' = _TETrace[j].wg
        /\ connChan  = _TETrace[i].connChan
        /\ connChan' = _TETrace[j].connChan
        /\ acceptErr  = _TETrace[i].acceptErr
        /\ acceptErr' = _TETrace[j].acceptErr
        /\ owner  = _TETrace[i].owner
        /\ owner' = _TETrace[j].owner

\* Uncomment the ASSUME below to write the states of the error trace
\* to the given file in Json format. Note that you can pass any tuple
\* to `JsonSerialize`. For example, a sub-sequence of _TETrace.
    \* ASSUME
    \*     LET J == INSTANCE Json
    \*         IN J!JsonSerialize("L4Listener_MC_TTrace_1791073306.json", _TETrace)

=============================================================================

 Note that you can extract this module `L4Listener_MC_TEExpression`
  to a dedicated file to reuse `expression` (the module in the 
  dedicated `L4Listener_MC_TEExpression.tla` file takes precedence 
  over the module `L4Listener_MC_TEExpression` below).

---- MODULE L4Listener_MC_TEExpression ----
EXTENDS Sequences, TLCExt, Toolbox, Naturals, TLC, L4Listener_MC

expression == 
    [
        \* To hide variables of the `L4Listener_MC` spec from the error trace,
        \* remove the variables below.  The trace will be written in the order
        \* of the fields of this record.
        done |-> done
        ,delivered |-> delivered
        ,h |-> h
        ,consumed |-> consumed
        ,loop |-> loop
        ,innerClosed |-> innerClosed
        ,waiter |-> waiter
        ,pending |-> pending
        ,closedC |-> closedC
        ,chanClosed |-> chanClosed
        ,clobbered |-> clobbered
        ,bufOf |-> bufOf
        ,wg |-> wg
        ,connChan |-> connChan
        ,acceptErr |-> acceptErr
        ,owner |-> owner
        
        \* Put additional constant-, state-, and action-level expressions here:
        \* ,_stateNumber |-> _TEPosition
        \* ,_doneUnchanged |-> done = done'
        
        \* Format the `done` variable as Json value.
        \* ,_doneJson |->
        \*     LET J == INSTANCE Json
        \*     IN J!ToJson(done)
        
        \* Lastly, you may build expressions over arbitrary sets of states by
        \* leveraging the _TETrace operator.  For example, this is how to
        \* count the number of times a spec variable changed up to the current
        \* state in the trace.
        \* ,_doneModCount |->
        \*     LET F[s \in DOMAIN _TETrace] ==
        \*         IF s = 1 THEN 0
        \*         ELSE IF _TETrace[s].done # _TETrace[s-1].done
        \*             THEN 1 + F[s-1] ELSE F[s-1]
        \*     IN F[_TEPosition - 1]
    ]

=============================================================================



Parsing and semantic processing can take forever if the trace below is long.
 In this case, it is advised to uncomment the module below to deserialize the
 trace from a generated binary file.

\*
\*---- MODULE L4Listener_MC_TETrace ----
\*EXTENDS IOUtils, TLC, L4Listener_MC
\*
\*trace == IODeserialize("L4Listener_MC_TTrace_1791073306.bin", TRUE)
\*
\*=============================================================================
\*

---- MODULE L4Listener_MC_TETrace ----
EXTENDS TLC, L4Listener_MC

trace == 
    <<
    ([consumed |-> {},owner |-> [b1 |-> "pool", b2 |-> "pool", b3 |-> "pool"],pending |-> {"c1", "c2", "c3"},h |-> [c1 |-> "none", c2 |-> "none", c3 |-> "none"],delivered |-> <<>>,clobbered |-> {},done |-> FALSE,chanClosed |-> FALSE,wg |-> 0,closedC |-> [c1 |-> FALSE, c2 |-> FALSE, c3 |-> FALSE],bufOf |-> [c1 |-> "nobuf", c2 |-> "nobuf", c3 |-> "nobuf"],connChan |-> <<>>,loop |-> "accepting",innerClosed |-> FALSE,acceptErr |-> FALSE,waiter |-> "none"]),
    ([consumed |-> {},owner |-> [b1 |-> "c1", b2 |-> "pool", b3 |-> "pool"],pending |-> {"c2", "c3"},h |-> [c1 |-> "running", c2 |-> "none", c3 |-> "none"],delivered |-> <<>>,clobbered |-> {},done |-> FALSE,chanClosed |-> FALSE,wg |-> 1,closedC |-> [c1 |-> FALSE, c2 |-> FALSE, c3 |-> FALSE],bufOf |-> [c1 |-> "b1", c2 |-> "nobuf", c3 |-> "nobuf"],connChan |-> <<>>,loop |-> "accepting",innerClosed |-> FALSE,acceptErr |-> FALSE,waiter |-> "none"]),
    ([consumed |-> {},owner |-> [b1 |-> "c1", b2 |-> "pool", b3 |-> "pool"],pending |-> {"c2", "c3"},h |-> [c1 |-> "piping", c2 |-> "none", c3 |-> "none"],delivered |-> <<>>,clobbered |-> {},done |-> FALSE,chanClosed |-> FALSE,wg |-> 1,closedC |-> [c1 |-> FALSE, c2 |-> FALSE, c3 |-> FALSE],bufOf |-> [c1 |-> "b1", c2 |-> "nobuf", c3 |-> "nobuf"],connChan |-> <<>>,loop |-> "accepting",innerClosed |-> FALSE,acceptErr |-> FALSE,waiter |-> "none"]),
    ([consumed |-> {},owner |-> [b1 |-> "c1", b2 |-> "pool", b3 |-> "pool"],pending |-> {"c2", "c3"},h |-> [c1 |-> "put", c2 |-> "none", c3 |-> "none"],delivered |-> <<>>,clobbered |-> {},done |-> FALSE,chanClosed |-> FALSE,wg |-> 1,closedC |-> [c1 |-> FALSE, c2 |-> FALSE, c3 |-> FALSE],bufOf |-> [c1 |-> "b1", c2 |-> "nobuf", c3 |-> "nobuf"],connChan |-> <<"c1">>,loop |-> "accepting",innerClosed |-> FALSE,acceptErr |-> FALSE,waiter |-> "none"]),
    ([consumed |-> {},owner |-> [b1 |-> "pool", b2 |-> "pool", b3 |-> "pool"],pending |-> {"c2", "c3"},h |-> [c1 |-> "done", c2 |-> "none", c3 |-> "none"],delivered |-> <<>>,clobbered |-> {},done |-> FALSE,chanClosed |-> FALSE,wg |-> 0,closedC |-> [c1 |-> FALSE, c2 |-> FALSE, c3 |-> FALSE],bufOf |-> [c1 |-> "b1", c2 |-> "nobuf", c3 |-> "nobuf"],connChan |-> <<"c1">>,loop |-> "accepting",innerClosed |-> FALSE,acceptErr |-> FALSE,waiter |-> "none"]),
    ([consumed |-> {},owner |-> [b1 |-> "c2", b2 |-> "pool", b3 |-> "pool"],pending |-> {"c3"},h |-> [c1 |-> "done", c2 |-> "running", c3 |-> "none"],delivered |-> <<>>,clobbered |-> {"c1"},done |-> FALSE,chanClosed |-> FALSE,wg |-> 1,closedC |-> [c1 |-> FALSE, c2 |-> FALSE, c3 |-> FALSE],bufOf |-> [c1 |-> "b1", c2 |-> "b1", c3 |-> "nobuf"],connChan |-> <<"c1">>,loop |-> "accepting",innerClosed |-> FALSE,acceptErr |-> FALSE,waiter |-> "none"])
    >>
----


=============================================================================

---- CONFIG L4Listener_MC_TTrace_1791073306 ----
CONSTANTS
    Conns <- MCConns
    Bufs <- MCBufs
    Kind <- KindA
    Cap = 1
    PutOnHijack = TRUE

INVARIANT
    _inv

CHECK_DEADLOCK
    \* CHECK_DEADLOCK off because of PROPERTY or INVARIANT above.
    FALSE

INIT
    _init

NEXT
    _next

CONSTANT
    _TETrace <- _trace

ALIAS
    _expression
=============================================================================
\* Generated on Sun Oct 04 00:21:48 UTC 2026