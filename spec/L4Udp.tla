-------------------------------- MODULE L4Udp --------------------------------
(***************************************************************************)
(* UDP demultiplexing: layer4/server.go servePacket <-> packetConn.        *)
(*                                                                         *)
(* Processes (one action per channel operation of the Go code):            *)
(*   Reader   socket -> `packets' channel                 (server.go 99)   *)
(*   Loop     select over closeCh / packets; look up or create the         *)
(*            association; send the datagram into its readCh  (126-160)    *)
(*   Assoc a  the handler goroutine: Read ... then the deferred Close      *)
(*                                                                         *)
(* Mode = "pinned" is the code at the pinned commit:                       *)
(*   - Close closes readCh; a datagram the loop is about to hand to that   *)
(*     association makes the loop panic ("send on closed channel"), which  *)
(*     kills the whole server process;                                     *)
(*   - close notices carry only the client address, and both the idle path *)
(*     of Read and Close send one: the second notice deletes whatever      *)
(*     association is registered for that address by then.                 *)
(* Mode = "fixed" is the repaired protocol: Close closes a `done' channel, *)
(*   the loop hands a datagram for a closed association to a fresh one,    *)
(*   notices carry the association and only delete their own entry.        *)
(*                                                                         *)
(* Shutdown = TRUE adds the end of the loop: the socket is closed, the      *)
(* reader reports the error, servePacket returns - while handlers may      *)
(* still be running.  Their Close then sends its notice into closeCh,      *)
(* which nobody reads any more: with more live associations than the       *)
(* channel holds, the rest block in Close for ever (CloseGivesUp = FALSE,  *)
(* the code as it is).  CloseGivesUp = TRUE is a Close that does not wait  *)
(* for a loop that has gone.                                               *)
(*                                                                         *)
(* Handler behaviour is a parameter: an association reads Reads[a-th]      *)
(* datagrams and returns; it may also see its idle timer fire while its    *)
(* queue is empty.                                                         *)
(***************************************************************************)
EXTENDS Integers, Sequences, FiniteSets, TLC

CONSTANTS Clients,       \* client addresses
          MaxDg,         \* datagrams in all
          MaxAssoc,      \* associations in all
          PacketsCap, ReadCap, CloseCap,   \* channel capacities (10 / 5 / 10 in the code)
          ReadsBeforeReturn,               \* a handler returns after this many datagrams
          Mode,
          Shutdown, CloseGivesUp

VARIABLES sent,      \* datagrams that reached the socket so far (global arrival sequence)
          packets,   \* chan packet
          closeCh,   \* chan of close notices [addr, a]
          udpConns,  \* addr -> association id (0 = absent)
          nextA,     \* next association id
          A,         \* association id -> record
          loop,      \* loop program state
          crashed, staleDelete,
          delivered, \* a -> sequence of [addr, seq] handed to its handler
          lateTo     \* set of [a, seq]: datagrams queued to a AFTER a had ended
vars == <<sent, packets, closeCh, udpConns, nextA, A, loop, crashed, staleDelete, delivered, lateTo>>

NoAssoc == [addr |-> "none", q |-> <<>>, closed |-> FALSE, st |-> "unused", reads |-> 0]
Assocs == 1..MaxAssoc

Init == /\ sent = 0 /\ packets = <<>> /\ closeCh = <<>>
        /\ udpConns = [c \in Clients |-> 0] /\ nextA = 1
        /\ A = [a \in Assocs |-> NoAssoc]
        /\ loop = [pc |-> "select"] /\ crashed = FALSE /\ staleDelete = FALSE
        /\ delivered = [a \in Assocs |-> <<>>]
        /\ lateTo = {}

\* Reader goroutine + client: a datagram from c reaches the packets channel (server.go 101-115)
Arrive(c) == /\ sent < MaxDg /\ Len(packets) < PacketsCap /\ ~crashed /\ loop.pc # "gone"
             /\ sent' = sent + 1
             /\ packets' = Append(packets, [addr |-> c, seq |-> sent + 1])
             /\ UNCHANGED <<closeCh, udpConns, nextA, A, loop, crashed, staleDelete, delivered, lateTo>>

\* Loop: case notice := <-closeCh (128-131)
LoopNotice ==
  /\ loop.pc = "select" /\ closeCh # <<>> /\ ~crashed
  /\ LET n == Head(closeCh)
         cur == udpConns[n.addr] IN
     IF Mode = "pinned"
     THEN /\ staleDelete' = (staleDelete \/ (cur # 0 /\ A[cur].st = "reading" /\ ~A[cur].closed /\ cur # n.a))
          /\ udpConns' = [udpConns EXCEPT ![n.addr] = 0]
     ELSE /\ udpConns' = IF cur = n.a THEN [udpConns EXCEPT ![n.addr] = 0] ELSE udpConns
          /\ UNCHANGED staleDelete
  /\ closeCh' = Tail(closeCh)
  /\ UNCHANGED <<sent, packets, nextA, A, loop, crashed, delivered, lateTo>>

NewAssoc(addr) == [addr |-> addr, q |-> <<>>, closed |-> FALSE, st |-> "reading", reads |-> 0]

\* Loop: case pkt := <-packets; look up / create (133-157)
LoopPacket ==
  /\ loop.pc = "select" /\ packets # <<>> /\ ~crashed
  /\ LET pkt == Head(packets)
         cur == udpConns[pkt.addr]
         usable == cur # 0 /\ (Mode = "pinned" \/ ~A[cur].closed) IN
     IF usable
     THEN /\ loop' = [pc |-> "send", pkt |-> pkt, a |-> cur]
          /\ UNCHANGED <<udpConns, nextA, A>>
     ELSE /\ nextA <= MaxAssoc
          /\ udpConns' = [udpConns EXCEPT ![pkt.addr] = nextA]
          /\ A' = [A EXCEPT ![nextA] = NewAssoc(pkt.addr)]
          /\ loop' = [pc |-> "send", pkt |-> pkt, a |-> nextA]
          /\ nextA' = nextA + 1
  /\ packets' = Tail(packets)
  /\ UNCHANGED <<sent, closeCh, crashed, staleDelete, delivered, lateTo>>

\* Loop: conn.readCh <- &pkt (158): blocking; "pinned" panics on a closed channel,
\* "fixed" selects on conn.done and hands the datagram to a fresh association instead
LoopSend ==
  /\ loop.pc = "send" /\ ~crashed
  /\ LET a == loop.a IN
     IF A[a].closed
     THEN IF Mode = "pinned"
          THEN /\ crashed' = TRUE /\ UNCHANGED <<A, loop, udpConns, nextA, lateTo>>
          ELSE /\ nextA <= MaxAssoc
               /\ udpConns' = [udpConns EXCEPT ![loop.pkt.addr] = nextA]
               /\ A' = [A EXCEPT ![nextA] = NewAssoc(loop.pkt.addr)]
               /\ loop' = [loop EXCEPT !.a = nextA]
               /\ nextA' = nextA + 1
               /\ UNCHANGED <<crashed, lateTo>>
     ELSE /\ Len(A[a].q) < ReadCap
          /\ A' = [A EXCEPT ![a].q = Append(@, loop.pkt.seq)]
          /\ lateTo' = IF A[a].st \in {"close2", "done"} THEN lateTo \cup {[a |-> a, seq |-> loop.pkt.seq]} ELSE lateTo
          /\ loop' = [pc |-> "select"]
          /\ UNCHANGED <<crashed, udpConns, nextA>>
  /\ UNCHANGED <<sent, packets, closeCh, staleDelete, delivered>>

\* handler goroutine of association a: Read one datagram (294-311)
HRead(a) ==
  /\ A[a].st = "reading" /\ A[a].q # <<>> /\ ~crashed
  /\ delivered' = [delivered EXCEPT ![a] = Append(@, [addr |-> A[a].addr, seq |-> Head(A[a].q)])]
  /\ A' = [A EXCEPT ![a].q = Tail(@), ![a].reads = @ + 1,
                    ![a].st = IF A[a].reads + 1 >= ReadsBeforeReturn THEN "close1" ELSE "reading"]
  /\ UNCHANGED <<sent, packets, closeCh, udpConns, nextA, loop, crashed, staleDelete, lateTo>>

\* Read: idle timer fires with an empty queue: closeCh <- notice; return EOF; the handler
\* returns and Close follows (318-331)
HIdle(a) ==
  /\ A[a].st = "reading" /\ A[a].q = <<>> /\ Len(closeCh) < CloseCap /\ ~crashed
  /\ closeCh' = Append(closeCh, [addr |-> A[a].addr, a |-> a])
  /\ A' = [A EXCEPT ![a].st = "close1"]
  /\ UNCHANGED <<sent, packets, udpConns, nextA, loop, crashed, staleDelete, delivered, lateTo>>

\* Close step 1 (339-348): close(readCh) [pinned] / close(done) [fixed]; drain the queue
HClose1(a) ==
  /\ A[a].st = "close1" /\ ~crashed
  /\ A' = [A EXCEPT ![a].closed = TRUE, ![a].q = <<>>, ![a].st = "close2"]
  /\ UNCHANGED <<sent, packets, closeCh, udpConns, nextA, loop, crashed, staleDelete, delivered, lateTo>>

\* the socket is closed: the reader's error reaches the loop, servePacket returns (handlers go on)
LoopShutdown == /\ Shutdown /\ loop.pc = "select" /\ ~crashed
                /\ loop' = [pc |-> "gone"]
                /\ UNCHANGED <<sent, packets, closeCh, udpConns, nextA, A, crashed, staleDelete, delivered, lateTo>>

\* Close step 2 (351): closeCh <- notice
HClose2(a) ==
  /\ A[a].st = "close2" /\ ~crashed
  /\ IF Len(closeCh) < CloseCap
     THEN closeCh' = Append(closeCh, [addr |-> A[a].addr, a |-> a])
     ELSE CloseGivesUp /\ loop.pc = "gone" /\ UNCHANGED closeCh
  /\ A' = [A EXCEPT ![a].st = "done"]
  /\ UNCHANGED <<sent, packets, udpConns, nextA, loop, crashed, staleDelete, delivered, lateTo>>

Next == \/ \E c \in Clients : Arrive(c)
        \/ LoopNotice \/ LoopPacket \/ LoopSend \/ LoopShutdown
        \/ \E a \in Assocs : HRead(a) \/ HIdle(a) \/ HClose1(a) \/ HClose2(a)
Spec == Init /\ [][Next]_vars
\* every goroutine that can take a step eventually does
FairSpec == Spec /\ WF_vars(LoopNotice) /\ WF_vars(LoopPacket) /\ WF_vars(LoopSend)
                 /\ \A a \in Assocs : WF_vars(HRead(a)) /\ WF_vars(HClose1(a)) /\ WF_vars(HClose2(a))

\* ---- properties (C09) ----
NoCrash == ~crashed
NoStaleDelete == ~staleDelete
OwnClientOnly == \A a \in Assocs : \A i \in 1..Len(delivered[a]) : delivered[a][i].addr = A[a].addr
InOrder == \A a \in Assocs : \A i \in 1..(Len(delivered[a]) - 1) : delivered[a][i].seq < delivered[a][i+1].seq
\* a datagram is never queued to an association that has already ended (it would be lost for ever)
NoLateQueue == lateTo = {}
\* a handler that has come back gets through Close: its goroutine ends (also after the loop has gone)
ClosersEnd == \A a \in Assocs : (A[a].st = "close2") ~> (A[a].st = "done")
\* the state constraint that keeps association ids in range must not hide behaviours
View == <<sent, packets, closeCh, udpConns, nextA, A, loop, crashed, staleDelete, lateTo>>
=============================================================================
