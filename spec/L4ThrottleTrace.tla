---------------------------- MODULE L4ThrottleTrace ----------------------------
EXTENDS L4ThrottleAbs, Json, TLCExt
Traces == ndJsonDeserialize("throttle_traces.ndjson")
Judge(t) == LET v == ThrottleViolations(t) IN
            IF v = {} THEN TRUE ELSE PrintT(<<"VBAD", ToJson([id |-> t.id, clauses |-> v])>>)
VARIABLE k
TInit == k = 0
TNext == k < Len(Traces) /\ Judge(Traces[k + 1]) /\ k' = k + 1
Done == (k = Len(Traces)) => PrintT(<<"VDONE", k>>)
=============================================================================
