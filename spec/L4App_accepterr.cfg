SPECIFICATION Spec
CONSTANTS N = 2 FailAt = 0 MaxConns = 2 CleanupOnFailedStart = FALSE MaxErrs = 2 RetryTransient = FALSE
INVARIANTS TypeOK AllTracked StopClosesAll ServedWhileBound
CHECK_DEADLOCK FALSE
