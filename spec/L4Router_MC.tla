---------------------------- MODULE L4Router_MC ----------------------------
(* Exhaustive small-scope configurations of L4Router (toy constants). *)
EXTENDS L4Router, Json

T(at, v) == [k |-> "thr", at |-> at, v |-> v, w |-> v, from |-> 0, sub |-> <<>>]
\* content matcher: needs `at' bytes, answers "N" until `from' bytes have been consumed, then "Y"
P(at, from) == [k |-> "thr", at |-> at, v |-> "Y", w |-> "N", from |-> from, sub |-> <<>>]
NotM(sets) == [k |-> "not", at |-> 0, v |-> "Y", w |-> "Y", from |-> 0, sub |-> sets]
H(k, n) == [k |-> k, n |-> n]

\* matcher-set sequences: single thresholds, AND with order-dependent outcome, OR where an
\* undecided earlier set hides a matching later one, NOT, error, match-all, match-none
SetSeqsSmall == { <<>>,
                  <<{T(1, "Y")}>>, <<{T(2, "Y")}>>, <<{T(1, "N")}>>, <<{T(2, "N")}>>,
                  <<{T(1, "Y"), T(2, "N")}>>,
                  <<{T(2, "Y")}, {T(1, "Y")}>>,
                  <<{T(2, "Y"), T(1, "N")}>>,        \* verdict depends on the AND-order at 1 visible byte
                  <<{P(1, 1)}>>,
                  <<{NotM(<<{T(1, "Y")}>>)}>> }
SetSeqsFull == SetSeqsSmall \cup
                { <<{T(3, "Y")}>>, <<{T(0, "N")}>>, <<{T(1, "E")}>>, <<{T(2, "E"), T(1, "Y")}>>,
                  <<{T(2, "Y"), T(1, "N")}>>, <<{T(1, "N")}, {T(2, "Y")}>>,
                  <<{NotM(<<{T(2, "N")}>>)}>>, <<{NotM(<<{T(1, "N")}, {T(2, "Y")}>>)}>> }
ChainsSmall == { <<H("term", 0)>>, <<H("pass", 0)>>, <<H("eat", 1)>>, <<H("eat", 2)>>, <<H("wrap", 0)>> }
ChainsFull  == ChainsSmall \cup { <<H("eat", 1), H("wrap", 0)>>, <<H("wrap", 0), H("eat", 1)>>, <<H("eat", 3)>> }
SubChain    == { <<H("sub", 2)>> }

ShapesSmall  == [sets : SetSeqsSmall, hs : ChainsSmall \cup SubChain]
ShapesFull   == [sets : SetSeqsFull, hs : ChainsFull \cup SubChain]
ShapesNoSub  == [sets : SetSeqsFull, hs : ChainsFull]
SubShapesSmall == [sets : { <<>>, <<{T(1, "Y")}>>, <<{T(2, "N")}>>, <<{T(2, "Y")}>> },
                   hs : { <<H("term", 0)>>, <<H("pass", 0)>>, <<H("eat", 1)>> }]

\* a route that needs more than the matching limit / exactly the limit / one byte less
ShapesLong == [sets : { <<{T(9, "Y")}>>, <<{T(8, "Y")}>>, <<{T(7, "N")}>>, <<{T(12, "Y")}, {T(3, "N")}>> },
               hs : { <<H("term", 0)>>, <<H("eat", 1)>> }]
\* three routes, reduced palette (the cached not-matched rule needs a third route to matter)
SetSeqsTiny == { <<>>, <<{T(1, "Y")}>>, <<{T(2, "Y")}>>, <<{T(1, "N")}>>, <<{T(2, "N")}>>, <<{P(1, 1)}>> }
ShapesTiny == [sets : SetSeqsTiny, hs : { <<H("term", 0)>>, <<H("pass", 0)>>, <<H("eat", 1)>>, <<H("eat", 2)>>, <<H("wrap", 0)>> }]
\* quick three-route scope: undecided / content-dependent / late matchers, consuming handlers
SetSeqsQ3 == { <<{T(2, "Y")}>>, <<{P(1, 1)}>>, <<{T(3, "Y")}>>, <<{T(1, "N")}>> }
ShapesQ3 == [sets : SetSeqsQ3, hs : { <<H("term", 0)>>, <<H("eat", 1)>>, <<H("wrap", 0)>> }]

\* C01: chains of the SHIPPED wrapping handlers (proxy_protocol "pp", throttle "thr", tee, echo,
\* subroute) behind matchers that inspect 0, 1 or 2 units, with consuming handlers in between
SetSeqsC01 == { <<>>, <<{T(3, "Y")}>>, <<{T(8, "Y")}>>, <<{T(516, "Y")}>> }
ChainsC01 == { <<H("pp", 7)>>, <<H("thr", 0)>>, <<H("tee", 0)>>, <<H("tee", 0), H("eat", 2)>>,
               <<H("thr", 0), H("tee", 0), H("echo", 0)>>, <<H("pp", 7), H("thr", 0), H("eat", 1)>>,
               <<H("echo", 0)>>, <<H("eat", 7)>>, <<H("sub", 2)>> }
ShapesC01 == [sets : SetSeqsC01, hs : ChainsC01]
SubShapesC01 == [sets : { <<>>, <<{T(4, "Y")}>>, <<{T(600, "N")}>> }, hs : { <<H("echo", 0)>>, <<H("tee", 0), H("term", 0)>>, <<H("thr", 0)>> }]

PS12 == {1, 2}
SL3 == 0..3
SL4 == 0..4
SL11 == 0..11
\* real-size scope for the shipped handlers: one unit = 4 bytes, so Chunk = 512 units (2048 bytes),
\* Limit = 2048 units (8192 bytes); a PROXY v2 IPv4 header is 28 bytes = 7 units
PSReal == {5, 64, 512}
SLReal == {0, 6, 7, 15, 520, 530}

\* behaviours leave TLC as JSON lines printed at terminal states (see bin/check)
Emit == pc = "done" =>
          PrintT(<<"BEH", ToJson([cfg |-> cfg, slen |-> slen, endKind |-> endKind,
                                   hist |-> hist, amb |-> ambiguous])>>)
=============================================================================
