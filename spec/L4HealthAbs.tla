------------------------------ MODULE L4HealthAbs ------------------------------
(***************************************************************************)
(* C11 as clauses over timed observations of the real proxy handler        *)
(* (times in ms since the run started; tol = tolerance at window edges).   *)
(* t.kind = "window": passive health accounting                            *)
(*     t.F, t.M, t.tol; t.ev: [e |-> "Fail", p, t] (a dial failure was     *)
(*     counted) and [e |-> "Sample", t, fails : Seq(Int), avail : Seq(Bool)]*)
(* t.kind = "retry": t.D, t.I, t.eps, t.slack; t.ev: [e |-> "Dial", t, ok],*)
(*     [e |-> "None", t] (no upstream available), [e |-> "Ret", t, err]    *)
(* t.kind = "limit": t.max; t.ev: [e |-> "Open", c, u, t] (connection c    *)
(*     reached upstream u), [e |-> "Refused", c, t] (handler returned an   *)
(*     error), [e |-> "End", c, t]                                         *)
(* t.kind = "active": t.bound; t.ev: [e |-> "Down", t], [e |-> "Up", t],   *)
(*     [e |-> "Sample", t, unhealthy]                                      *)
(***************************************************************************)
EXTENDS Integers, Sequences, FiniteSets, TLC

IsE(ev, name) == ev.e = name
Idx(h, name) == { i \in 1..Len(h) : IsE(h[i], name) }

\* ---- window ----
FailsIn(h, p, lo, hi) == Cardinality({ i \in Idx(h, "Fail") : h[i].p = p /\ h[i].t > lo /\ h[i].t <= hi })
\* failures surely still remembered at time x: younger than F - tol; possibly remembered: younger than F + tol
Sure(t, p, x) == FailsIn(t.ev, p, x - t.F + t.tol, x - t.tol)
Maybe(t, p, x) == FailsIn(t.ev, p, x - t.F - t.tol, x + t.tol)
W1(t) == \A i \in Idx(t.ev, "Sample") : \A p \in DOMAIN t.ev[i].fails :
            /\ t.ev[i].fails[p] >= Sure(t, p, t.ev[i].t)
            /\ t.ev[i].fails[p] <= Maybe(t, p, t.ev[i].t)
            /\ t.ev[i].fails[p] >= 0
W2(t) == \A i \in Idx(t.ev, "Sample") : \A p \in DOMAIN t.ev[i].avail :
            /\ Sure(t, p, t.ev[i].t) >= t.M => ~t.ev[i].avail[p]
            /\ Maybe(t, p, t.ev[i].t) < t.M => t.ev[i].avail[p]

\* ---- retry ----
Attempts(t) == { i \in 1..Len(t.ev) : IsE(t.ev[i], "Dial") \/ IsE(t.ev[i], "None") }
NextAttempt(t, i) == LET S == { j \in Attempts(t) : j > i } IN IF S = {} THEN 0 ELSE CHOOSE j \in S : \A k \in S : j <= k
R1(t) == \A i \in Attempts(t) : LET j == NextAttempt(t, i) IN
            j # 0 => /\ t.ev[j].t - t.ev[i].t >= t.I - t.eps
                     /\ t.ev[j].t - t.ev[i].t <= t.I + t.slack
R2(t) == /\ Idx(t.ev, "Ret") # {} /\ Attempts(t) # {}
         /\ \A i \in Idx(t.ev, "Ret") :
              /\ t.ev[i].err # ""
              /\ t.ev[i].t >= t.D - t.eps
              /\ t.ev[i].t <= t.D + t.I + t.slack
              \* nothing is tried once try_duration has elapsed and an attempt has failed after it
              /\ \A a \in Attempts(t) : a < i
R3(t) == \A i \in Idx(t.ev, "Ret") :
            LET dials == { j \in Idx(t.ev, "Dial") : j < i } IN
            dials # {} => t.ev[i].err = "refused"
R4(t) == t.D = 0 => Cardinality(Attempts(t)) = 1

\* ---- limit ----
OpenAt(t, u, x) == Cardinality({ i \in Idx(t.ev, "Open") : t.ev[i].u = u /\ t.ev[i].t <= x /\
                      ~\E j \in Idx(t.ev, "End") : t.ev[j].c = t.ev[i].c /\ t.ev[j].t <= x - t.tol })
\* no upstream ever holds more than max proxied connections (an End is trusted only tol ms later)
L1(t) == \A i \in Idx(t.ev, "Open") :
            Cardinality({ k \in Idx(t.ev, "Open") : k <= i /\ t.ev[k].u = t.ev[i].u /\
                           ~\E j \in Idx(t.ev, "End") : j < i /\ t.ev[j].c = t.ev[k].c }) <= t.max
\* a connection is refused only when every upstream is at its limit
L2(t) == \A i \in Idx(t.ev, "Refused") : \A u \in 1..t.nups :
            Cardinality({ k \in Idx(t.ev, "Open") : k < i /\ t.ev[k].u = u /\
                           ~\E j \in Idx(t.ev, "End") : j < i /\ t.ev[j].c = t.ev[k].c }) >= t.max

\* the connection counters equal the proxied connections that are open (sampled at rest):
\* every peer of upstream u counts the connections that reached u and have not ended
OpenOn(t, u, i) == Cardinality({ k \in Idx(t.ev, "Open") : k < i /\ t.ev[k].u = u /\
                                  ~\E j \in Idx(t.ev, "End") : j < i /\ t.ev[j].c = t.ev[k].c })
L3(t) == \A i \in Idx(t.ev, "CSample") : \A u \in DOMAIN t.ev[i].conns : \A p \in DOMAIN t.ev[i].conns[u] :
            t.ev[i].conns[u][p] = OpenOn(t, u, i)

\* ---- active ----
LastChange(t, i) == LET S == { j \in 1..(i-1) : IsE(t.ev[j], "Down") \/ IsE(t.ev[j], "Up") } IN
                    IF S = {} THEN 0 ELSE CHOOSE j \in S : \A k \in S : k <= j
A1(t) == \A i \in Idx(t.ev, "Sample") : LET c == LastChange(t, i) IN
            (c # 0 /\ t.ev[i].t - t.ev[c].t >= t.bound) =>
               (t.ev[i].unhealthy <=> IsE(t.ev[c], "Down"))

\* ---- fresh ----
\* the first handler's checker did mark the refusing peer down (else the run shows nothing), and the handler loaded after
\* every user of the peer was unloaded starts with a peer in rotation: healthy, no failures, no connections - and serves
F0(t) == \A i \in Idx(t.ev, "Marked") : t.ev[i].unhealthy
F1(t) == \A i \in Idx(t.ev, "Fresh") : ~t.ev[i].unhealthy /\ t.ev[i].fails = 0 /\ t.ev[i].conns = 0 /\ t.ev[i].served

HealthViolations(t) ==
  CASE t.kind = "window" ->
         (IF W1(t) THEN {} ELSE {"W1 failure counter is not the number of dial failures of the last fail_duration (or negative)"})
         \cup (IF W2(t) THEN {} ELSE {"W2 upstream in/out of rotation inconsistent with max_fails and the remembered failures"})
    [] t.kind = "retry" ->
         (IF R1(t) THEN {} ELSE {"R1 retries not spaced by try_interval"})
         \cup (IF R2(t) THEN {} ELSE {"R2 handler gave up before try_duration, kept trying long after it, or returned no error"})
         \cup (IF R3(t) THEN {} ELSE {"R3 handler did not fail with the last dial error"})
         \cup (IF R4(t) THEN {} ELSE {"R4 retried although try_duration is zero"})
    [] t.kind = "limit" ->
         (IF L1(t) THEN {} ELSE {"L1 an upstream at max_connections was given another connection"})
         \cup (IF L2(t) THEN {} ELSE {"L2 a connection was refused although an upstream was below its limit"})
         \cup (IF L3(t) THEN {} ELSE {"L3 connection counters differ from the proxied connections that are open (leaked or negative count)"})
    [] t.kind = "fresh" ->
         (IF F0(t) THEN {} ELSE {"A1 active health check did not mark the peer down while refusing / up again once accepting"})
         \cup (IF F1(t) THEN {} ELSE {"F1 a handler loaded after every user of a peer was unloaded did not start with that peer in rotation (state of an earlier configuration survived)"})
    [] t.kind = "active" ->
         (IF A1(t) THEN {} ELSE {"A1 active health check did not mark the peer down while refusing / up again once accepting"})
    [] OTHER -> {"unknown trace kind"}
=============================================================================
