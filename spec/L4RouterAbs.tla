---------------------------- MODULE L4RouterAbs ----------------------------
(***************************************************************************)
(* The routing loop of caddy-l4: layer4/routes.go RouteList.Compile,       *)
(* layer4/matchers.go MatcherSet.Match / MatcherSets.AnyMatch / MatchNot,  *)
(* together with layer4/connection.go (through L4Segs) and                 *)
(* modules/l4subroute (a nested Compile whose fallback is the rest of the  *)
(* outer route).                                                           *)
(*                                                                         *)
(* Two layers share this module:                                           *)
(*                                                                         *)
(*  - RouterImpl: Init/Next below, one action per statement group of       *)
(*    Compile, same variables as the Go closure (lastMatchedRouteIdx,      *)
(*    lastNeedsMoreIdx, routesStatus, matcherNeedMore), a frame per nested *)
(*    Compile.  TLC checks it exhaustively in small scope and enumerates   *)
(*    its behaviours, which are replayed on the real code.                 *)
(*                                                                         *)
(*  - RouterAbs: the operators R1 .. R9 / D1 .. D3 / B1 below.  They are   *)
(*    predicates over a CONFIGURATION and a HISTORY of observable events   *)
(*    and say exactly what properties C02 (and the untimed half of C05 and *)
(*    the router half of C01) forbid.  They are evaluated by TLC on every  *)
(*    state of RouterImpl (hist is a history variable) and, unchanged, on  *)
(*    every history recorded from the real code (L4RouterTrace.tla).       *)
(*                                                                         *)
(* A configuration is [lists |-> <<list1, list2, ...>>]; list 1 is the     *)
(* server's route list, further lists are referenced by "sub" handlers.    *)
(* A route is [sets |-> Seq(SUBSET matcher), hs |-> Seq(handler)].  A      *)
(* matcher SET is a set because MatcherSets.FromInterface ranges over a Go *)
(* map: the AND-order is arbitrary and fixed at provision time.            *)
(* matcher : [k |-> "thr", at |-> t, v, w, from, sub |-> <<>>]              *)
(*             answers M (needs more) while fewer than t bytes are         *)
(*             visible, then w while the connection's first unread byte is *)
(*             before stream position `from', v from there on (verdicts    *)
(*             "Y" "N" "E"); from = 0 makes it a pure threshold matcher    *)
(*           [k |-> "not", ..., sub |-> Seq(SUBSET thr)]                   *)
(* handler : [k |-> "term"|"pass"|"eat"|"wrap"|"sub", n |-> Nat]           *)
(*             eat reads n bytes then calls next; wrap calls next with     *)
(*             cx.Wrap(pass-through conn); sub runs route list n.          *)
(***************************************************************************)
EXTENDS L4Segs, TLC

(***************************************************************************)
(* Verdict algebra                                                         *)
(***************************************************************************)
RECURSIVE MPV(_, _, _), SetPV(_, _, _), NotPV(_, _, _)

\* possible verdicts of one matcher when a bytes are visible and the first of them is stream
\* position p (a content matcher's verdict changes when a handler has consumed or stripped a
\* prefix: below position m.from it answers m.w, from there on m.v)
MPV(m, a, p) == IF m.k = "thr" THEN {IF a < m.at THEN "M" ELSE IF p >= m.from THEN m.v ELSE m.w}
                ELSE NotPV(m.sub, a, p)

\* MatcherSet.Match: members evaluated in SOME order, first non-(true,nil) result is returned
SetPV(set, a, p) ==
  (IF \A m \in set : "Y" \in MPV(m, a, p) THEN {"Y"} ELSE {})
  \cup UNION { MPV(m, a, p) \ {"Y"} : m \in set }

\* MatchNot.Match: sets in order; error propagates, a matching set gives N, all N gives Y
NotPV(sets, a, p) ==
  IF sets = <<>> THEN {"Y"}
  ELSE LET h == SetPV(Head(sets), a, p) IN
       (h \cap {"M", "E"})
       \cup (IF "Y" \in h THEN {"N"} ELSE {})
       \cup (IF "N" \in h THEN NotPV(Tail(sets), a, p) ELSE {})

\* MatcherSets.AnyMatch: sets in order; the first set that is not N decides
RECURSIVE AnyPV(_, _, _)
AnyPV(sets, a, p) ==
  IF sets = <<>> THEN {"N"}
  ELSE LET h == SetPV(Head(sets), a, p) IN
       (h \ {"N"}) \cup (IF "N" \in h THEN AnyPV(Tail(sets), a, p) ELSE {})

RoutePV(r, a, p) == IF r.sets = <<>> THEN {"Y"} ELSE AnyPV(r.sets, a, p)

(***************************************************************************)
(* RouterAbs: the properties, as predicates over (configuration, history)  *)
(*                                                                         *)
(* events:  [e |-> "Dl", l]      SetReadDeadline; l = list whose deadline  *)
(*                               was armed, 0 = cleared                    *)
(*          [e |-> "Pull", n]    a socket read issued by prefetch got n    *)
(*          [e |-> "Sock", k]    a prefetch's socket read got "eof" or     *)
(*                               "timeout"                                 *)
(*          [e |-> "Handle", l, r, vis, pos]  handlers of route r of list  *)
(*                               l invoked with vis unread buffered bytes, *)
(*                               the first of them at stream position pos  *)
(*          [e |-> "HRead", segs] a handler read these stream positions    *)
(*          [e |-> "HErr"]       a handler returned an error               *)
(*          [e |-> "Tee"]        a tee handler starts its branch           *)
(*          [e |-> "Branch", segs]  everything a tee branch read           *)
(*          [e |-> "Term", l, r] a terminal handler consumed the conn      *)
(*          [e |-> "Enter", l, vis]  a subroute handler starts list l      *)
(*          [e |-> "Fallback", l, vis]  the fallback of list l invoked     *)
(*          [e |-> "Abort", k]   matching abandoned: timeout eof full merr *)
(*          [e |-> "Return"]     the compiled handler returned             *)
(*          [e |-> "Buf", n]     (harness observation, before Return) the  *)
(*                               largest matching buffer any matcher saw   *)
(***************************************************************************)
Is(ev, name) == ev.e = name
MaxOf(S, dflt) == IF S = {} THEN dflt ELSE CHOOSE x \in S : \A y \in S : y <= x

\* highest route of list L handled strictly before position k
LastHandled(h, L, k) ==
  MaxOf({ h[j].r : j \in { j \in 1..(k-1) : Is(h[j], "Handle") /\ h[j].l = L } }, 0)

\* R1: a route's handlers run only if one of its matcher sets may have matched the visible bytes
R1(cf, h) == \A k \in 1..Len(h) : Is(h[k], "Handle") =>
               "Y" \in RoutePV(cf.lists[h[k].l][h[k].r], h[k].vis, h[k].pos)

\* R1e (C05: matching that ends by a matcher error invokes no further handler): a route whose matcher sets can only FAIL on
\* the visible bytes - every possible verdict is the error - did not have its handlers run
R1e(cf, h) == \A k \in 1..Len(h) : Is(h[k], "Handle") =>
                RoutePV(cf.lists[h[k].l][h[k].r], h[k].vis, h[k].pos) # {"E"}

\* R2: routes run in configured order without repetition
R2(cf, h) == \A k \in 1..Len(h) : Is(h[k], "Handle") => h[k].r > LastHandled(h, h[k].l, k)

\* R3: a route decided as matching is never passed over (with all earlier routes decided
\*     this is "the first matching route is chosen")
R3(cf, h) == \A k \in 1..Len(h) : Is(h[k], "Handle") =>
               \A j \in (LastHandled(h, h[k].l, k) + 1)..(h[k].r - 1) :
                  RoutePV(cf.lists[h[k].l][j], h[k].vis, h[k].pos) # {"Y"}

\* R4 / R6: after a terminal handler, an abort or a handler error nothing else runs
Final(ev) == Is(ev, "Term") \/ Is(ev, "Abort") \/ Is(ev, "HErr")
R4(cf, h) == \A k \in 1..Len(h) : Final(h[k]) => \A j \in (k+1)..Len(h) : Is(h[j], "Return") \/ Is(h[j], "Branch") \/ Is(h[j], "Buf")

\* R5a: the fallback runs at most once per list, and only when every remaining route
\*      may be decided as not matching on the visible bytes
R5a(cf, h) == \A k \in 1..Len(h) : Is(h[k], "Fallback") =>
                /\ \A j \in 1..(k-1) : ~(Is(h[j], "Fallback") /\ h[j].l = h[k].l)
                /\ \A j \in (LastHandled(h, h[k].l, k) + 1)..Len(cf.lists[h[k].l]) :
                      "N" \in RoutePV(cf.lists[h[k].l][j], h[k].vis, h[k].pos)

\* R5b / R9: when the handler returns without terminal handler, abort or error, every list
\*      that was entered has handed the connection to its fallback (exactly once by R5a)
Entered(h) == {1} \cup { h[j].l : j \in { j \in 1..Len(h) : Is(h[j], "Enter") } }
R5b(cf, h) == (Len(h) > 0 /\ Is(h[Len(h)], "Return") /\ \A k \in 1..Len(h) : ~Final(h[k])) =>
                \A L \in Entered(h) : \E k \in 1..Len(h) : Is(h[k], "Fallback") /\ h[k].l = L

\* a sub list runs only after being entered, and a list's fallback only after the list started
R5c(cf, h) == \A k \in 1..Len(h) :
                (Is(h[k], "Handle") \/ Is(h[k], "Fallback")) /\ h[k].l # 1 =>
                   \E j \in 1..(k-1) : Is(h[j], "Enter") /\ h[j].l = h[k].l

\* R7: handlers together read the client's stream exactly once, in order, from position 0
RECURSIVE AllReads(_)
AllReads(h) == IF h = <<>> THEN <<>>
               ELSE IF Is(Head(h), "HRead") THEN Head(h).segs \o AllReads(Tail(h))
               ELSE AllReads(Tail(h))
R7(cf, h) == Contig(AllReads(h), 0)

\* R8: a tee branch reads exactly what the handlers after the tee read (same bytes, same order)
\*     [e |-> "Tee"] marks the tee handler, [e |-> "Branch", segs] what its branch read in all
ReadsAfter(h, k) == AllReads(SubSeq(h, k + 1, Len(h)))
FirstTee(h) == LET S == { k \in 1..Len(h) : Is(h[k], "Tee") } IN
               IF S = {} THEN 0 ELSE CHOOSE x \in S : \A y \in S : x <= y
\* the run drained the connection: a terminal handler or the top-level fallback read it to its end
Drained(h) == \E k \in 1..Len(h) : Is(h[k], "Term") \/ (Is(h[k], "Fallback") /\ h[k].l = 1)
R8(cf, h) == \A b \in 1..Len(h) : Is(h[b], "Branch") =>
               /\ FirstTee(h) # 0
               /\ LET main == AppendAll(<<>>, ReadsAfter(SubSeq(h, 1, b), FirstTee(h)))
                      br   == AppendAll(<<>>, h[b].segs) IN
                  \* the branch may be ahead of the recorded reads (bytes fetched for matching or by a
                  \* handler's own read-ahead pass the tee when they are fetched), never behind, never different
                  IF Drained(h) THEN br = main
                  ELSE /\ Len(br) <= 1 /\ Len(main) <= 1
                       /\ (main # <<>>) => (br # <<>> /\ br[1][1] = main[1][1] /\ br[1][2] >= main[1][2])

\* D1: bytes are pulled for matching only under an armed deadline
\* D2: the handlers of a matched route run with the deadline cleared (C05: "once a route has
\*     matched the deadline no longer limits its handlers").  Deliberately NOT required of the
\*     fallback: with an EMPTY route list Compile reaches `lastMatchedRouteIdx == len(routes)-1'
\*     (-1 = -1) and calls the fallback with the deadline still armed (routes.go 209-212); the
\*     property does not speak about that case, so it is recorded in DESIGN.md, not flagged.
\* D3: matching is abandoned for "timeout"/"eof" only when the socket said so, for "full"
\*     only when at least Limit bytes were pulled, for "merr" only if a matcher may fail
LastDl(h, k) == LET S == { j \in 1..(k-1) : Is(h[j], "Dl") } IN
                IF S = {} THEN -1 ELSE h[MaxOf(S, 0)].l
D1(cf, h) == \A k \in 1..Len(h) : (Is(h[k], "Pull") \/ Is(h[k], "Sock")) => LastDl(h, k) > 0
AfterTopFallback(h, k) == \E j \in 1..(k-1) : Is(h[j], "Fallback") /\ h[j].l = 1
D2(cf, h) == \A k \in 1..Len(h) :
               ((Is(h[k], "Handle") \/ Is(h[k], "HRead") \/ Is(h[k], "Term")) /\ ~AfterTopFallback(h, k))
                  => LastDl(h, k) = 0
\* D2b: the fallback of a route list (close, the handler after a subroute, the wrapped listener) receives the
\*      connection with the matching deadline cleared as well - except for an EMPTY list (see above)
\*      whose deadline, armed on entry, nobody clears: not on its own fallback, and not on the fallback of the
\*      enclosing list if the subroute handler was its last handler of its last route
\* (a deadline armed with a timeout that no list configures is recorded as l = -1: it is not "cleared")
D2b(cf, h) == \A k \in 1..Len(h) : Is(h[k], "Fallback") =>
                (LastDl(h, k) = 0 \/ (LastDl(h, k) \in DOMAIN cf.lists /\ Len(cf.lists[LastDl(h, k)]) = 0))
\* D0: every matching deadline is the timeout of the route list that arms it (none that no list configures)
D0(cf, h) == \A k \in 1..Len(h) : Is(h[k], "Dl") => (h[k].l = 0 \/ h[k].l \in DOMAIN cf.lists)
RECURSIVE SumPull(_)
SumPull(h) == IF h = <<>> THEN 0
              ELSE (IF Is(Head(h), "Pull") THEN Head(h).n ELSE 0) + SumPull(Tail(h))
D3(cf, h, limit) ==
  \A k \in 1..Len(h) : Is(h[k], "Abort") =>
     CASE h[k].k \in {"timeout", "eof"} -> k > 1 /\ Is(h[k-1], "Sock") /\ h[k-1].k = h[k].k
       [] h[k].k = "full"  -> SumPull(SubSeq(h, 1, k)) >= limit
       [] h[k].k = "merr"  -> TRUE
       [] OTHER            -> FALSE

\* B1: while no handler has run, never more than Limit + Chunk - 1 bytes are pulled
FirstRun(h) == LET S == { j \in 1..Len(h) : Is(h[j], "Handle") \/ Is(h[j], "Fallback") } IN
               IF S = {} THEN Len(h) ELSE CHOOSE x \in S : \A y \in S : x <= y
B1(cf, h, limit, chunk) == SumPull(SubSeq(h, 1, FirstRun(h))) <= limit + chunk - 1

\* the visible-byte counts handlers see are within the buffer bound as well
B2(cf, h, limit, chunk) ==
  \A k \in 1..Len(h) : (Is(h[k], "Handle") \/ Is(h[k], "Fallback") \/ Is(h[k], "Enter"))
                          => h[k].vis <= limit + chunk - 1

\* B3: the largest matching buffer any matcher saw on any Connection of the client (recorded by the harness
\*     as [e |-> "Buf", n]) stays within the limit plus one prefetch chunk
B3(cf, h, limit, chunk) == \A k \in 1..Len(h) : Is(h[k], "Buf") => h[k].n <= limit + chunk - 1

\* names of the violated clauses (empty set = history accepted); used by the trace spec
Violations(cf, h, limit, chunk) ==
  (IF R1(cf, h) THEN {} ELSE {"R1 handlers ran although no matcher set can match the visible bytes"})
  \cup (IF R1e(cf, h) THEN {} ELSE {"R1e the handlers of a route ran although its matchers can only fail on the visible bytes (a matcher error was swallowed)"})
  \cup (IF R2(cf, h) THEN {} ELSE {"R2 routes out of order or repeated"})
  \cup (IF R3(cf, h) THEN {} ELSE {"R3 a route decided as matching was passed over"})
  \cup (IF R4(cf, h) THEN {} ELSE {"R4 something ran after terminal handler / abort / handler error"})
  \cup (IF R5a(cf, h) THEN {} ELSE {"R5a fallback repeated or invoked while a remaining route is not decided as not matching"})
  \cup (IF R5b(cf, h) THEN {} ELSE {"R5b returned without terminal handler, abort or fallback"})
  \cup (IF R5c(cf, h) THEN {} ELSE {"R5c sub list ran without being entered"})
  \cup (IF R7(cf, h) THEN {} ELSE {"R7 handlers did not read the stream exactly once in order"})
  \cup (IF R8(cf, h) THEN {} ELSE {"R8 a tee branch did not read what the handlers after the tee read"})
  \cup (IF D1(cf, h) THEN {} ELSE {"D1 matching pulled bytes without an armed deadline"})
  \cup (IF D2(cf, h) THEN {} ELSE {"D2 handler of a matched route ran with the matching deadline armed"})
  \cup (IF D0(cf, h) THEN {} ELSE {"D0 a matching deadline was armed with a timeout that no route list configures"})
  \cup (IF D2b(cf, h) THEN {} ELSE {"D2b the fallback received the connection with the matching deadline still armed"})
  \cup (IF D3(cf, h, limit) THEN {} ELSE {"D3 matching abandoned without cause"})
  \cup (IF B1(cf, h, limit, chunk) THEN {} ELSE {"B1 more than limit+chunk-1 bytes pulled before any handler"})
  \cup (IF B2(cf, h, limit, chunk) THEN {} ELSE {"B2 more than limit+chunk-1 bytes buffered"})
  \cup (IF B3(cf, h, limit, chunk) THEN {} ELSE {"B3 a matching buffer grew beyond limit+chunk-1 bytes"})

=============================================================================
