SPECIFICATION Spec
CONSTANTS Chunks = 3 ClosePipeOnReturn = FALSE BranchEndDrains = FALSE
INVARIANTS TypeOK Lockstep BranchSeesAll
PROPERTIES MainEnds
CHECK_DEADLOCK FALSE
