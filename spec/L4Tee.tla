-------------------------------- MODULE L4Tee --------------------------------
(***************************************************************************)
(* The goroutine protocol of the tee handler (modules/l4tee/tee.go) -      *)
(* beyond the listed properties (C01's clause R8 judges WHAT the branch    *)
(* reads; this module is about WHETHER the two readers get on and end).    *)
(*                                                                         *)
(* tee.Handle creates an io.Pipe (pr, pw), hands the next handler a        *)
(* connection whose Read is io.TeeReader(cx, pw) and runs the branch chain *)
(* in a goroutine of its own on a connection whose Read is pr.Read.        *)
(*   - io.TeeReader.Read: n, err = cx.Read(p); if n > 0, pw.Write(p[:n])   *)
(*     - and an io.Pipe is SYNCHRONOUS: Write returns only when the reader *)
(*     has taken every byte (or one end was closed);                       *)
(*   - nextConn.Read closes pw when - and only when - cx.Read said io.EOF; *)
(*   - nobody ever closes pr; tee.Handle returns what next.Handle returns, *)
(*     and the server then closes the connection (which the pipe does not  *)
(*     notice).                                                            *)
(*                                                                         *)
(* One unit = one chunk the client sent.  The scenario is chosen in Init:  *)
(*   end   how the client's stream ends after Chunks chunks:               *)
(*         "eof" | "err" (reset, timeout: any error but io.EOF) | "open"   *)
(*   mstop the main chain returns by itself after so many chunks (a proxy  *)
(*         whose upstream has finished, a handler that reads a header);    *)
(*         -1 = it reads until Read fails                                  *)
(*   bstop the same for the branch chain                                   *)
(* Two constants describe repairs, FALSE = the code as it is:              *)
(*   ClosePipeOnReturn  pw is closed when the CONNECTION is closed (the    *)
(*                      model's Return step = "the chain has returned and  *)
(*                      the server has closed the connection").  Not: when *)
(*                      next.Handle returns - in a non-terminal route it   *)
(*                      returns at once and matching goes on, on the tee's *)
(*                      connection; a `defer pw.Close()` in tee.Handle     *)
(*                      breaks every later read (seeded change C02-m12)    *)
(*   BranchEndDrains    when the branch chain has returned, what is still  *)
(*                      written to the pipe is discarded (io.Copy(io.Discard, pr)) *)
(***************************************************************************)
EXTENDS Integers, Sequences, FiniteSets, TLC, Json

CONSTANTS Chunks, ClosePipeOnReturn, BranchEndDrains
ASSUME Chunks \in Nat /\ ClosePipeOnReturn \in BOOLEAN /\ BranchEndDrains \in BOOLEAN

VARIABLES end, mstop, bstop,   \* the scenario (never change)
          sent,      \* chunks the main chain's cx.Read has pulled from the client
          mpc,       \* main chain: "call" about to Read / decide, "write" inside pw.Write, "ret" next.Handle returned
          mgot,      \* chunks the main chain's Read has returned to its handler
          mend,      \* how the main chain's last Read ended: "none" | "eof" | "err"
          pend,      \* 1 while a chunk is offered in the pipe (the writer is blocked on it)
          wclosed,   \* pw has been closed
          returned,  \* tee.Handle has returned and the server has closed the connection
          bpc,       \* branch chain: "read" | "done"
          bgot,      \* chunks the branch has read
          beof,      \* the branch's Read has reported the end of the pipe
          dpc,       \* drainer (only with BranchEndDrains): "off" | "drain" | "done"
          dgot       \* chunks the drainer has discarded
vars == <<end, mstop, bstop, sent, mpc, mgot, mend, pend, wclosed, returned, bpc, bgot, beof, dpc, dgot>>
scen == <<end, mstop, bstop>>

Stops == -1..Chunks
Init == /\ end \in {"eof", "err", "open"} /\ mstop \in Stops /\ bstop \in Stops
        /\ sent = 0 /\ mpc = "call" /\ mgot = 0 /\ mend = "none" /\ pend = 0 /\ wclosed = FALSE
        /\ returned = FALSE /\ bpc = "read" /\ bgot = 0 /\ beof = FALSE /\ dpc = "off" /\ dgot = 0

MainWants == mstop = -1 \/ mgot < mstop

\* the main chain's handler calls Read: cx.Read returns the next chunk and the TeeReader starts writing it into the pipe
MainPull == /\ mpc = "call" /\ MainWants /\ sent < Chunks
            /\ sent' = sent + 1 /\ pend' = 1 /\ mpc' = "write"
            /\ UNCHANGED <<scen, mgot, mend, wclosed, returned, bpc, bgot, beof, dpc, dgot>>
\* pw.Write returns: the reader side has taken the chunk (pw is never closed under a blocked writer: only the
\* writer's own goroutine closes it)
MainWritten == /\ mpc = "write" /\ pend = 0
               /\ mgot' = mgot + 1 /\ mpc' = "call" /\ pend' = 0
               /\ UNCHANGED <<scen, sent, mend, wclosed, returned, bpc, bgot, beof, dpc, dgot>>
\* cx.Read reports the end of the client's stream: io.EOF closes the pipe (nextConn.Read), any other error does not
MainEnd == /\ mpc = "call" /\ MainWants /\ sent = Chunks /\ end # "open"
           /\ mend' = end /\ mpc' = "ret"
           /\ wclosed' = (wclosed \/ end = "eof")
           /\ UNCHANGED <<scen, sent, mgot, pend, returned, bpc, bgot, beof, dpc, dgot>>
\* the main chain has what it wanted and returns without having seen the end of the stream
MainStops == /\ mpc = "call" /\ ~MainWants
             /\ mpc' = "ret"
             /\ UNCHANGED <<scen, sent, mgot, mend, pend, wclosed, returned, bpc, bgot, beof, dpc, dgot>>
\* tee.Handle returns, the server closes the connection
Return == /\ mpc = "ret" /\ ~returned
          /\ returned' = TRUE
          /\ wclosed' = (wclosed \/ ClosePipeOnReturn)
          /\ UNCHANGED <<scen, sent, mpc, mgot, mend, pend, bpc, bgot, beof, dpc, dgot>>

BranchWants == bstop = -1 \/ bgot < bstop
\* pr.Read: takes what the writer offers; reports the end once pw is closed and nothing is offered
BranchTake == /\ bpc = "read" /\ BranchWants /\ pend = 1
              /\ pend' = 0 /\ bgot' = bgot + 1
              /\ UNCHANGED <<scen, sent, mpc, mgot, mend, wclosed, returned, bpc, beof, dpc, dgot>>
BranchEOF == /\ bpc = "read" /\ BranchWants /\ pend = 0 /\ wclosed
             /\ bpc' = "done" /\ beof' = TRUE
             /\ dpc' = dpc
             /\ UNCHANGED <<scen, sent, mpc, mgot, mend, pend, wclosed, returned, bgot, dgot>>
BranchStops == /\ bpc = "read" /\ ~BranchWants
               /\ bpc' = "done"
               /\ dpc' = IF BranchEndDrains THEN "drain" ELSE dpc
               /\ UNCHANGED <<scen, sent, mpc, mgot, mend, pend, wclosed, returned, bgot, beof, dgot>>
DrainTake == /\ dpc = "drain" /\ pend = 1
             /\ pend' = 0 /\ dgot' = dgot + 1
             /\ UNCHANGED <<scen, sent, mpc, mgot, mend, wclosed, returned, bpc, bgot, beof, dpc>>
DrainEOF == /\ dpc = "drain" /\ pend = 0 /\ wclosed
            /\ dpc' = "done"
            /\ UNCHANGED <<scen, sent, mpc, mgot, mend, pend, wclosed, returned, bpc, bgot, beof, dgot>>

Next == MainPull \/ MainWritten \/ MainEnd \/ MainStops \/ Return
        \/ BranchTake \/ BranchEOF \/ BranchStops \/ DrainTake \/ DrainEOF
Spec == Init /\ [][Next]_vars
        /\ WF_vars(MainPull) /\ WF_vars(MainWritten) /\ WF_vars(MainEnd) /\ WF_vars(MainStops) /\ WF_vars(Return)
        /\ WF_vars(BranchTake) /\ WF_vars(BranchEOF) /\ WF_vars(BranchStops) /\ WF_vars(DrainTake) /\ WF_vars(DrainEOF)

TypeOK == /\ end \in {"eof", "err", "open"} /\ mstop \in Stops /\ bstop \in Stops
          /\ sent \in 0..Chunks /\ mgot \in 0..Chunks /\ bgot \in 0..Chunks /\ dgot \in 0..Chunks /\ pend \in 0..1
          /\ mpc \in {"call", "write", "ret"} /\ bpc \in {"read", "done"} /\ dpc \in {"off", "drain", "done"}

(* safety: the branch never sees a chunk the client did not send, the main chain never gets a chunk before the       *)
(* branch side has taken it, and a branch that reads to the end of a stream that ended in io.EOF has read what the   *)
(* main chain has read                                                                                                *)
Lockstep == /\ bgot + dgot + pend = sent
            /\ mgot <= bgot + dgot
            /\ mgot <= sent
BranchSeesAll == (beof /\ mpc = "ret") => bgot + dgot = mgot

(* liveness, under weak fairness of every step:                                                                       *)
(* a main chain whose client ends its stream (or that stops by itself) is never held up for ever by the branch       *)
MainEnds == (end # "open" \/ mstop # -1) => <>(mpc = "ret")
(* once tee.Handle has returned and the connection is closed, the branch goroutine ends                              *)
BranchEnds == [](returned => <>(bpc = "done" /\ dpc # "drain"))

(* every terminal state, as one JSON line: the scenario and how it ended - what the real handler is replayed against *)
Terminal == ~ENABLED Next
Outcome == [end |-> end, mstop |-> mstop, bstop |-> bstop, chunks |-> Chunks,
            mret |-> (mpc = "ret"), mgot |-> mgot, mend |-> mend, bdone |-> (bpc = "done"), bgot |-> bgot, beof |-> beof]
BehOut == Terminal => PrintT(<<"BEH", ToJson(Outcome)>>)
=============================================================================
