----------------------------- MODULE L4ThrottleAbs -----------------------------
(***************************************************************************)
(* C17 as clauses over one run of the real throttle handler with one or    *)
(* several connections.  Times in ms since the run started.                *)
(*   t.rate, t.burst, t.trate, t.tburst as configured (rate 0 and burst 0  *)
(*   = that limit is off; burst 0 with a rate = the documented default,    *)
(*   "same as the rate"), t.latency, t.eps                                 *)
(*   t.ev: [e |-> "Start", c, t]   Handle invoked for connection c         *)
(*         [e |-> "Pull", c, n, t] the underlying connection served n      *)
(*                                 bytes to the throttle (stamped when     *)
(*                                 served)                                 *)
(*   t.reads: per connection, the segments the next handler read           *)
(*   t.t0[c]: when connection c's reader issued its first read; t.tt0: the *)
(*            earliest of them                                             *)
(***************************************************************************)
EXTENDS L4Segs, TLC

IsE(ev, name) == ev.e = name
Pulls(t) == { i \in 1..Len(t.ev) : IsE(t.ev[i], "Pull") }

\* G1: per connection: bytes read by time T after its first read <= burst + rate * T
\* G2: summed over all connections of the handler, for the total limit
\* "the first read" is the instant the reader ISSUED its first read (t.t0[c], t.tt0 for the
\* handler); bytes count when the underlying connection serves them.  One linear pass.
EffBurst(burst, rate) == IF burst > 0 THEN burst ELSE rate      \* documented default burst: the rate
RECURSIVE Walk(_, _, _, _, _)
Walk(t, i, acc, tsum, bad) ==
  IF i > Len(t.ev) THEN bad
  ELSE LET e == t.ev[i] IN
       IF e.e # "Pull" THEN Walk(t, i + 1, acc, tsum, bad)
       ELSE LET s  == acc[e.c] + e.n
                ts == tsum + e.n
                b1 == EffBurst(t.burst, t.rate) > 0 /\ s * 1000 > EffBurst(t.burst, t.rate) * 1000 + t.rate * (e.t - t.t0[e.c] + 1)
                b2 == EffBurst(t.tburst, t.trate) > 0 /\ ts * 1000 > EffBurst(t.tburst, t.trate) * 1000 + t.trate * (e.t - t.tt0 + 1)
            IN Walk(t, i + 1, [acc EXCEPT ![e.c] = s], ts,
                    bad \cup (IF b1 THEN {"G1 a connection read more than burst + rate x time"} ELSE {})
                        \cup (IF b2 THEN {"G2 the connections of the handler together read more than total burst + total rate x time"} ELSE {}))
G12(t) == Walk(t, 1, [c \in DOMAIN t.reads |-> 0], 0, {})

\* G3: the first read is not attempted before the latency has passed
G3(t) == \A i \in Pulls(t) : \A s \in { s \in 1..Len(t.ev) : IsE(t.ev[s], "Start") /\ t.ev[s].c = t.ev[i].c } :
            t.ev[i].t - t.ev[s].t >= t.latency - t.eps
\* G4: throttling never loses, duplicates or reorders bytes
G4(t) == \A c \in DOMAIN t.reads : Contig(t.reads[c].segs, 0) /\ Total(t.reads[c].segs) = t.reads[c].slen

ThrottleViolations(t) ==
  G12(t)
  \cup (IF G3(t) THEN {} ELSE {"G3 a read was attempted before the configured latency had passed"})
  \cup (IF G4(t) THEN {} ELSE {"G4 the throttled stream was not delivered intact"})
=============================================================================
