--------------------------- MODULE L4RouterTrace ---------------------------
(***************************************************************************)
(* Trace validation for the router: every line of router_traces.ndjson is  *)
(* one execution of the REAL RouteList.Compile recorded by the harness     *)
(*   [id, cfg, hist, limit, chunk]                                         *)
(* and is judged by the very operators (L4RouterAbs!Violations) that TLC   *)
(* checks on every state of the RouterImpl model.  One TLC step consumes   *)
(* one trace; a rejected trace is printed as <<"VBAD", id, clauses>> and   *)
(* the run continues, so all traces are always examined.                   *)
(***************************************************************************)
EXTENDS L4RouterAbs, Json, TLCExt

Traces == ndJsonDeserialize("router_traces.ndjson")

\* JSON arrays arrive as sequences; matcher sets are sets in the specification
RECURSIVE FixM(_)
SeqToSet(s) == { s[i] : i \in DOMAIN s }
FixSets(sets) == [i \in DOMAIN sets |-> { FixM(m) : m \in SeqToSet(sets[i]) }]
FixM(m) == [k |-> m.k, at |-> m.at, v |-> m.v, w |-> m.w, from |-> m.from, sub |-> FixSets(m.sub)]
FixRoute(r) == [sets |-> FixSets(r.sets), hs |-> r.hs]
FixCfg(cf) == [lists |-> [L \in DOMAIN cf.lists |-> [i \in DOMAIN cf.lists[L] |-> FixRoute(cf.lists[L][i])]]]

\* a panic of the real code is never acceptable
NoPanic(h) == \A k \in 1..Len(h) : h[k].e # "Panic"

Judge(t) == LET v == Violations(FixCfg(t.cfg), t.hist, t.limit, t.chunk)
                     \cup (IF NoPanic(t.hist) THEN {} ELSE {"P0 the real code panicked"}) IN
            IF v = {} THEN TRUE ELSE PrintT(<<"VBAD", ToJson([id |-> t.id, clauses |-> v])>>)

VARIABLE k
Init == k = 0
Next == /\ k < Len(Traces)
        /\ Judge(Traces[k + 1])
        /\ k' = k + 1
Spec == Init /\ [][Next]_k
\* acceptance: every line was consumed
Done == (k = Len(Traces)) => PrintT(<<"VDONE", k>>)
=============================================================================
