INIT GInit
NEXT GNext
CONSTANTS Tier = "thorough"
INVARIANT EmitPool
CHECK_DEADLOCK FALSE
