INIT TInit
NEXT TNext
INVARIANT Done
CHECK_DEADLOCK FALSE
