----------------------------- MODULE L4ProxyProto -----------------------------
(***************************************************************************)
(* PROXY protocol (C12): receive side modules/l4proxyprotocol/handler.go   *)
(* (allow list, header parsed through a buffered reader, cx.Wrap), send    *)
(* side modules/l4proxy/proxy.go dialPeers (header written right after the *)
(* dial, from the client's EFFECTIVE addresses).                           *)
(*                                                                         *)
(* The reference below says, for every case of a bounded grammar, what a   *)
(* handler placed after proxy_protocol must observe (Recv) and what an     *)
(* upstream must receive first (Send).  Addresses are symbolic:            *)
(*   "hdr.src" / "hdr.dst"  the addresses the header declares              *)
(*   "sock.remote" / "sock.local"  the addresses of the TCP connection     *)
(***************************************************************************)
EXTENDS Integers, Sequences, FiniteSets, TLC

\* ---- receive ----
\* c.ver 1|2; c.fam "TCP4" "TCP6" "UNKNOWN" (v1) "LOCAL" (v2); c.peer "any" (no allow list)
\* "in1" / "out1" (one allowed range; peer inside / outside), "inSpecific" / "inBroad" / "out2" (two
\* allowed ranges of different prefix length; peer in the more specific one, in the broader one, in neither)
\* "in6" / "out6": an IPv6 peer inside / outside an allow list of one IPv4 and one IPv6 range
Honoured(c) == c.peer \notin {"out1", "out2", "out6"}
DeclaresAddr(c) == c.fam \in {"TCP4", "TCP6"}
RecvExpect(c) ==
  [strip  |-> IF Honoured(c) THEN "header" ELSE "none",
   remote |-> IF Honoured(c) /\ DeclaresAddr(c) THEN "hdr.src" ELSE "sock.remote",
   local  |-> IF Honoured(c) /\ DeclaresAddr(c) THEN "hdr.dst" ELSE "sock.local"]
\* observation o: [start (stream position the next handler starts reading at), hdrlen, slen,
\*  got (bytes it read), intact, remote, local (symbolic, as classified by the harness),
\*  phRemote, phLocal (what the placeholders show), ripMatch (remote_ip matcher on the declared source),
\*  panic (text of a panic of the handler chain, "" if none)]
RecvViolations(c, o) ==
  LET e == RecvExpect(c)
      from == IF e.strip = "header" THEN o.hdrlen ELSE 0 IN
  (IF o.panic = "" THEN {} ELSE {"Q0 the handler panicked on a well-formed header"}) \cup
  (IF o.intact /\ o.start = from /\ o.got = o.slen - from THEN {}
   ELSE {"Q1 exactly the header bytes must be removed (all of the stream delivered to a peer outside the allow list)"})
  \cup (IF o.remote = e.remote /\ o.local = e.local THEN {}
        ELSE {"Q2 a later handler does not see the addresses the header declares (or sees them although the peer is not allowed)"})
  \cup (IF o.ripMatch = (e.remote = "hdr.src") THEN {}
        ELSE {"Q3 a later remote_ip matcher does not decide on the effective source address"})
  \cup (IF o.lipAsked => (o.lipMatch = (e.local = "hdr.dst")) THEN {}
        ELSE {"Q3b a later local_ip matcher does not decide on the effective destination address"})
  \cup (IF o.phRemote = e.remote /\ o.phLocal = e.local THEN {}
        ELSE {"Q4 the connection placeholders do not show the effective addresses"})

\* ---- send ----
\* s.ver "v1" | "v2"; s.via "direct" (client connects to the proxy handler) | "received"
\* (a proxy_protocol handler in front accepted a header first); s.fam of the effective addresses
SendExpect(s) ==
  [ver |-> s.ver,
   src |-> IF s.via = "received" THEN "hdr.src" ELSE "sock.remote",
   dst |-> IF s.via = "received" THEN "hdr.dst" ELSE "sock.local"]
\* observation o per upstream connection: [ok (one well-formed header parsed), ver, src, dst
\*  (symbolic), rest (bytes after the header), restIntact, csent]
SendViolations(s, o) ==
  LET e == SendExpect(s) IN
  (IF o.ok /\ o.ver = e.ver THEN {} ELSE {"Q5 the upstream did not receive one well-formed header of the configured version first"})
  \cup (IF o.ok => (o.src = e.src /\ o.dst = e.dst) THEN {}
        ELSE {"Q6 the header sent upstream does not carry the client's effective addresses"})
  \cup (IF o.restIntact /\ o.rest = o.csent THEN {}
        ELSE {"Q7 the header is not immediately followed by exactly the client's stream"})
=============================================================================
