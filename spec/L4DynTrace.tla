------------------------------ MODULE L4DynTrace ------------------------------
(***************************************************************************)
(* Observations of the real proxy handler with a placeholder in its dial   *)
(* address (harness: dyn-run) against L4Dyn.  One line = one scenario:     *)
(*   t.hosts     the backends clients name (strings)                       *)
(*   t.maxFails  max_fails of the passive health checks                    *)
(*   t.active    the handler runs active health checks                     *)
(*   t.hist[k]   the k-th event:                                           *)
(*     op = "conn":  a client naming backend h (which accepts iff up);     *)
(*                   out = "served" | "dialfail" | "unavailable"           *)
(*     op = "wait":  more than fail_duration passes                        *)
(*     op = "check": several active-check intervals pass                   *)
(* The events are replayed through the actions of L4Dyn with Key =         *)
(* "template" (the code as it is): D0 demands that every connection ends   *)
(* as the model says (binding of model and code); D1 is the invariant      *)
(* NeverWronglyRefused, which TLC shows to be violated in that model - an  *)
(* observation about the code, not a listed property.                      *)
(***************************************************************************)
EXTENDS Integers, Sequences, FiniteSets, TLC, Json, TLCExt
Traces == ndJsonDeserialize("dyn_traces.ndjson")
Range(s) == { s[i] : i \in DOMAIN s }
RECURSIVE Sum(_, _)
Sum(f, S) == IF S = {} THEN 0 ELSE LET x == CHOOSE y \in S : TRUE IN f[x] + Sum(f, S \ {x})
\* the model's verdict for a connection in state s (L4Dyn!Connect, Key = "template")
Expected(t, s, e) == IF ~(Sum(s.rem, DOMAIN s.rem) < t.maxFails /\ ~s.adown) THEN "unavailable"
                     ELSE IF e.up THEN "served" ELSE "dialfail"
After(t, s, e) ==
  IF e.op = "conn" THEN (IF Expected(t, s, e) = "dialfail" THEN [s EXCEPT !.rem[e.h] = @ + 1] ELSE s)
  ELSE IF e.op = "wait" THEN [s EXCEPT !.rem = [h \in DOMAIN s.rem |-> 0]]      \* L4Dyn!Forget, for every remembered failure
  ELSE IF e.op = "check" THEN [s EXCEPT !.adown = t.active]                     \* L4Dyn!Check
  ELSE s
RECURSIVE Walk(_, _, _)
Walk(t, k, s) ==
  IF k > Len(t.hist) THEN {}
  ELSE LET e == t.hist[k] IN
       (IF e.op = "conn" /\ e.out # Expected(t, s, e)
        THEN {"D0 a connection did not end as the model of the code as it is says"} ELSE {})
       \cup (IF e.op = "conn" /\ e.up /\ s.rem[e.h] < t.maxFails /\ e.out # "served"
             THEN {"D1 a connection naming a backend that accepts and has no remembered failures of its own was refused (health is kept per configured dial address, not per backend)"} ELSE {})
       \cup Walk(t, k + 1, After(t, s, e))
DynViolations(t) == Walk(t, 1, [rem |-> [h \in Range(t.hosts) |-> 0], adown |-> FALSE])
Judge(t) == LET v == DynViolations(t) IN
            IF v = {} THEN TRUE ELSE PrintT(<<"VBAD", ToJson([id |-> t.id, clauses |-> v])>>)
VARIABLE k
TInit == k = 0
TNext == k < Len(Traces) /\ Judge(Traces[k + 1]) /\ k' = k + 1
Done == (k = Len(Traces)) => PrintT(<<"VDONE", k>>)
=============================================================================
