----------------------------- MODULE L4CodecTrace -----------------------------
EXTENDS L4Codec, Json, TLCExt
Traces == ndJsonDeserialize("codec_traces.ndjson")
Judge(t) == LET v == CodecViolations(t.c, t.o) IN
            IF v = {} THEN TRUE ELSE PrintT(<<"VBAD", ToJson([id |-> t.id, clauses |-> v])>>)
VARIABLE k
TInit == k = 0
TNext == k < Len(Traces) /\ Judge(Traces[k + 1]) /\ k' = k + 1
Done == (k = Len(Traces)) => PrintT(<<"VDONE", k>>)
=============================================================================
