---------------------------- MODULE L4Listener_MC ----------------------------
EXTENDS L4Listener
MCConns == {"c1", "c2", "c3"}
MCBufs == {"b1", "b2", "b3"}
KindA == [c \in MCConns |-> IF c = "c3" THEN "term" ELSE "fall"]
KindB == [c \in MCConns |-> IF c = "c1" THEN "fall" ELSE IF c = "c2" THEN "rej" ELSE "term"]
KindC == [c \in MCConns |-> "fall"]
=============================================================================
