----------------------------- MODULE L4Peers_MC -----------------------------
EXTENDS L4Peers
HandlersMC == {"h1", "h2", "h3"}
AddrsMC == {"x", "y", "bad"}
\* h2 fails at its first address ("bad"), before it has stored "x"
DialFail == [h1 |-> <<"x">>, h2 |-> <<"bad", "x">>, h3 |-> <<"x", "y">>]
FailAtFail == [h1 |-> 0, h2 |-> 1, h3 |-> 0]
\* nobody fails; an address listed twice
DialOk == [h1 |-> <<"x">>, h2 |-> <<"y", "x", "x">>, h3 |-> <<"x", "y">>]
FailAtOk == [h1 |-> 0, h2 |-> 0, h3 |-> 0]
\* a reload that drops the active health checks: h1 (with checks) and h3 (without) share "x"
HandlersAct == {"h1", "h3"}
AddrsAct == {"x"}
DialAct == [h1 |-> <<"x">>, h3 |-> <<"x">>]
FailAtAct == [h1 |-> 0, h3 |-> 0]
ActiveAct == {"h1"}
NoActive == {}
=============================================================================
