------------------------------ MODULE L4Router ------------------------------
(***************************************************************************)
(* RouterImpl: the code-shaped model of layer4/routes.go RouteList.Compile *)
(* (see L4RouterAbs.tla for the module comment, the verdict algebra and    *)
(* the properties, which this module checks on its history variable).      *)
(***************************************************************************)
EXTENDS L4RouterAbs

(***************************************************************************)
(* RouterImpl                                                              *)
(***************************************************************************)
CONSTANTS Chunk,        \* prefetchChunkSize
          Limit,        \* MaxMatchingBytes
          StreamLens,   \* set of client stream lengths
          PullSizes,    \* set of sizes one socket read issued by prefetch may return (<= Chunk)
          PullFixed,    \* TRUE: one size is chosen per connection (the client's segment size);
                        \* FALSE: every read chooses afresh (only affordable for toy constants)
          MaxRoutes,    \* routes in list 1
          MaxSubRoutes, \* routes in list 2 (0: no subroute)
          Shapes,       \* set of routes allowed in list 1
          SubShapes,    \* set of routes allowed in list 2
          WrapMode      \* "copy" (pinned commit) or "handover" (repaired), see L4Segs!ConnWrap

VARIABLES pullMode,  \* the client's segment size when PullFixed
          cfg,       \* configuration under construction / fixed
          pos,       \* stream position of the first byte no handler has consumed yet
          slen,      \* length of the client's stream (the client then closes or goes silent)
          endKind,   \* "eof" | "silent"
          c,         \* connection state (L4Segs)
          frames,    \* stack of Compile invocations, innermost last
          pc,        \* program counter of the innermost invocation
          hist,      \* history of observable events
          ambiguous  \* some evaluation had more than one possible verdict (AND-order)
vars == <<cfg, slen, endKind, c, frames, pc, hist, ambiguous, pos, pullMode>>

Frame(L) == [l |-> L, i |-> 1, lastM |-> 0, lastNM |-> 0,
             status |-> [k \in 1..Len(cfg.lists[L]) |-> "none"], needMore |-> FALSE]
Top == frames[Len(frames)]
SetTop(f) == [frames EXCEPT ![Len(frames)] = f]
top == Len(c.buf)                   \* current layer of cx
CurVis == Vis(c, top)

Init == /\ cfg = [lists |-> <<<<>>, <<>>>>]
        /\ slen = 0
        /\ endKind = "eof"
        /\ c = [buf |-> <<<<>>>>, off |-> <<0>>, sock |-> 0]
        /\ frames = <<>>
        /\ pc = "btop"
        /\ hist = <<>>
        /\ ambiguous = FALSE
        /\ pos = 0
        /\ pullMode = 0

HasSub(r) == \E j \in 1..Len(r.hs) : r.hs[j].k = "sub"
UsesSub == \E j \in 1..Len(cfg.lists[1]) : HasSub(cfg.lists[1][j])
HasTee(r) == \E j \in 1..Len(r.hs) : r.hs[j].k = "tee"
UsesTee == \E L \in 1..2 : \E j \in 1..Len(cfg.lists[L]) : HasTee(cfg.lists[L][j])
\* configurations are built by actions (TLC refuses Init sets above 10^6 elements):
\* list 1 first, then list 2 if some route refers to it, then the client's stream
BuildTop == /\ pc = "btop"
            /\ \/ /\ Len(cfg.lists[1]) < MaxRoutes
                  /\ \E r \in Shapes :
                        /\ HasSub(r) => (MaxSubRoutes > 0 /\ ~UsesSub)
                        /\ HasTee(r) => ~UsesTee          \* one tee per configuration (one branch to observe)
                        /\ cfg' = [cfg EXCEPT !.lists[1] = Append(@, r)]
                  /\ pc' = "btop"
               \/ /\ pc' = (IF UsesSub THEN "bsub" ELSE "benv") /\ UNCHANGED cfg
            /\ UNCHANGED <<slen, endKind, c, frames, hist, ambiguous, pos, pullMode>>
BuildSub == /\ pc = "bsub"
            /\ \/ /\ Len(cfg.lists[2]) < MaxSubRoutes
                  /\ \E r \in SubShapes : (HasTee(r) => ~UsesTee) /\ cfg' = [cfg EXCEPT !.lists[2] = Append(@, r)]
                  /\ pc' = "bsub"
               \/ /\ Len(cfg.lists[2]) > 0 /\ pc' = "benv" /\ UNCHANGED cfg
            /\ UNCHANGED <<slen, endKind, c, frames, hist, ambiguous, pos, pullMode>>
BuildEnv == /\ pc = "benv"
            /\ slen' \in StreamLens
            /\ endKind' \in {"eof", "silent"}
            /\ pullMode' \in (IF PullFixed THEN PullSizes ELSE {0})
            /\ (PullFixed /\ pullMode' < 64) => slen' <= 16       \* tiny segments only with short streams
            /\ frames' = <<Frame(1)>>
            /\ pc' = "arm"
            /\ UNCHANGED <<cfg, c, hist, ambiguous, pos>>

Ev(es) == hist' = hist \o es
\* what a tee branch has read when the run ends: everything read after the (first) tee
TeeIdx(h) == { k \in 1..Len(h) : h[k].e = "Tee" }
BranchEv(h) == IF TeeIdx(h) = {} THEN <<>>
               ELSE LET k == CHOOSE x \in TeeIdx(h) : \A y \in TeeIdx(h) : x <= y IN
                    <<[e |-> "Branch", segs |-> AppendAll(<<>>, AllReads(SubSeq(h, k + 1, Len(h))))]>>
Finish(es) == /\ Ev(es \o BranchEv(hist \o es) \o <<[e |-> "Return"]>>) /\ pc' = "done"

\* routes.go 121-126: loop: SetReadDeadline(deadline); the scan restarts at route 0
Arm == /\ pc = "arm"
       /\ Ev(<<[e |-> "Dl", l |-> Top.l]>>)
       /\ frames' = SetTop([Top EXCEPT !.i = 1])
       /\ pc' = (IF Top.needMore THEN "prefetch" ELSE "scan")
       /\ UNCHANGED <<cfg, slen, endKind, c, ambiguous, pos, pullMode>>

\* routes.go 130-141 + connection.go prefetch
Prefetch ==
  /\ pc = "prefetch"
  /\ IF Total(c.buf[top]) >= Limit
     THEN /\ Finish(<<[e |-> "Abort", k |-> "full"]>>) /\ UNCHANGED c
     ELSE \/ \E k \in (IF PullFixed THEN {Min(pullMode, slen - c.sock)} ELSE PullSizes) \cup {1} :   \* the client's next k bytes are there
               /\ c.sock + k <= slen
               /\ LET r == ConnPrefetchRead(c, top, Chunk, c.sock + k) IN
                  /\ (r.c.sock # c.sock) => (r.c.sock = c.sock + k /\ (PullFixed \/ k \in PullSizes) /\ (PullFixed => k = Min(pullMode, slen - c.sock)))   \* one socket read, exactly k bytes
                  /\ (r.c.sock = c.sock) => (k = 1)                  \* served by a lower layer: k is irrelevant
                  /\ c' = ConnPrefetchApply(r, top)
                  /\ Ev(IF r.c.sock # c.sock THEN <<[e |-> "Pull", n |-> k]>> ELSE <<>>)
                  /\ pc' = "scan"
          \/ /\ c.sock = slen                  \* nothing more will come
             /\ LET r == ConnPrefetchRead(c, top, Chunk, slen) IN
                IF r.segs # <<>>
                THEN /\ c' = ConnPrefetchApply(r, top) /\ Ev(<<>>) /\ pc' = "scan"
                ELSE /\ UNCHANGED c
                     /\ LET kind == IF endKind = "eof" THEN "eof" ELSE "timeout" IN
                        Finish(<<[e |-> "Sock", k |-> kind], [e |-> "Abort", k |-> kind]>>)
  /\ UNCHANGED <<cfg, slen, endKind, frames, ambiguous, pos, pullMode>>

\* routes.go 144-151
Skip(f, i) == i <= f.lastM \/ (f.status[i] = "no" /\ i <= f.lastNM)

RECURSIVE SumReads(_)
SumReads(es) == IF es = <<>> THEN 0
                ELSE (IF Head(es).e = "HRead" THEN Total(Head(es).segs) ELSE 0) + SumReads(Tail(es))

\* the handler chain of a matched route
RunHandlers(f, r, i, es0) ==
  LET RECURSIVE Run(_, _, _)
      \* Run(j, cc, es): run handler j.. of the route on connection cc having emitted es;
      \* result [kind, c, es, sub]   kind: "next" (lastHandler reached) "done" "sub"
      Run(j, cc, es) ==
        IF j > Len(r.hs) THEN [kind |-> "next", c |-> cc, es |-> es, sub |-> 0]
        ELSE LET hd == r.hs[j] IN
          CASE hd.k = "pass" -> Run(j + 1, cc, es)
            [] hd.k = "term" ->
                 LET d == ConnDrain(cc, slen, <<>>) IN
                 [kind |-> "done", c |-> d.c, sub |-> 0,
                  es |-> es \o (IF d.segs = <<>> THEN <<>> ELSE <<[e |-> "HRead", segs |-> d.segs]>>)
                            \o <<[e |-> "Term", l |-> f.l, r |-> i]>>]
            [] hd.k = "eat" ->
                 LET d == ConnReadFull(cc, hd.n, slen, <<>>)
                     rd == IF d.segs = <<>> THEN <<>> ELSE <<[e |-> "HRead", segs |-> d.segs]>> IN
                 IF d.short
                 THEN [kind |-> "done", c |-> d.c, sub |-> 0, es |-> es \o rd \o <<[e |-> "HErr"]>>]
                 ELSE Run(j + 1, d.c, es \o rd)
            [] hd.k = "wrap" -> Run(j + 1, ConnWrap(cc, WrapMode), es)
            \* shipped wrapping handlers, as the router experiences them:
            \* throttle replaces cx.Conn in place (reads pass through in batches <= burst)
            [] hd.k = "thr"  -> Run(j + 1, cc, es)
            \* tee hands the next handler a connection whose reads are copied to the branch
            [] hd.k = "tee"  -> Run(j + 1, ConnWrap(cc, WrapMode), es \o <<[e |-> "Tee"]>>)
            \* proxy_protocol consumes the n-byte PROXY header through a buffered reader and
            \* continues with cx.Wrap(reader)
            [] hd.k = "pp" ->
                 IF pos + SumReads(es) # 0
                 THEN \* not at the start of the stream: what follows is no PROXY header, the handler fails
                      [kind |-> "done", c |-> cc, sub |-> 0, es |-> es \o <<[e |-> "HErr"]>>]
                 ELSE
                 LET d == ConnReadFull(cc, hd.n, slen, <<>>)
                     rd == IF d.segs = <<>> THEN <<>> ELSE <<[e |-> "HRead", segs |-> d.segs]>> IN
                 IF d.short    \* what the handler consumed before failing cannot be observed
                 THEN [kind |-> "done", c |-> d.c, sub |-> 0, es |-> es \o <<[e |-> "HErr"]>>]
                 ELSE Run(j + 1, ConnWrap(d.c, WrapMode), es \o rd)
            \* echo is terminal: it reads the connection to its end (and writes it back)
            [] hd.k = "echo" ->
                 LET d == ConnDrain(cc, slen, <<>>) IN
                 [kind |-> "done", c |-> d.c, sub |-> 0,
                  es |-> es \o (IF d.segs = <<>> THEN <<>> ELSE <<[e |-> "HRead", segs |-> d.segs]>>)
                            \o <<[e |-> "Term", l |-> f.l, r |-> i]>>]
            [] hd.k = "sub" ->
                 [kind |-> "sub", c |-> cc, sub |-> hd.n,
                  es |-> es \o <<[e |-> "Enter", l |-> hd.n, vis |-> Vis(cc, Len(cc.buf)),
                                   pos |-> pos + SumReads(es)]>>]
  IN Run(1, c, es0)

\* routes.go 143-207, one route per step
Scan ==
  /\ pc = "scan"
  /\ LET f == Top
         n == Len(cfg.lists[f.l])
         i == f.i IN
     IF i > n THEN
        /\ pc' = "end" /\ UNCHANGED <<c, frames, hist, ambiguous, pos>>
     ELSE IF Skip(f, i) THEN
        /\ frames' = SetTop([f EXCEPT !.i = i + 1])
        /\ UNCHANGED <<c, pc, hist, ambiguous, pos>>
     ELSE LET r  == cfg.lists[f.l][i]
              pv == RoutePV(r, CurVis, pos) IN
        /\ ambiguous' = (ambiguous \/ Cardinality(pv) > 1)
        /\ \E v \in pv :
           CASE v = "M" ->                                              \* 157-165
                  /\ frames' = SetTop([f EXCEPT !.lastNM = i, !.status[i] = "more",
                                                !.i = IF f.needMore THEN i + 1 ELSE i])
                  /\ pc' = (IF f.needMore THEN "scan" ELSE "end")
                  /\ UNCHANGED <<c, hist, pos>>
             [] v = "E" ->                                              \* 166-169
                  /\ Finish(<<[e |-> "Abort", k |-> "merr"]>>)
                  /\ UNCHANGED <<c, frames, pos>>
             [] v = "N" ->                                              \* 204-206
                  /\ frames' = SetTop([f EXCEPT !.status[i] = "no", !.i = i + 1])
                  /\ UNCHANGED <<c, pc, hist, pos>>
             [] v = "Y" ->                                              \* 170-203
                  LET f2 == [f EXCEPT !.status[i] = "yes", !.lastM = i, !.lastNM = i, !.i = i + 1]
                      res == RunHandlers(f, r, i, <<[e |-> "Dl", l |-> 0],
                                                   [e |-> "Handle", l |-> f.l, r |-> i, vis |-> CurVis, pos |-> pos]>>) IN
                  /\ c' = res.c
                  /\ pos' = pos + SumReads(res.es)
                  /\ CASE res.kind = "next" -> /\ Ev(res.es) /\ frames' = SetTop(f2) /\ pc' = "scan"
                       [] res.kind = "done" -> /\ Finish(res.es) /\ frames' = SetTop(f2)
                       [] res.kind = "sub"  -> /\ Ev(res.es)
                                               /\ frames' = Append(SetTop([f2 EXCEPT !.i = i]), Frame(res.sub))
                                               /\ pc' = "arm"
  /\ UNCHANGED <<cfg, slen, endKind, pullMode>>

\* the rest of an outer route after its subroute handler fell back: the handlers after "sub"
\* (the model keeps sub handlers last in their route, so this is lastHandler)
\* routes.go 208-230
End ==
  /\ pc = "end"
  /\ LET f == Top
         n == Len(cfg.lists[f.l])
         fb == <<[e |-> "Fallback", l |-> f.l, vis |-> CurVis, pos |-> pos]>>
         DoFallback(pre) ==
            IF Len(frames) = 1
            THEN \* the top-level fallback of the harness records itself and reads the rest of the
                 \* stream (this is what shows that it received the connection intact)
                 LET d == ConnDrain(c, slen, <<>>) IN
                 /\ Finish(pre \o fb \o (IF d.segs = <<>> THEN <<>> ELSE <<[e |-> "HRead", segs |-> d.segs]>>))
                 /\ UNCHANGED frames
            ELSE /\ Ev(pre \o fb)
                 /\ frames' = LET outer == frames[Len(frames) - 1] IN
                              SubSeq(frames, 1, Len(frames) - 2) \o <<[outer EXCEPT !.i = @ + 1]>>
                 /\ pc' = "scan"
     IN
     IF f.lastM = n THEN DoFallback(<<>>)
     ELSE IF \E k \in (f.lastM + 1)..n : f.status[k] = "more"
          THEN /\ frames' = SetTop([f EXCEPT !.needMore = TRUE])
               /\ pc' = "arm" /\ UNCHANGED hist
          ELSE DoFallback(<<[e |-> "Dl", l |-> 0]>>)
  /\ UNCHANGED <<cfg, slen, endKind, c, ambiguous, pos, pullMode>>

Next == BuildTop \/ BuildSub \/ BuildEnv \/ Arm \/ Prefetch \/ Scan \/ End
Spec == Init /\ [][Next]_vars
FairSpec == Spec /\ WF_vars(Next)

(***************************************************************************)
(* What TLC checks on RouterImpl                                           *)
(***************************************************************************)
PropsHold == Violations(cfg, hist, Limit, Chunk) = {}
\* the clauses are prefix-closed except R5b, which speaks about complete histories: for the
\* real-size configurations it is enough (and much cheaper) to evaluate them on terminal states
PropsAtEnd == pc = "done" => PropsHold
Terminates == <>(pc = "done")
TypeOK == /\ pc \in {"bsub", "btop", "benv", "arm", "prefetch", "scan", "end", "done"}
          /\ Len(c.buf) = Len(c.off)
          /\ c.sock <= slen
=============================================================================
