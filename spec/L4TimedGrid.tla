----------------------------- MODULE L4TimedGrid -----------------------------
(* The scenario grid of the timed conformance runs of C05, enumerated by TLC
   (one state per scenario) and handed to the Go driver as JSON. *)
EXTENDS Integers, TLC, Json
CONSTANT Tier
Timeouts == {40, 150, 300, 700, 1000, 1500}
Phases   == {50, 283, 514, 745, 950}                       \* ms within the wall-clock second
\* "wrap": listener-wrapper mode (caddy.listeners.layer4 around a loopback TCP listener) - the third way in
Grid == [transport : {"tcp", "udp", "wrap"}, scen : {"silent", "exact", "trickle", "flood", "slowhandler", "nested"}, T : Timeouts, phase : Phases]
QuickGrid == { g \in Grid : g.T \in {40, 300, 700} /\ g.phase \in {283, 745, 950} }
VARIABLE g
Init == g \in (IF Tier = "quick" THEN QuickGrid ELSE Grid)
Next == UNCHANGED g
Emit == PrintT(<<"VOUT", ToJson(g)>>)
=============================================================================
