---------------------------- MODULE L4ListenerGrid ----------------------------
(* Scenario grid of the listener-wrapper conformance runs (C13 / C08), enumerated by TLC. *)
EXTENDS Integers, Sequences, TLC, Json
CONSTANT Tier
Mixes == { <<"fall", "fall", "fall">>, <<"fall", "term", "fall", "rej">>, <<"eatfall", "fall", "term">>,
           <<"fall", "eatfall", "fall", "eatfall", "fall", "fall">>, <<"rej", "rej", "term">>, <<"fall">>,
           <<"tlsfall", "fall", "tlsfall">>, <<"tlsfall">>,
           \* "hold": consumed by a terminal handler that is still serving when the listener is closed
           <<"hold", "fall">>, <<"fall", "hold", "term">>,
           \* "eatlate": matched non-terminal route, a later route needs more data and says no, fall-through; read late
           <<"eatlate", "fall">>, <<"eatlate">>,
           \* "wrapfall": a handler wraps the connection with prefetched bytes unread, a later route prefetches again, fall-through
           <<"wrapfall", "fall", "wrapfall", "fall">>, <<"wrapfall", "wrapfall", "fall">>,
           \* "subfall": a matched route whose handler is a real subroute that hands the connection back, then fall-through
           <<"subfall", "subfall", "fall", "subfall">>, <<"subfall", "term", "subfall">>,
           \* "subterm": the same subroute instance hands the connection back, a later route of the outer list consumes it
           <<"subterm", "subfall", "subfall", "subterm">>, <<"subfall", "subterm", "subfall">>,
           \* "thrfall": a matched route whose handler is the real throttle handler, then fall-through: the consumer reads through it
           <<"thrfall", "fall", "thrfall">>,
           \* "ppfall": the stream begins with a PROXY header that the real proxy_protocol handler strips, then fall-through
           <<"wrapfall", "ppfall", "fall", "ppfall">>, <<"ppfall", "ppfall">> }
Grid == [mix : Mixes, consumer : {"fast", "slow", "absent"}, procs : {1, 2, 16},
         slen : {0, 5, 300, 2048, 5000, 20000}, close : {"end", "early", "earlylate"}, pace : {0, 1}]
\* "earlylate": closed early, the underlying listener's Accept learns of it 300 ms later (a listener closed by way of
\* a deadline), the absent consumer starts accepting at once
LateOK(g) == g.close = "earlylate" => (g.consumer = "absent" /\ g.mix \in { <<"fall", "fall", "fall">>, <<"fall">>, <<"fall", "term", "fall", "rej">> } /\ g.slen \in {5, 2048})
QuickGrid == { g \in Grid : LateOK(g) /\ g.slen \in {5, 2048, 20000} /\ g.procs \in {1, 16} /\ g.pace = 0 }
VARIABLE g
Init == g \in (IF Tier = "quick" THEN QuickGrid ELSE { x \in Grid : LateOK(x) })
Next == UNCHANGED g
Emit == PrintT(<<"VOUT", ToJson(g)>>)
=============================================================================
