------------------------------- MODULE L4Peers -------------------------------
(***************************************************************************)
(* The process-wide repository of proxy peers (modules/l4proxy: `peers`,   *)
(* a caddy.UsagePool keyed by dial address) across configuration loads -   *)
(* beyond the listed properties.                                           *)
(*                                                                         *)
(* Upstream.provision does LoadOrStore(addr) for each dial address of each *)
(* upstream, in order, and may fail at some address (bad address, port     *)
(* range, TLS material ...).  Handler.Cleanup does Delete(addr) for EVERY  *)
(* dial address of EVERY upstream of the handler.  Caddy calls Cleanup     *)
(* when a module is unloaded - and also right after a Provision that       *)
(* failed ("incomplete provisioning could have left state dangling").      *)
(* Handlers of the old configuration are cleaned up after the new          *)
(* configuration has been provisioned, which is what lets a peer keep its  *)
(* counters over a reload.                                                 *)
(*                                                                         *)
(* A handler h has the dial addresses Dial[h] (a sequence) and fails at    *)
(* FailAt[h] (0 = provisions completely).  CleanupWhatWasStored = FALSE is *)
(* the code as it is; TRUE deletes only what this handler stored.          *)
(*                                                                         *)
(* Active health checks: a handler in Active runs a checker goroutine      *)
(* (started by Provision, stopped when its context is cancelled) that      *)
(* dials each of its peers and records the verdict with peer.setHealthy -  *)
(* IN THE POOLED PEER, so the verdict outlives the handler that wrote it.  *)
(* A handler that shares the address but has no active checks configured   *)
(* reads that verdict (Upstream.healthy) and has nobody to revise it.      *)
(* VerdictPerHandler = FALSE is the code as it is; TRUE keeps the verdict  *)
(* with the handler's own upstream (as Caddy's reverse_proxy does).        *)
(* `up` is the real state of the backend, flipped at most MaxFlips times.  *)
(***************************************************************************)
EXTENDS Integers, Sequences, FiniteSets, TLC

CONSTANTS Handlers, Addrs, Dial, FailAt, CleanupWhatWasStored, Active, VerdictPerHandler, MaxFlips

VARIABLES phase,   \* [h -> "new" | "provisioned" | "failed" | "cleaned"]
          stored,  \* [h -> number of leading dial addresses this handler has LoadOrStore'd]
          holds,   \* [h -> [addr -> peer id the handler's upstreams point to, 0 = none]]
          pool,    \* [addr -> peer id in the pool, 0 = no entry]
          refs,    \* [addr -> reference count of the pool entry]
          nextId,
          up,      \* [addr -> the backend accepts connections]
          down,    \* [peer id -> verdict "unhealthy" stored in the pooled peer]    (VerdictPerHandler = FALSE)
          hdown,   \* [h -> [addr -> verdict "unhealthy" stored with the handler]]   (VerdictPerHandler = TRUE)
          flips
vars == <<phase, stored, holds, pool, refs, nextId, up, down, hdown, flips>>
PeerIds == 1..(Cardinality(Handlers) * Cardinality(Addrs) * 3 + 1)

Range(s) == { s[i] : i \in DOMAIN s }
Init == /\ phase = [h \in Handlers |-> "new"] /\ stored = [h \in Handlers |-> 0]
        /\ holds = [h \in Handlers |-> [a \in Addrs |-> 0]]
        /\ pool = [a \in Addrs |-> 0] /\ refs = [a \in Addrs |-> 0] /\ nextId = 1
        /\ up = [a \in Addrs |-> TRUE] /\ down = [i \in PeerIds |-> FALSE]
        /\ hdown = [h \in Handlers |-> [a \in Addrs |-> FALSE]] /\ flips = 0

\* LoadOrStore of the first n dial addresses of h, one after the other
RECURSIVE Store(_, _, _, _, _, _)
Store(seq, i, n, pl, rf, st) ==      \* st = <<holds-of-h, nextId>>
  IF i > n THEN <<pl, rf, st>>
  ELSE LET a == seq[i]
           fresh == pl[a] = 0
           id == IF fresh THEN st[2] ELSE pl[a] IN
       Store(seq, i + 1, n, [pl EXCEPT ![a] = id], [rf EXCEPT ![a] = @ + 1],
             << [st[1] EXCEPT ![a] = id], IF fresh THEN st[2] + 1 ELSE st[2] >>)
\* Delete of a sequence of addresses, one after the other (an absent key is ignored; at zero the entry goes)
RECURSIVE Del(_, _, _, _)
Del(seq, i, pl, rf) ==
  IF i > Len(seq) THEN <<pl, rf>>
  ELSE LET a == seq[i] IN
       IF pl[a] = 0 THEN Del(seq, i + 1, pl, rf)
       ELSE IF rf[a] = 1 THEN Del(seq, i + 1, [pl EXCEPT ![a] = 0], [rf EXCEPT ![a] = 0])
       ELSE Del(seq, i + 1, pl, [rf EXCEPT ![a] = @ - 1])

Provision(h) ==
  /\ phase[h] = "new"
  /\ LET n == IF FailAt[h] = 0 THEN Len(Dial[h]) ELSE FailAt[h] - 1
         r == Store(Dial[h], 1, n, pool, refs, <<holds[h], nextId>>) IN
     /\ pool' = r[1] /\ refs' = r[2] /\ holds' = [holds EXCEPT ![h] = r[3][1]] /\ nextId' = r[3][2]
     /\ stored' = [stored EXCEPT ![h] = n]
     /\ phase' = [phase EXCEPT ![h] = IF FailAt[h] = 0 THEN "provisioned" ELSE "failed"]
  /\ UNCHANGED <<up, down, hdown, flips>>

\* Caddy: after a failed Provision, and when a provisioned module is unloaded
Cleanup(h) ==
  /\ phase[h] \in {"provisioned", "failed"}
  /\ LET seq == IF CleanupWhatWasStored THEN SubSeq(Dial[h], 1, stored[h]) ELSE Dial[h]
         r == Del(seq, 1, pool, refs) IN
     /\ pool' = r[1] /\ refs' = r[2]
  /\ phase' = [phase EXCEPT ![h] = "cleaned"]
  /\ UNCHANGED <<stored, holds, nextId, up, down, hdown, flips>>

\* the backend goes down / comes back
Flip(a) == /\ flips < MaxFlips /\ flips' = flips + 1 /\ up' = [up EXCEPT ![a] = ~@]
           /\ UNCHANGED <<phase, stored, holds, pool, refs, nextId, down, hdown>>
\* one dial of the active checker of a live handler (doActiveHealthCheck): the verdict is what the backend does now
ActiveCheck(h, a) ==
  /\ h \in Active /\ phase[h] = "provisioned" /\ a \in Range(Dial[h]) /\ holds[h][a] # 0
  /\ IF VerdictPerHandler
     THEN hdown' = [hdown EXCEPT ![h][a] = ~up[a]] /\ UNCHANGED down
     ELSE down' = [down EXCEPT ![holds[h][a]] = ~up[a]] /\ UNCHANGED hdown
  /\ UNCHANGED <<phase, stored, holds, pool, refs, nextId, up, flips>>

Next == \/ \E h \in Handlers : Provision(h) \/ Cleanup(h) \/ \E a \in Addrs : ActiveCheck(h, a)
        \/ \E a \in Addrs : Flip(a)
Spec == Init /\ [][Next]_vars

Users(a) == { h \in Handlers : phase[h] = "provisioned" /\ a \in Range(Dial[h]) }
\* the entry of an address in use exists, and is the very peer every user points to (shared counters)
Shared == \A a \in Addrs : \A h \in Users(a) : pool[a] # 0 /\ holds[h][a] = pool[a]
\* the reference count is the number of uses (an address listed twice counts twice)
Uses(h, a) == Cardinality({ i \in DOMAIN Dial[h] : Dial[h][i] = a })
RECURSIVE Sum(_, _)
Sum(S, a) == IF S = {} THEN 0 ELSE LET h == CHOOSE x \in S : TRUE IN Uses(h, a) + Sum(S \ {h}, a)
RefsExact == \A a \in Addrs :
               (\A h \in Handlers : phase[h] # "failed") => refs[a] = Sum({ h \in Handlers : phase[h] = "provisioned" }, a)
\* what Upstream.healthy reads for address a of live handler h
SeesDown(h, a) == IF VerdictPerHandler THEN hdown[h][a] ELSE (holds[h][a] # 0 /\ down[holds[h][a]])
\* a verdict "unhealthy" that a live handler acts on can be revised: some live handler with active checks
\* writes to the very place this one reads.  Otherwise the upstream stays out of rotation for good
\* although the backend is back - until the process restarts.
Watched == \A h \in Handlers : phase[h] = "provisioned" =>
             \A a \in Range(Dial[h]) : SeesDown(h, a) =>
               \E g \in Active : /\ phase[g] = "provisioned" /\ a \in Range(Dial[g])
                                  /\ IF VerdictPerHandler THEN g = h ELSE holds[g][a] = holds[h][a]
=============================================================================
