SPECIFICATION FairSpec
CONSTANTS Conns <- MCConns  Bufs <- MCBufs  Kind <- KindC  Cap = 1  PutOnHijack = TRUE
INVARIANTS AtMostOnce OnlyFallThrough NotClosedBeforeDelivery ClosedWhenDone NeverBoth NoReuseWhileReferenced
PROPERTY Drain
CHECK_DEADLOCK FALSE
