---------------------------- MODULE L4ListenerAbs ----------------------------
(***************************************************************************)
(* C13 (and the cross-talk half of C08) as clauses over the history of one *)
(* run of the real ListenerWrapper around a scripted net.Listener.         *)
(*   [e |-> "Offer", c, kind, slen, from]  the inner listener handed       *)
(*        connection c to the wrapper; kind "fall" | "term" | "rej";       *)
(*        `from' = stream position a consumer must start at (bytes eaten   *)
(*        by a non-terminal handler before the fall-through); tls = the    *)
(*        connection is TLS and layer4 terminates it before falling through*)
(*   [e |-> "Acc", c]         the wrapper's Accept returned connection c   *)
(*   [e |-> "AccClosed"]      Accept returned net.ErrClosed                 *)
(*   [e |-> "CRead", c, segs] the consumer read c to its end: positions of *)
(*        c's own stream, <<-1, _>> for bytes that are not c's             *)
(*   [e |-> "CClose", c]      the consumer is about to close c             *)
(*   [e |-> "ConnClosed", c]  Close was called on c                        *)
(*   [e |-> "Term", c]        a terminal handler consumed c                *)
(*   [e |-> "LnClose"]        the wrapper was closed                       *)
(*   [e |-> "Leak", n]        goroutines above the baseline at the end     *)
(***************************************************************************)
EXTENDS L4Segs, TLC

IsE(ev, name) == ev.e = name
Idx(h, name) == { i \in 1..Len(h) : IsE(h[i], name) }
OfferOf(h, c) == LET S == { i \in Idx(h, "Offer") : h[i].c = c } IN
                 IF S = {} THEN [kind |-> "?", slen |-> 0, from |-> 0, tls |-> FALSE] ELSE h[CHOOSE i \in S : TRUE]

\* L1: a connection is delivered to Accept at most once
L1(h) == \A i, j \in Idx(h, "Acc") : h[i].c = h[j].c => i = j
\* L2: only connections no terminal handler consumed and matching did not reject are delivered
L2(h) == \A i \in Idx(h, "Acc") : OfferOf(h, h[i].c).kind = "fall"
\* L3: the consumer reads the client's stream from the first unconsumed byte to its end,
\*     nothing lost, duplicated, reordered or foreign
L3(h) == \A i \in Idx(h, "CRead") :
            LET o == OfferOf(h, h[i].c) IN
            /\ Contig(h[i].segs, o.from)
            /\ Total(h[i].segs) = o.slen - o.from
\* L4: a connection layer4 closed is not delivered afterwards
L4(h) == \A i \in Idx(h, "Acc") : \A j \in Idx(h, "ConnClosed") : (h[j].c = h[i].c) => j > i
\* at the end of a COMPLETE run (wrapper closed, everything settled):
\* L5: Accept reported closure
\*     - promptly ("AccHang": still blocked 3 s after Close), also while a terminal handler is still serving a connection
L5(h) == Idx(h, "LnClose") # {} => (Idx(h, "AccClosed") # {} /\ Idx(h, "AccHang") = {})
\* L6: every offered connection was either delivered or closed; consumed and rejected ones are closed
L6(h) == \A i \in Idx(h, "Offer") :
            LET c == h[i].c IN
            /\ (\E j \in Idx(h, "Acc") : h[j].c = c) \/ (\E j \in Idx(h, "ConnClosed") : h[j].c = c)
            /\ h[i].kind # "fall" => \E j \in Idx(h, "ConnClosed") : h[j].c = c
\* L8: after TLS termination the delivered connection exposes the TLS connection state
L8(h) == \A i \in Idx(h, "CRead") : OfferOf(h, h[i].c).tls => h[i].tls
\* L7: no goroutine stays behind
L7(h) == \A i \in Idx(h, "Leak") : h[i].n <= 0

\* one wrapper around several listeners (events then carry the listener's name in "ln"):
\* L9: a connection comes out of the Accept of the listener it was accepted on
Has(ev, f) == f \in DOMAIN ev
L9(h) == \A i \in Idx(h, "Acc") : (Has(h[i], "ln") /\ Has(OfferOf(h, h[i].c), "ln")) => h[i].ln = OfferOf(h, h[i].c).ln
\* L10: a connection offered on a listener that is open (and whose Accept is being called) is delivered ("Expect")
L10(h) == \A i \in Idx(h, "Expect") : \E j \in Idx(h, "Acc") : h[j].c = h[i].c
\* L11: a listener's Accept reports closure only after that listener was closed
L11(h) == \A i \in Idx(h, "AccClosed") : Has(h[i], "ln") => \E j \in Idx(h, "LnClose") : j < i /\ Has(h[j], "ln") /\ h[j].ln = h[i].ln

ListenerViolations(h, complete) ==
  (IF L1(h) THEN {} ELSE {"L1 a connection was delivered to Accept twice"})
  \cup (IF L2(h) THEN {} ELSE {"L2 a consumed or rejected connection was delivered to Accept"})
  \cup (IF L3(h) THEN {} ELSE {"L3 the consumer did not read the stream intact from the first unconsumed byte"})
  \cup (IF L4(h) THEN {} ELSE {"L4 a connection was closed by layer4 before being delivered"})
  \cup (IF Idx(h, "Stuck") = {} THEN {} ELSE {"L12 the consumer of a delivered connection had not reached the end of its stream 20 s after the client had finished"})
  \cup (IF L8(h) THEN {} ELSE {"L8 a TLS-terminated connection was delivered without its TLS connection state"})
  \cup (IF L9(h) THEN {} ELSE {"L9 a connection came out of another listener's Accept than the one it was accepted on"})
  \cup (IF ~complete \/ L10(h) THEN {} ELSE {"L10 a connection offered on an open listener was not delivered"})
  \cup (IF L11(h) THEN {} ELSE {"L11 Accept of a listener reported closure although that listener was not closed"})
  \cup (IF ~complete \/ L5(h) THEN {} ELSE {"L5 Accept did not report closure after Close"})
  \cup (IF ~complete \/ L6(h) THEN {} ELSE {"L6 a connection was neither delivered nor closed (or a consumed/rejected one not closed)"})
  \cup (IF ~complete \/ L7(h) THEN {} ELSE {"L7 goroutines left behind after Close"})
=============================================================================
