SPECIFICATION Spec
CONSTANTS Peers <- MCPeers FailDur = 2 MaxFails = 1 TryDur = 0 TryInt = 1 MaxConns = 0 NConns = 4 MaxNow = 6
INVARIANTS CountExact NeverNegative LimitRespected ConnsExact GiveUpOnlyLate
CHECK_DEADLOCK FALSE
