-------------------------------- MODULE L4TLS --------------------------------
(***************************************************************************)
(* The TLS matcher (C07): modules/l4tls/matcher.go + parsehello.go.        *)
(*                                                                         *)
(* A case is (client configuration, matcher configuration).  The harness   *)
(* lets a real crypto/tls client produce the ClientHello, shows the bytes  *)
(* to the matcher, to the matcher's own parser and to a crypto/tls SERVER  *)
(* (GetConfigForClient) - the ground truth for what a terminating server   *)
(* sees - and reports all three views.  This module holds the space of     *)
(* cases, the decision function of the sni / alpn sub-matchers and the     *)
(* clauses.                                                                *)
(***************************************************************************)
EXTENDS Integers, Sequences, FiniteSets, TLC

Range(s) == { s[i] : i \in DOMAIN s }

Names == {"", "a.example.com", "b.example.com", "x.wild.test", "deep.x.wild.test"}
Clients == [sni : Names,
            \* offers in client preference order (not sorted)
            alpn : {<<>>, <<"h2">>, <<"h2", "http/1.1">>, <<"acme-tls/1">>, <<"http/1.1", "h2">>, <<"h2", "http/1.1", "acme-tls/1">>},
            vers : {"12", "13", "12-13", "10-12"},
            curves : {"default", "x25519", "p256-p384"},
            suites : {"default", "one"},
            resume : BOOLEAN,
            \* supported_versions extension: "sent" (every current client), "absent" (a TLS 1.2-or-earlier client that
            \* predates the extension: the versions then follow from legacy_version; only with vers 12 / 10-12)
            sv : {"sent", "absent"},
            \* order of the extensions in the hello: as crypto/tls writes them, or reversed (any order is legal, RFC 8446
            \* 4.2; only pre_shared_key must stay last)
            order : {"native", "reversed"},
            \* big: 64 more protocols of 100 bytes each are offered after the client's own - a legal hello of about 6.9 KiB
            \* (more than three prefetch chunks, less than the matching limit) that reaches the connection with its 5-byte
            \* record header in a segment of its own
            big : BOOLEAN]
MatcherCfgs == [sni : {<<>>, <<"a.example.com">>, <<"*.wild.test">>, <<"b.example.com", "*.example.com">>},
                alpn : {<<>>, <<"h2">>, <<"http/1.1", "acme-tls/1">>}]

\* server-name patterns: exact, or a wildcard for exactly one label
SNIMatch(pat, name) ==
  CASE pat = "a.example.com" -> name = "a.example.com"
    [] pat = "b.example.com" -> name = "b.example.com"
    [] pat = "*.example.com" -> name \in {"a.example.com", "b.example.com"}
    [] pat = "*.wild.test"   -> name = "x.wild.test"
    [] OTHER -> FALSE
Decide(cfg, sni, alpn) ==
  /\ (cfg.sni = <<>> \/ \E p \in Range(cfg.sni) : SNIMatch(p, sni))
  /\ (cfg.alpn = <<>> \/ \E a \in Range(cfg.alpn) : a \in Range(alpn))

\* observation o:
\*   o.srv, o.par : what the crypto/tls server / the matcher's parser saw:
\*                  [sni, alpn, versions, suites, curves] (sequences of numbers / strings)
\*   o.verdict    : the matcher's verdict on the whole hello ("Y" | "N" | ...)
\*   o.phName, o.phVersion : placeholders l4.tls.server_name / l4.tls.version after matching
\*   o.legacy     : legacy_version field of the hello (read by the harness)
TLSViolations(c, cfg, o) ==
  (IF o.par.sni = o.srv.sni THEN {} ELSE {"T1 server name differs from what a TLS server sees"})
  \cup (IF o.par.alpn = o.srv.alpn THEN {} ELSE {"T2 ALPN protocols differ from what a TLS server sees"})
  \cup (IF o.par.versions = o.srv.versions THEN {} ELSE {"T3 supported versions differ from what a TLS server sees"})
  \cup (IF o.par.suites = o.srv.suites THEN {} ELSE {"T4 cipher suites differ from what a TLS server sees"})
  \cup (IF o.par.curves = o.srv.curves THEN {} ELSE {"T5 curves differ from what a TLS server sees"})
  \cup (IF o.srv.sni = c.sni /\ o.srv.alpn = c.alpn THEN {} ELSE {"T0 harness: the server did not see the configured name / protocols"})
  \cup (IF (o.verdict = "Y") = Decide(cfg, o.srv.sni, o.srv.alpn) /\ o.verdict \in {"Y", "N"} THEN {}
        ELSE {"T6 the sni / alpn routing decision differs from the decision on what the server sees"})
  \cup (IF o.phName = o.srv.sni /\ o.phVersion = o.legacy THEN {} ELSE {"T7 server-name / version placeholders differ from the hello"})
=============================================================================
