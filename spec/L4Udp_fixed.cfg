SPECIFICATION Spec
CONSTANTS Clients = {"c1", "c2"}  MaxDg = 5  MaxAssoc = 4  PacketsCap = 2  ReadCap = 1  CloseCap = 2  ReadsBeforeReturn = 1  Mode = "fixed"
  Shutdown = FALSE
  CloseGivesUp = FALSE
INVARIANTS NoCrash NoStaleDelete OwnClientOnly InOrder NoLateQueue
VIEW View
CHECK_DEADLOCK FALSE
