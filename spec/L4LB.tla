-------------------------------- MODULE L4LB --------------------------------
(***************************************************************************)
(* Load-balancing selection policies: modules/l4proxy/loadbalancing.go and *)
(* Upstream.available/healthy/full/totalConns of upstream.go  (C10).       *)
(*                                                                         *)
(* A pool is a sequence of upstreams; an upstream is                       *)
(*   [peers : Seq([unhealthy : BOOLEAN, fails : Nat, conns : Nat]),        *)
(*    maxConns : Nat]            (0 = unlimited)                           *)
(* and maxFails (0 = passive health checking off) is a property of the     *)
(* handler.  Selection results are indices into the pool, 0 = none,        *)
(* -1 = the call panicked.                                                 *)
(***************************************************************************)
EXTENDS Integers, Sequences, FiniteSets, TLC

Range(s) == { s[i] : i \in DOMAIN s }

\* upstream.go: healthy() / full() / available() / totalConns()
Healthy(u, maxFails) == /\ \A p \in Range(u.peers) : ~p.unhealthy
                        /\ maxFails > 0 => \A p \in Range(u.peers) : p.fails < maxFails
Full(u) == u.maxConns # 0 /\ \E p \in Range(u.peers) : p.conns >= u.maxConns
Available(u, maxFails) == Healthy(u, maxFails) /\ ~Full(u)
RECURSIVE SumConns(_)
SumConns(ps) == IF ps = <<>> THEN 0 ELSE Head(ps).conns + SumConns(Tail(ps))
TotalConns(u) == SumConns(u.peers)

Avail(pool, maxFails) == { i \in DOMAIN pool : Available(pool[i], maxFails) }
NoneOr(S) == IF S = {} THEN {0} ELSE S

\* the contract of each policy for ONE selection on a given pool (C10):
Allowed(policy, pool, maxFails) ==
  LET A == Avail(pool, maxFails) IN
  CASE policy = "first"       -> NoneOr(IF A = {} THEN {} ELSE {CHOOSE i \in A : \A j \in A : i <= j})
    [] policy = "least_conn"  -> NoneOr({ i \in A : \A j \in A : TotalConns(pool[i]) <= TotalConns(pool[j]) })
    [] policy \in {"random", "random_choose", "round_robin", "ip_hash"} -> NoneOr(A)
    [] OTHER -> {}

UpSet(u) == { i \in DOMAIN u : u[i] }
\* round_robin: the result is available (none iff nothing is), and while the pool does not
\* change every window of |available| consecutive selections visits each available upstream once
RRok(st) ==
  /\ \A k \in 1..Len(st) : st[k].rr \in NoneOr(UpSet(st[k].up))
  /\ \A k \in 1..Len(st) :
       LET A == UpSet(st[k].up)
           w == Cardinality(A) IN
       (w > 0 /\ k + w - 1 <= Len(st) /\ \A j \in k..(k + w - 1) : st[j].up = st[k].up)
          => { st[j].rr : j \in k..(k + w - 1) } = A

\* ip_hash over a sequence of selections for one client: deterministic in (client, available
\* set), and a client keeps its upstream when OTHER upstreams leave
IPHok(st) ==
  /\ \A k \in 1..Len(st) : st[k].res \in NoneOr(UpSet(st[k].up))
  /\ \A j, k \in 1..Len(st) : UpSet(st[j].up) = UpSet(st[k].up) => st[j].res = st[k].res
  /\ \A j, k \in 1..Len(st) :
       (UpSet(st[k].up) \subseteq UpSet(st[j].up) /\ st[j].res \in UpSet(st[k].up)) => st[k].res = st[j].res
=============================================================================
