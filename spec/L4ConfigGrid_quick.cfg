INIT Init
NEXT Next
CONSTANT Tier = "quick"
INVARIANT Emit
CHECK_DEADLOCK FALSE
