------------------------------- MODULE L4Socks5 -------------------------------
(***************************************************************************)
(* The SOCKS5 handler (C16): modules/l4socks/socks5_handler.go Provision   *)
(* (command rule set, credential map with placeholder replacement and      *)
(* empty-name filtering, choice of authenticator) in front of RFC 1928 /   *)
(* RFC 1929 negotiation.                                                   *)
(*                                                                         *)
(* A state is one (configuration, client script) pair; May(cfg, script) is *)
(* the reference: the ONLY situations in which the handler may execute the *)
(* request (success reply / outbound connection / relay listener).         *)
(***************************************************************************)
EXTENDS Integers, Sequences, FiniteSets, TLC

Range(s) == { s[i] : i \in DOMAIN s }

\* environment the harness sets: placeholders {env.X}
Env(name) == CASE name = "{env.VERIF_USER}" -> "dave"
               [] name = "{env.VERIF_PASS}" -> "dpw"
               [] name = "{env.VERIF_UNSET}" -> ""
               [] name = "{env.VERIF_CMD}" -> "connect"
               [] OTHER -> name
\* effective credentials: placeholders replaced, empty user names dropped
Eff(creds) == { [u |-> Env(c.u), p |-> Env(c.p)] : c \in { c \in Range(creds) : Env(c.u) # "" } }
AuthRequired(cfg) == Len(cfg.creds) > 0           \* len(h.Credentials) > 0: fail closed on empty names

Upper(s) == CASE s \in {"connect", "CONNECT", "Connect"} -> "CONNECT"
              [] s \in {"associate", "ASSOCIATE"} -> "ASSOCIATE"
              [] s \in {"bind", "BIND"} -> "BIND"
              [] OTHER -> s
CmdCode(n) == CASE n = "CONNECT" -> 1 [] n = "BIND" -> 2 [] n = "ASSOCIATE" -> 3 [] OTHER -> -1
Enabled(cfg) == IF cfg.cmds = <<>> THEN {1, 3}
                ELSE { CmdCode(Upper(Env(c))) : c \in Range(cfg.cmds) }

Selected(cfg, sc) == IF AuthRequired(cfg) THEN (IF 2 \in Range(sc.methods) THEN 2 ELSE 255)
                     ELSE (IF 0 \in Range(sc.methods) THEN 0 ELSE 255)

First(cfg) == LET e == Eff(cfg.creds) IN IF e = {} THEN [u |-> "alice", p |-> "pw"] ELSE CHOOSE x \in e : TRUE
EmptyNamePass(cfg) == LET S == { c \in Range(cfg.creds) : Env(c.u) = "" } IN
                      IF S = {} THEN "x" ELSE Env((CHOOSE c \in S : TRUE).p)
\* what the client sends in the RFC 1929 sub-negotiation
Sent(cfg, sc) == CASE sc.auth = "right"     -> First(cfg)
                   [] sc.auth = "wronguser" -> [u |-> "mallory", p |-> First(cfg).p]
                   [] sc.auth = "wrongpass" -> [u |-> First(cfg).u, p |-> "nope"]
                   [] sc.auth = "empty"     -> [u |-> "", p |-> ""]
                   [] sc.auth = "emptyuser" -> [u |-> "", p |-> EmptyNamePass(cfg)]
                   [] OTHER                 -> [u |-> "?", p |-> "?"]
AuthOK(cfg, sc) == \/ Selected(cfg, sc) = 0
                   \/ /\ Selected(cfg, sc) = 2 /\ sc.auth # "malformed"
                      /\ Sent(cfg, sc) \in Eff(cfg.creds)

May(cfg, sc) == /\ Selected(cfg, sc) # 255
                /\ AuthOK(cfg, sc)
                /\ sc.cmd \in Enabled(cfg)
                /\ sc.atyp \in {1, 3, 4}

\* the judgement on an observation of the real handler
SocksOK(cfg, sc, served, outbound) == (served \/ outbound) => May(cfg, sc)
=============================================================================
