package main

import (
	"crypto/tls"
	"encoding/json"
	"errors"
	"flag"
	"fmt"
	"io"
	"net"
	"runtime"
	"strings"
	"sync"
	"time"

	"github.com/caddyserver/caddy/v2"
	"github.com/mholt/caddy-l4/layer4"
	"github.com/mholt/caddy-l4/modules/l4tls"
	"go.uber.org/zap"

	"verifharness/vh"
)

type tlsClientCfg struct {
	SNI    string   `json:"sni"`
	ALPN   []string `json:"alpn"`
	Vers   string   `json:"vers"`
	Curves string   `json:"curves"`
	Suites string   `json:"suites"`
	Resume bool     `json:"resume"`
	SV     string   `json:"sv"`
	Order  string   `json:"order"`
	// Big: the client offers 64 more application protocols of 100 bytes each after its own (a legal hello of about
	// 6.9 KiB, above three prefetch chunks and below the matching limit); the connection receives the record header in
	// a segment of its own, so that no later segment ends on a chunk boundary
	Big bool `json:"big"`
}
type tlsMatcherCfg struct {
	SNI  []string `json:"sni"`
	ALPN []string `json:"alpn"`
}
type tlsCase struct {
	C   tlsClientCfg  `json:"c"`
	Cfg tlsMatcherCfg `json:"cfg"`
}

type helloView struct {
	SNI      string   `json:"sni"`
	ALPN     []string `json:"alpn"`
	Versions []int    `json:"versions"`
	Suites   []int    `json:"suites"`
	Curves   []int    `json:"curves"`
}

func ints16[T ~uint16](xs []T) []int {
	out := make([]int, len(xs))
	for i, x := range xs {
		out[i] = int(x)
	}
	return out
}

func nonNilStrs(s []string) []string {
	if s == nil {
		return []string{}
	}
	return s
}

// a session ticket so that "resume" hellos carry a ticket / PSK
var (
	resumeOnce  sync.Once
	resumeCache = tls.NewLRUClientSessionCache(8)
)

func bigProtos(own []string) []string {
	out := append([]string{}, own...)
	for i := 0; i < 64; i++ {
		out = append(out, fmt.Sprintf("x-verif-filler-%02d-", i)+strings.Repeat("p", 82))
	}
	return out
}

func clientConfig(c tlsClientCfg) *tls.Config {
	cfg := &tls.Config{ServerName: c.SNI, InsecureSkipVerify: true, NextProtos: c.ALPN}
	if c.Big {
		cfg.NextProtos = bigProtos(c.ALPN)
	}
	switch c.Vers {
	case "12":
		cfg.MinVersion, cfg.MaxVersion = tls.VersionTLS12, tls.VersionTLS12
	case "13":
		cfg.MinVersion, cfg.MaxVersion = tls.VersionTLS13, tls.VersionTLS13
	case "12-13":
		cfg.MinVersion, cfg.MaxVersion = tls.VersionTLS12, tls.VersionTLS13
	case "10-12":
		cfg.MinVersion, cfg.MaxVersion = tls.VersionTLS10, tls.VersionTLS12
	}
	switch c.Curves {
	case "x25519":
		cfg.CurvePreferences = []tls.CurveID{tls.X25519}
	case "p256-p384":
		cfg.CurvePreferences = []tls.CurveID{tls.CurveP256, tls.CurveP384}
	}
	if c.Suites == "one" {
		cfg.CipherSuites = []uint16{tls.TLS_ECDHE_ECDSA_WITH_AES_128_GCM_SHA256}
	}
	return cfg
}

// captureHello lets a real crypto/tls client write its ClientHello into a pipe and returns the record bytes.
func captureHello(cfg *tls.Config) ([]byte, error) {
	a, b := net.Pipe()
	defer a.Close()
	defer b.Close()
	go func() {
		tc := tls.Client(a, cfg)
		tc.SetDeadline(time.Now().Add(2 * time.Second))
		tc.Handshake()
	}()
	b.SetDeadline(time.Now().Add(2 * time.Second))
	hdr := make([]byte, 5)
	if _, err := io.ReadFull(b, hdr); err != nil {
		return nil, err
	}
	n := int(hdr[3])<<8 | int(hdr[4])
	body := make([]byte, n)
	if _, err := io.ReadFull(b, body); err != nil {
		return nil, err
	}
	return append(hdr, body...), nil
}

// serverView replays the hello bytes to a crypto/tls server and captures what it reports.
func serverView(hello []byte) (*helloView, error) {
	a, b := net.Pipe()
	defer a.Close()
	defer b.Close()
	go func() {
		a.SetDeadline(time.Now().Add(2 * time.Second))
		a.Write(hello)
		io.Copy(io.Discard, a)
	}()
	var got *helloView
	stop := errors.New("captured")
	srv := tls.Server(b, &tls.Config{GetConfigForClient: func(chi *tls.ClientHelloInfo) (*tls.Config, error) {
		got = &helloView{SNI: chi.ServerName, ALPN: nonNilStrs(chi.SupportedProtos), Versions: ints16(chi.SupportedVersions),
			Suites: ints16(chi.CipherSuites), Curves: ints16(chi.SupportedCurves)}
		return nil, stop
	}})
	srv.SetDeadline(time.Now().Add(2 * time.Second))
	err := srv.Handshake()
	if got == nil {
		return nil, fmt.Errorf("server did not parse the hello: %v", err)
	}
	return got, nil
}

func runTLSCase(base caddy.Context, tc tlsCase, idx int) (map[string]any, error) {
	ccfg := clientConfig(tc.C)
	if tc.C.Resume {
		ccfg.ClientSessionCache = resumeCache
		if err := primeSession(ccfg); err != nil {
			return nil, err
		}
	}
	hello, err := captureHello(ccfg)
	if err != nil {
		return nil, fmt.Errorf("capture: %v", err)
	}
	if tc.C.SV == "absent" {
		// a client that predates the supported_versions extension: the same hello without extension 43
		if hello, err = stripExtension(hello, 43); err != nil {
			return nil, err
		}
	}
	if tc.C.Order == "reversed" {
		if hello, err = reverseExtensions(hello); err != nil {
			return nil, err
		}
	}
	srv, err := serverView(hello)
	if err != nil {
		return nil, err
	}
	chi := l4tls.VerifParseRawClientHello(hello[5:])
	par := &helloView{SNI: chi.ClientHelloInfo.ServerName, ALPN: nonNilStrs(chi.ClientHelloInfo.SupportedProtos),
		Versions: ints16(chi.ClientHelloInfo.SupportedVersions), Suites: ints16(chi.ClientHelloInfo.CipherSuites), Curves: ints16(chi.ClientHelloInfo.SupportedCurves)}
	// the matcher itself, provisioned from JSON, on a connection preloaded with the hello
	mc := map[string]any{}
	if len(tc.Cfg.SNI) > 0 {
		mc["sni"] = tc.Cfg.SNI
	}
	if len(tc.Cfg.ALPN) > 0 {
		mc["alpn"] = tc.Cfg.ALPN
	}
	raw, _ := json.Marshal(mc)
	ctx, cancel := caddy.NewContext(base)
	defer cancel()
	mod, err := ctx.LoadModuleByID("layer4.matchers.tls", raw)
	if err != nil {
		return nil, err
	}
	m := mod.(layer4.ConnMatcher)
	rec := vh.NewRecorder(hello)
	sc := &vh.ScriptConn{Rec: rec, Slen: len(hello), EndKind: "eof", Start: time.Now(), Unit: time.Hour}
	if tc.C.Big {
		sc.Pulls = []int{5}
	}
	cx := layer4.WrapConnection(sc, make([]byte, 0, 2048), zap.NewNop())
	for {
		bl, _, _, _ := layer4.VerifConnState(cx)
		if bl >= len(hello) || layer4.VerifPrefetch(cx) != nil {
			break
		}
	}
	verdict := "?"
	func() {
		defer func() {
			if r := recover(); r != nil {
				verdict = "P"
			}
		}()
		ok, err := layer4.MatcherSet{m}.Match(cx)
		switch {
		case errors.Is(err, layer4.ErrConsumedAllPrefetchedBytes):
			verdict = "M"
		case err != nil:
			verdict = "E"
		case ok:
			verdict = "Y"
		default:
			verdict = "N"
		}
	}()
	repl := cx.Context.Value(layer4.ReplacerCtxKey).(*caddy.Replacer)
	phName, _ := repl.GetString("l4.tls.server_name")
	phVer := -1
	if v, ok := repl.Get("l4.tls.version"); ok {
		if u, ok := v.(uint16); ok {
			phVer = int(u)
		}
	}
	legacy := int(hello[9])<<8 | int(hello[10])
	return map[string]any{"id": fmt.Sprintf("tls:%d", idx), "c": map[string]any{"sni": tc.C.SNI, "alpn": nonNilStrs(ccfg.NextProtos), "big": tc.C.Big, "vers": tc.C.Vers, "curves": tc.C.Curves, "suites": tc.C.Suites, "resume": tc.C.Resume, "sv": tc.C.SV, "order": tc.C.Order},
		"cfg": map[string]any{"sni": nonNilStrs(tc.Cfg.SNI), "alpn": nonNilStrs(tc.Cfg.ALPN)},
		"o":   map[string]any{"srv": srv, "par": par, "verdict": verdict, "phName": phName, "phVersion": phVer, "legacy": legacy, "helloLen": len(hello)}}, nil
}

// primeSession completes one real handshake against a local TLS server so that the client's
// session cache holds a ticket for this server name.
func primeSession(ccfg *tls.Config) error {
	cert, err := tls.X509KeyPair([]byte(vh.CertPEM), []byte(vh.KeyPEM))
	if err != nil {
		return err
	}
	a, b := net.Pipe()
	defer a.Close()
	defer b.Close()
	done := make(chan error, 1)
	go func() {
		s := tls.Server(b, &tls.Config{Certificates: []tls.Certificate{cert}, NextProtos: []string{"h2", "http/1.1", "acme-tls/1"}})
		s.SetDeadline(time.Now().Add(2 * time.Second))
		err := s.Handshake()
		if err == nil {
			// TLS 1.3 tickets are sent after the handshake: make the client read them
			s.Write([]byte("x"))
		}
		done <- err
	}()
	c := tls.Client(a, ccfg)
	c.SetDeadline(time.Now().Add(2 * time.Second))
	if err := c.Handshake(); err != nil {
		return nil // a failed priming just means no ticket; the hello is then a fresh one
	}
	buf := make([]byte, 1)
	c.Read(buf)
	<-done
	return nil
}

func init() {
	register("tls-run", "ClientHellos of a real crypto/tls client shown to the matcher, its parser and a crypto/tls server (C07)", func(args []string) error {
		fs := flag.NewFlagSet("tls-run", flag.ExitOnError)
		in := fs.String("in", "", "cases (NDJSON from L4TLSGrid)")
		out := fs.String("out", "", "traces (NDJSON for L4TLSTrace)")
		sum := fs.String("summary", "", "summary JSON")
		fs.Parse(args)
		base, err := vh.CaddyContext()
		if err != nil {
			return err
		}
		lw, err := vh.NewLineWriter(*out)
		if err != nil {
			return err
		}
		var mu sync.Mutex
		var errs []string
		var samples []any
		matched := 0
		err = vh.ReadLines(*in, runtime.NumCPU(), func(i int, line []byte) {
			var tc tlsCase
			if err := json.Unmarshal(line, &tc); err != nil {
				panic(err)
			}
			tr, err := runTLSCase(base, tc, i)
			mu.Lock()
			defer mu.Unlock()
			if err != nil {
				errs = append(errs, err.Error())
				return
			}
			if tr["o"].(map[string]any)["verdict"] == "Y" {
				matched++
			}
			lw.Write(tr)
			if len(samples) < 2 && i%977 == 5 {
				samples = append(samples, tr)
			}
		})
		if err != nil {
			return err
		}
		if err := lw.Close(); err != nil {
			return err
		}
		return writeJSON(*sum, map[string]any{"cases": lw.N, "matched": matched, "errors": errs, "samples": samples})
	})
}

// stripExtension removes one extension from a ClientHello record and repairs the three enclosing lengths.
func stripExtension(rec []byte, typ int) ([]byte, error) {
	if len(rec) < 9 || rec[0] != 22 || rec[5] != 1 {
		return nil, fmt.Errorf("not a ClientHello record")
	}
	p := 9 + 2 + 32 // record header, handshake header, version, random
	p += 1 + int(rec[p])
	p += 2 + (int(rec[p])<<8 | int(rec[p+1]))
	p += 1 + int(rec[p])
	extLenAt := p
	extEnd := p + 2 + (int(rec[p])<<8 | int(rec[p+1]))
	p += 2
	out := append([]byte{}, rec[:p]...)
	removed := 0
	for p < extEnd {
		t := int(rec[p])<<8 | int(rec[p+1])
		l := int(rec[p+2])<<8 | int(rec[p+3])
		if t == typ {
			removed += 4 + l
		} else {
			out = append(out, rec[p:p+4+l]...)
		}
		p += 4 + l
	}
	out = append(out, rec[extEnd:]...)
	if removed == 0 {
		return nil, fmt.Errorf("extension %d not present", typ)
	}
	put16 := func(at, v int) { out[at], out[at+1] = byte(v>>8), byte(v) }
	put16(extLenAt, (int(rec[extLenAt])<<8|int(rec[extLenAt+1]))-removed)
	hl := (int(rec[6])<<16 | int(rec[7])<<8 | int(rec[8])) - removed
	out[6], out[7], out[8] = byte(hl>>16), byte(hl>>8), byte(hl)
	put16(3, (int(rec[3])<<8|int(rec[4]))-removed)
	return out, nil
}

// reverseExtensions writes the extensions of a ClientHello record in reverse order; pre_shared_key (41), which
// must be the last extension, stays last. No length changes.
func reverseExtensions(rec []byte) ([]byte, error) {
	if len(rec) < 9 || rec[0] != 22 || rec[5] != 1 {
		return nil, fmt.Errorf("not a ClientHello record")
	}
	p := 9 + 2 + 32
	p += 1 + int(rec[p])
	p += 2 + (int(rec[p])<<8 | int(rec[p+1]))
	p += 1 + int(rec[p])
	extEnd := p + 2 + (int(rec[p])<<8 | int(rec[p+1]))
	p += 2
	start := p
	var exts [][]byte
	var psk []byte
	for p < extEnd {
		t := int(rec[p])<<8 | int(rec[p+1])
		l := int(rec[p+2])<<8 | int(rec[p+3])
		if t == 41 {
			psk = rec[p : p+4+l]
		} else {
			exts = append(exts, rec[p:p+4+l])
		}
		p += 4 + l
	}
	out := append([]byte{}, rec[:start]...)
	for i := len(exts) - 1; i >= 0; i-- {
		out = append(out, exts[i]...)
	}
	out = append(out, psk...)
	out = append(out, rec[extEnd:]...)
	if len(out) != len(rec) {
		return nil, fmt.Errorf("extension reordering changed the length")
	}
	return out, nil
}
