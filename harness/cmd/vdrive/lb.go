package main

import (
	"encoding/json"
	"flag"
	"fmt"
	"net"
	"runtime"
	"sort"
	"sync"
	"sync/atomic"

	"github.com/mholt/caddy-l4/layer4"
	"github.com/mholt/caddy-l4/modules/l4proxy"
	"go.uber.org/zap"

	"verifharness/vh"
)

type lbPool struct {
	Pool     []l4proxy.VerifUpstream `json:"pool"`
	MaxFails int                     `json:"maxFails"`
}

type lbSingle struct {
	ID       string                  `json:"id"`
	Kind     string                  `json:"kind"`
	Policy   string                  `json:"policy"`
	Pool     []l4proxy.VerifUpstream `json:"pool"`
	MaxFails int                     `json:"maxFails"`
	Results  []int                   `json:"results"`
}

func newPolicy(name string, k int) l4proxy.Selector {
	switch name {
	case "first":
		return &l4proxy.FirstSelection{}
	case "random":
		return &l4proxy.RandomSelection{}
	case "random_choose":
		return &l4proxy.RandomChoiceSelection{Choose: k}
	case "least_conn":
		return &l4proxy.LeastConnSelection{}
	case "round_robin":
		return &l4proxy.RoundRobinSelection{}
	case "ip_hash":
		return &l4proxy.IPHashSelection{}
	}
	panic("unknown policy " + name)
}

func connFrom(ip string) *layer4.Connection {
	return connFromAddr(&net.TCPAddr{IP: net.ParseIP(ip), Port: 5555})
}

func connFromAddr(a net.Addr) *layer4.Connection {
	sc := &vh.ScriptConn{Rec: vh.NewRecorder(nil), Remote: a}
	return layer4.WrapConnection(sc, nil, zap.NewNop())
}

// selectIdx runs the real Select and maps the result to a 1-based pool index (0 none, -1 panic).
func selectIdx(pol l4proxy.Selector, pool l4proxy.UpstreamPool, cx *layer4.Connection) (idx int) {
	defer func() {
		if r := recover(); r != nil {
			idx = -1
		}
	}()
	u := pol.Select(pool, cx)
	if u == nil {
		return 0
	}
	for i, x := range pool {
		if x == u {
			return i + 1
		}
	}
	return -2
}

func init() {
	register("lb-single", "every policy on every TLC-enumerated pool state (C10)", func(args []string) error {
		fs := flag.NewFlagSet("lb-single", flag.ExitOnError)
		in := fs.String("in", "", "pool states (NDJSON from L4LBGrid)")
		out := fs.String("out", "", "traces (NDJSON for L4LBTrace)")
		sum := fs.String("summary", "", "summary JSON")
		draws := fs.Int("draws", 64, "selections per random policy and pool")
		fs.Parse(args)
		lw, err := vh.NewLineWriter(*out)
		if err != nil {
			return err
		}
		var evals int64
		var mu sync.Mutex
		var samples []any
		ips := []string{"10.0.0.1", "192.168.7.9", "2001:db8::1"}
		err = vh.ReadLines(*in, runtime.NumCPU(), func(i int, line []byte) {
			var p lbPool
			if err := json.Unmarshal(line, &p); err != nil {
				panic(err)
			}
			if p.Pool == nil {
				p.Pool = []l4proxy.VerifUpstream{}
			}
			type pc struct {
				name string
				k    int
			}
			for _, c := range []pc{{"first", 0}, {"random", 0}, {"least_conn", 0}, {"round_robin", 0}, {"ip_hash", 0}, {"random_choose", 2}, {"random_choose", 3}, {"random_choose", len(p.Pool) + 1}} {
				pool := l4proxy.VerifBuildPool(p.Pool, p.MaxFails)
				pol := newPolicy(c.name, c.k)
				n := 1
				if c.name == "random" || c.name == "random_choose" || c.name == "least_conn" {
					n = *draws
				}
				if c.name == "round_robin" {
					n = 2*len(pool) + 1
				}
				seen := map[int]bool{}
				for d := 0; d < n; d++ {
					ip := ips[d%len(ips)]
					if c.name != "ip_hash" {
						ip = ips[0]
					}
					seen[selectIdx(pol, pool, connFrom(ip))] = true
					if c.name == "ip_hash" && d < len(ips)-1 {
						n = len(ips)
					}
				}
				res := []int{}
				for r := range seen {
					res = append(res, r)
				}
				sort.Ints(res)
				atomic.AddInt64(&evals, int64(n))
				t := lbSingle{ID: fmt.Sprintf("lb:%d:%s:%d", i, c.name, c.k), Kind: "single", Policy: c.name, Pool: p.Pool, MaxFails: p.MaxFails, Results: res}
				lw.Write(t)
				if i%9973 == 7 {
					mu.Lock()
					if len(samples) < 3 {
						samples = append(samples, t)
					}
					mu.Unlock()
				}
			}
		})
		if err != nil {
			return err
		}
		if err := lw.Close(); err != nil {
			return err
		}
		return writeJSON(*sum, map[string]any{"pool_states": lw.N / 8, "traces": lw.N, "selections": evals, "samples": samples})
	})

	register("lb-seq", "selection sequences with one policy instance while upstreams go up and down (C10)", func(args []string) error {
		fs := flag.NewFlagSet("lb-seq", flag.ExitOnError)
		in := fs.String("in", "", "behaviours of L4LBSeq (NDJSON)")
		out := fs.String("out", "", "traces (NDJSON for L4LBTrace)")
		sum := fs.String("summary", "", "summary JSON")
		fs.Parse(args)
		lw, err := vh.NewLineWriter(*out)
		if err != nil {
			return err
		}
		var same, differ int64
		var mu sync.Mutex
		var samples []any
		err = vh.ReadLines(*in, runtime.NumCPU(), func(i int, line []byte) {
			var b struct {
				N     int `json:"n"`
				Steps []struct {
					Up []bool `json:"up"`
					RR int    `json:"rr"`
				} `json:"steps"`
			}
			if err := json.Unmarshal(line, &b); err != nil {
				panic(err)
			}
			ups := make([]l4proxy.VerifUpstream, b.N)
			for j := range ups {
				ups[j] = l4proxy.VerifUpstream{Peers: []l4proxy.VerifPeer{{}}}
			}
			pool := l4proxy.VerifBuildPool(ups, 0)
			rr := newPolicy("round_robin", 0)
			iph := newPolicy("ip_hash", 0)
			ip := []string{"10.0.0.1", "192.168.7.9", "2001:db8::1", "172.16.3.4"}[i%4]
			cx := connFrom(ip)
			// ip_hash is a function of the client's IP: the same client over other ports and over UDP must get the same upstream
			iphCx := []*layer4.Connection{cx, connFromAddr(&net.UDPAddr{IP: net.ParseIP(ip), Port: 40001}),
				connFromAddr(&net.UDPAddr{IP: net.ParseIP(ip), Port: 40002}), connFromAddr(&net.TCPAddr{IP: net.ParseIP(ip), Port: 6001})}
			type step struct {
				Up  []bool `json:"up"`
				RR  int    `json:"rr"`
				Res int    `json:"res"`
			}
			var rrSteps, iphSteps []step
			identical := true
			for _, s := range b.Steps {
				for j, up := range s.Up {
					l4proxy.VerifSetUnhealthy(pool[j], !up)
				}
				r := selectIdx(rr, pool, cx)
				h := selectIdx(iph, pool, iphCx[len(iphSteps)%len(iphCx)])
				if r != s.RR {
					identical = false
				}
				rrSteps = append(rrSteps, step{Up: s.Up, RR: r})
				iphSteps = append(iphSteps, step{Up: s.Up, Res: h})
			}
			if identical {
				atomic.AddInt64(&same, 1)
			} else {
				atomic.AddInt64(&differ, 1)
				lw.Write(map[string]any{"id": fmt.Sprintf("rr:%d", i), "kind": "rr", "steps": rrSteps})
			}
			t := map[string]any{"id": fmt.Sprintf("iph:%d", i), "kind": "iph", "steps": iphSteps}
			lw.Write(t)
			if i%7919 == 3 {
				mu.Lock()
				if len(samples) < 2 {
					samples = append(samples, t)
				}
				mu.Unlock()
			}
		})
		if err != nil {
			return err
		}
		if err := lw.Close(); err != nil {
			return err
		}
		return writeJSON(*sum, map[string]any{"sequences": same + differ, "round_robin_identical_to_model": same, "round_robin_different": differ, "samples": samples})
	})
}
