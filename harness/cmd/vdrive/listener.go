package main

import (
	"context"
	"encoding/json"
	"errors"
	"flag"
	"fmt"
	"io"
	"net"
	"runtime"
	"sync"
	"time"

	"github.com/caddyserver/caddy/v2"
	"github.com/mholt/caddy-l4/layer4"

	"verifharness/vh"
)

type lnScen struct {
	Mix      []string `json:"mix"`
	Consumer string   `json:"consumer"`
	Procs    int      `json:"procs"`
	Slen     int      `json:"slen"`
	Close    string   `json:"close"`
	Pace     int      `json:"pace"`
}

type lnTrace struct {
	ID       string  `json:"id"`
	Scen     any     `json:"scen"`
	Complete bool    `json:"complete"`
	Hist     []vh.Ev `json:"hist"`
}

const eatN = 6

func lnRoutes() []map[string]any {
	vhm := func(at int, v, kind string) map[string]any {
		return map[string]any{"verif_m0": map[string]any{"at": at, "v": v, "w": v, "kind": kind}}
	}
	return []map[string]any{
		// looks at 8 bytes of fall-through connections and says no: their bytes get prefetched
		{"match": []map[string]any{vhm(8, "N", "fall")}, "handle": []map[string]any{{"handler": "verif_h", "k": "term"}}},
		// consumed by a terminal handler
		{"match": []map[string]any{vhm(4, "Y", "term")}, "handle": []map[string]any{{"handler": "verif_h", "k": "mark", "l": 1, "r": 2}, {"handler": "verif_h", "k": "term", "l": 1, "r": 2}}},
		// a non-terminal handler eats a prefix, then the connection falls through
		{"match": []map[string]any{vhm(4, "Y", "eatfall")}, "handle": []map[string]any{{"handler": "verif_h", "k": "mark", "l": 1, "r": 3}, {"handler": "verif_h", "k": "eat", "n": eatN}}},
		// never decided: matching fails when the client's stream ends
		{"match": []map[string]any{vhm(1<<20, "Y", "rej")}, "handle": []map[string]any{{"handler": "verif_h", "k": "term"}}},
	}
}

func runListener(sc lnScen, idx int, seed int64) (*lnTrace, error) {
	shared := vh.NewRecorder(nil)
	base := runtime.NumGoroutine()
	ctx, cancel := caddy.NewContext(caddy.Context{Context: context.Background()})
	defer cancel()
	cfg, _ := json.Marshal(map[string]any{"routes": lnRoutes(), "matching_timeout": int64(5 * time.Second)})
	lw := new(layer4.ListenerWrapper)
	if err := json.Unmarshal(cfg, lw); err != nil {
		return nil, err
	}
	if err := lw.Provision(ctx); err != nil {
		return nil, err
	}
	old := runtime.GOMAXPROCS(sc.Procs)
	defer runtime.GOMAXPROCS(old)
	fl := vh.NewFakeListener()
	ln := lw.WrapListener(fl)

	type connInfo struct {
		rec  *vh.Recorder
		conn *vh.ScriptConn
		kind string
	}
	conns := map[string]*connInfo{}
	var order []string
	for i, kind := range sc.Mix {
		id := fmt.Sprintf("k%d", i+1)
		slen := sc.Slen
		if (kind == "term" || kind == "eatfall") && slen < 16 {
			slen = 16
		}
		rec := vh.NewRecorder(vh.MakeStream(seed*1000+int64(idx*16+i), slen+64))
		rec.Kind, rec.ID, rec.Sink = kind, id, shared
		addr := &net.TCPAddr{IP: net.IPv4(10, 1, byte(idx%250), byte(i+1)), Port: 20000 + i}
		pulls := []int{}
		if i%2 == 1 {
			pulls = []int{3, 1, 2048, 7}
		}
		sc := &vh.ScriptConn{Rec: rec, Slen: slen, EndKind: "eof", Pulls: pulls, Start: time.Now(), Unit: time.Hour, Remote: addr}
		vh.RegisterRec(addr.String(), rec)
		defer vh.UnregisterRec(addr.String())
		conns[addr.String()] = &connInfo{rec, sc, kind}
		order = append(order, addr.String())
	}
	fl.OnAccept = func(c net.Conn) {
		ci := conns[c.RemoteAddr().String()]
		from, k := 0, ci.kind
		if k == "eatfall" {
			from, k = eatN, "fall"
		}
		if k == "fall" && ci.conn.Slen < 8 {
			k = "rej" // the stream ends before the 8 bytes the first route asks for: matching fails
		}
		shared.Add(vh.Ev{"e": "Offer", "c": ci.rec.ID, "kind": k, "slen": ci.conn.Slen, "from": from})
	}

	// consumer
	var cwg sync.WaitGroup
	release := make(chan struct{}) // slow consumer: read only after this is closed
	startAccept := make(chan struct{})
	consumerDone := make(chan struct{})
	go func() {
		defer close(consumerDone)
		<-startAccept
		for {
			c, err := ln.Accept()
			if err != nil {
				if errors.Is(err, net.ErrClosed) {
					shared.Add(vh.Ev{"e": "AccClosed"})
				} else {
					shared.Add(vh.Ev{"e": "AccErr", "msg": err.Error()})
				}
				return
			}
			ci := conns[c.RemoteAddr().String()]
			if ci == nil {
				shared.Add(vh.Ev{"e": "Acc", "c": "?"})
				continue
			}
			shared.Add(vh.Ev{"e": "Acc", "c": ci.rec.ID})
			cwg.Add(1)
			go func(c net.Conn, ci *connInfo) {
				defer cwg.Done()
				if sc.Consumer != "fast" {
					<-release
				}
				var segs vh.Segs
				buf := make([]byte, 4096)
				ci.rec.InHandler = true
				for {
					n, err := c.Read(buf)
					if n > 0 {
						segs = ci.rec.NoteRead(segs, buf[:n])
					}
					if err != nil || n == 0 {
						break
					}
				}
				if segs == nil {
					segs = vh.Segs{}
				}
				shared.Add(vh.Ev{"e": "CRead", "c": ci.rec.ID, "segs": segs})
				shared.Add(vh.Ev{"e": "CClose", "c": ci.rec.ID})
				c.Close()
			}(c, ci)
		}
	}()
	if sc.Consumer != "absent" {
		close(startAccept)
	}
	for _, a := range order {
		fl.Offer(conns[a].conn)
		if sc.Pace > 0 {
			time.Sleep(time.Duration(sc.Pace) * time.Millisecond)
		}
	}
	settle := func(maxMs int) {
		last, stable := -1, 0
		for i := 0; i < maxMs/2 && stable < 5; i++ {
			time.Sleep(2 * time.Millisecond)
			if n := shared.Len(); n == last {
				stable++
			} else {
				last, stable = n, 0
			}
		}
	}
	if sc.Close == "end" {
		settle(1000)
		if sc.Consumer == "absent" {
			close(startAccept)
			settle(1000)
		}
		close(release)
		settle(1000)
		cwg.Wait()
	}
	shared.Add(vh.Ev{"e": "LnClose"})
	ln.Close()
	if sc.Close == "early" {
		if sc.Consumer == "absent" {
			close(startAccept)
		}
		settle(1000)
		close(release)
	}
	select {
	case <-consumerDone:
	case <-time.After(3 * time.Second):
		shared.Add(vh.Ev{"e": "AccHang"})
	}
	cwg.Wait()
	// connections never accepted by the wrapper's loop belong to nobody
	never := fl.Pending()
	// goroutines must come back to the baseline
	leak := 0
	for i := 0; i < 500; i++ {
		leak = runtime.NumGoroutine() - base
		if leak <= 0 {
			break
		}
		time.Sleep(10 * time.Millisecond)
	}
	shared.Add(vh.Ev{"e": "Leak", "n": leak})
	hist := []vh.Ev{}
	offered := map[string]bool{}
	for _, e := range shared.Snapshot() {
		switch e["e"] {
		case "Offer":
			offered[e["c"].(string)] = true
		case "Pull", "Sock", "Dl", "Handle", "HRead", "HPull", "Fallback":
			continue
		}
		hist = append(hist, e)
	}
	_ = never
	_ = io.EOF
	return &lnTrace{ID: fmt.Sprintf("listener:%d", idx), Scen: sc, Complete: true, Hist: hist}, nil
}

func init() {
	register("listener-run", "the real ListenerWrapper around a scripted listener (C13 / C08)", func(args []string) error {
		fs := flag.NewFlagSet("listener-run", flag.ExitOnError)
		in := fs.String("in", "", "scenario grid (NDJSON from L4ListenerGrid)")
		out := fs.String("out", "", "traces (NDJSON for L4ListenerTrace)")
		sum := fs.String("summary", "", "summary JSON")
		seed := fs.Int64("seed", 1, "seed")
		fs.Parse(args)
		var scens []lnScen
		if err := vh.ReadLines(*in, 1, func(i int, line []byte) {
			var s lnScen
			if err := json.Unmarshal(line, &s); err != nil {
				panic(err)
			}
			scens = append(scens, s)
		}); err != nil {
			return err
		}
		lw, err := vh.NewLineWriter(*out)
		if err != nil {
			return err
		}
		var samples []any
		delivered := 0
		for i, s := range scens {
			tr, err := runListener(s, i, *seed)
			if err != nil {
				return err
			}
			for _, e := range tr.Hist {
				if e["e"] == "Acc" {
					delivered++
				}
			}
			lw.Write(tr)
			if len(samples) < 2 && len(tr.Hist) < 30 && len(tr.Hist) > 8 {
				samples = append(samples, tr)
			}
		}
		if err := lw.Close(); err != nil {
			return err
		}
		return writeJSON(*sum, map[string]any{"runs": len(scens), "delivered": delivered, "samples": samples})
	})
}
