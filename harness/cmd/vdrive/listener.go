package main

import (
	"crypto/tls"
	"encoding/json"
	"errors"
	"flag"
	"fmt"
	"io"
	"net"
	"runtime"
	"sync"
	"time"

	"github.com/mholt/caddy-l4/layer4"
	_ "github.com/mholt/caddy-l4/modules/l4tls"

	"verifharness/vh"
)

type lnScen struct {
	Mix      []string `json:"mix"`
	Consumer string   `json:"consumer"`
	Procs    int      `json:"procs"`
	Slen     int      `json:"slen"`
	Close    string   `json:"close"`
	Pace     int      `json:"pace"`
}

type lnTrace struct {
	ID       string  `json:"id"`
	Scen     any     `json:"scen"`
	Complete bool    `json:"complete"`
	Hist     []vh.Ev `json:"hist"`
}

const eatN = 6

// the PROXY protocol header "ppfall" connections begin with (v1, UNKNOWN: what follows the keyword is ignored)
var lnPPHeader = []byte("PROXY UNKNOWN 0123456789ab\r\n")

func lnRoutes() []map[string]any {
	vhm := func(at int, v, kind string) map[string]any {
		return map[string]any{"verif_m0": map[string]any{"at": at, "v": v, "w": v, "kind": kind}}
	}
	return []map[string]any{
		// TLS is terminated by the real tls handler (non-terminal); the following routes see the plaintext
		{"match": []map[string]any{{"tls": map[string]any{}}}, "handle": []map[string]any{{"handler": "tls"}}},
		// looks at 8 plaintext bytes of TLS-terminated fall-through connections and says no
		{"match": []map[string]any{vhm(8, "N", "tlsfall")}, "handle": []map[string]any{{"handler": "verif_h", "k": "term"}}},
		// looks at 8 bytes of fall-through connections and says no: their bytes get prefetched
		{"match": []map[string]any{vhm(8, "N", "fall")}, "handle": []map[string]any{{"handler": "verif_h", "k": "term"}}},
		// consumed by a terminal handler
		{"match": []map[string]any{vhm(4, "Y", "term")}, "handle": []map[string]any{{"handler": "verif_h", "k": "mark", "l": 1, "r": 2}, {"handler": "verif_h", "k": "term", "l": 1, "r": 2}}},
		// consumed by a terminal handler that serves until the client hangs up (the client of a "hold" connection does so
		// only after the listener has been closed)
		{"match": []map[string]any{vhm(4, "Y", "hold")}, "handle": []map[string]any{{"handler": "verif_h", "k": "mark", "l": 1, "r": 5}, {"handler": "verif_h", "k": "term", "l": 1, "r": 5}}},
		// "eatlate": a matched non-terminal route, then a route that needs MORE data before it says no (the matching
		// deadline is armed again for that), then fall-through; the consumer reads after the matching timeout has passed
		{"match": []map[string]any{vhm(4, "Y", "eatlate")}, "handle": []map[string]any{{"handler": "verif_h", "k": "mark", "l": 1, "r": 6}, {"handler": "verif_h", "k": "eat", "n": eatN}}},
		{"match": []map[string]any{vhm(eatN+8, "N", "eatlate")}, "handle": []map[string]any{{"handler": "verif_h", "k": "term"}}},
		// "wrapfall": a matched route whose handler wraps the connection while prefetched bytes are still unread (as tls,
		// proxy_protocol, tee do), then a route that needs more data before it says no - the wrapped connection prefetches
		// through a pooled scratch chunk - then fall-through: the consumer reads the whole stream
		{"match": []map[string]any{vhm(4, "Y", "wrapfall")}, "handle": []map[string]any{{"handler": "verif_h", "k": "mark", "l": 1, "r": 7}, {"handler": "verif_h", "k": "wrap"}}},
		{"match": []map[string]any{vhm(40, "N", "wrapfall")}, "handle": []map[string]any{{"handler": "verif_h", "k": "term"}}},
		// "subfall" / "subterm": a matched route whose handler is the real subroute handler (ONE instance for both roles); its
		// only inner route looks at 12 bytes and says no, so the subroute hands the connection back (its `next`): the outer
		// list goes on - a later route consumes "subterm" connections with a terminal handler, "subfall" connections fall
		// through to the wrapped listener. What the outer list does after the subroute is each connection's own business.
		{"match": []map[string]any{vhm(4, "Y", "sub*")}, "handle": []map[string]any{{"handler": "verif_h", "k": "mark", "l": 1, "r": 8},
			{"handler": "subroute", "routes": []map[string]any{{"match": []map[string]any{vhm(12, "N", "sub*")}, "handle": []map[string]any{{"handler": "verif_h", "k": "term"}}}}}}},
		{"match": []map[string]any{vhm(4, "Y", "subterm")}, "handle": []map[string]any{{"handler": "verif_h", "k": "mark", "l": 1, "r": 10}, {"handler": "verif_h", "k": "term", "l": 1, "r": 10}}},
		// "ppfall": a matched route whose handler is the real proxy_protocol handler (the stream begins with a 28-byte v1
		// header), then fall-through: the consumer reads the stream from the first byte after the header
		{"match": []map[string]any{vhm(4, "Y", "ppfall")}, "handle": []map[string]any{{"handler": "verif_h", "k": "mark", "l": 1, "r": 11}, {"handler": "proxy_protocol"}}},
		// "thrfall": a matched route whose handler is the real throttle handler (generous limits), then fall-through: the
		// wrapped listener's consumer reads the stream THROUGH the throttled connection, after layer4 has let go of it
		{"match": []map[string]any{vhm(4, "Y", "thrfall")}, "handle": []map[string]any{{"handler": "verif_h", "k": "mark", "l": 1, "r": 9},
			{"handler": "throttle", "read_bytes_per_second": 4000000, "read_burst_size": 65536}}},
		// a non-terminal handler eats a prefix, then the connection falls through
		{"match": []map[string]any{vhm(4, "Y", "eatfall")}, "handle": []map[string]any{{"handler": "verif_h", "k": "mark", "l": 1, "r": 3}, {"handler": "verif_h", "k": "eat", "n": eatN}}},
		// never decided: matching fails when the client's stream ends
		{"match": []map[string]any{vhm(1<<20, "Y", "rej")}, "handle": []map[string]any{{"handler": "verif_h", "k": "term"}}},
	}
}

func runListener(sc lnScen, idx int, seed int64) (*lnTrace, error) {
	shared := vh.NewRecorder(nil)
	ctx, err := vh.CaddyContext()
	if err != nil {
		return nil, err
	}
	base := runtime.NumGoroutine()
	late := false
	for _, k := range sc.Mix {
		if k == "eatlate" {
			late = true
		}
	}
	mt := 5 * time.Second
	if late {
		mt = 300 * time.Millisecond
	}
	cfg, _ := json.Marshal(map[string]any{"routes": lnRoutes(), "matching_timeout": int64(mt)})
	lw := new(layer4.ListenerWrapper)
	if err := json.Unmarshal(cfg, lw); err != nil {
		return nil, err
	}
	if err := lw.Provision(ctx); err != nil {
		return nil, err
	}
	old := runtime.GOMAXPROCS(sc.Procs)
	defer runtime.GOMAXPROCS(old)
	fl := vh.NewFakeListener()
	if sc.Close == "earlylate" {
		fl.LateClose = 300 * time.Millisecond
	}
	ln := lw.WrapListener(fl)

	type connInfo struct {
		rec    *vh.Recorder
		conn   net.Conn // what the inner listener hands out
		kind   string
		slen   int
		client func() // TLS client side, run once the connection was offered
	}
	conns := map[string]*connInfo{}
	var held []*vh.ScriptConn
	var order []string
	var tcpLn net.Listener
	for i, kind := range sc.Mix {
		id := fmt.Sprintf("k%d", i+1)
		slen := sc.Slen
		if (kind == "term" || kind == "eatfall" || kind == "tlsfall" || kind == "hold" || kind == "subfall" || kind == "subterm" || kind == "thrfall") && slen < 16 {
			slen = 16
		}
		if kind == "wrapfall" && slen < 300 {
			slen = 300
		}
		if kind == "ppfall" && slen < 300 {
			slen = 300
		}
		if kind == "eatlate" && slen < 300 {
			slen = 300
		}
		rec := vh.NewRecorder(vh.MakeStream(seed*1000+int64(idx*16+i), slen+64))
		rec.Kind, rec.ID, rec.Sink = kind, id, shared
		if kind == "ppfall" {
			copy(rec.Stream, lnPPHeader)
		}
		if kind == "tlsfall" {
			if tcpLn == nil {
				if tcpLn, err = net.Listen("tcp", "127.0.0.1:0"); err != nil {
					return nil, err
				}
				defer tcpLn.Close()
			}
			cc, err := net.Dial("tcp", tcpLn.Addr().String())
			if err != nil {
				return nil, err
			}
			sconn, err := tcpLn.Accept()
			if err != nil {
				return nil, err
			}
			addr := sconn.RemoteAddr().String()
			vh.RegisterRec(addr, rec)
			defer vh.UnregisterRec(addr)
			vh.RegisterRec(sconn.LocalAddr().String()+"|"+addr, rec)
			defer vh.UnregisterRec(sconn.LocalAddr().String() + "|" + addr)
			stream := rec.Stream[:slen]
			ci := &connInfo{rec: rec, conn: &closeObs{Conn: sconn, rec: rec}, kind: kind, slen: slen}
			ci.client = func() {
				tc := tls.Client(cc, &tls.Config{ServerName: "verif.test", InsecureSkipVerify: true})
				tc.SetDeadline(time.Now().Add(5 * time.Second))
				if err := tc.Handshake(); err != nil {
					shared.Add(vh.Ev{"e": "ClientErr", "c": id, "msg": err.Error()})
					cc.Close()
					return
				}
				tc.Write(stream)
				tc.CloseWrite()
				io.Copy(io.Discard, tc)
				cc.Close()
			}
			conns[addr] = ci
			order = append(order, addr)
			continue
		}
		addr := &net.TCPAddr{IP: net.IPv4(10, 1, byte(idx%250), byte(i+1)), Port: 20000 + i}
		pulls := []int{}
		if i%2 == 1 {
			pulls = []int{3, 1, 2048, 7}
		}
		scn := &vh.ScriptConn{Rec: rec, Slen: slen, EndKind: "eof", Pulls: pulls, Start: time.Now(), Unit: time.Hour, Remote: addr}
		if kind == "hold" {
			scn.EndKind = "hold"
			held = append(held, scn)
		}
		if kind == "wrapfall" {
			scn.Pulls = []int{10, 100} // the second route sees 10 of the 40 bytes it wants when the handler has wrapped
		}
		if kind == "eatlate" {
			scn.Pulls = []int{10, 30} // the second route sees 4 of the 8 bytes it wants after the first round
		}
		vh.RegisterRec(addr.String(), rec)
		defer vh.UnregisterRec(addr.String())
		conns[addr.String()] = &connInfo{rec: rec, conn: scn, kind: kind, slen: slen}
		order = append(order, addr.String())
	}
	fl.OnAccept = func(c net.Conn) {
		ci := conns[c.RemoteAddr().String()]
		from, k, isTLS := 0, ci.kind, false
		if k == "eatfall" || k == "eatlate" {
			from, k = eatN, "fall"
		}
		if k == "tlsfall" {
			k, isTLS = "fall", true
		}
		if k == "wrapfall" || k == "subfall" || k == "thrfall" {
			k = "fall"
		}
		if k == "subterm" {
			k = "term"
		}
		if k == "ppfall" {
			from, k = len(lnPPHeader), "fall"
		}
		if k == "fall" && ci.slen < 8 {
			k = "rej" // the stream ends before the 8 bytes the first route asks for: matching fails
		}
		shared.Add(vh.Ev{"e": "Offer", "c": ci.rec.ID, "kind": k, "slen": ci.slen, "from": from, "tls": isTLS})
		if ci.client != nil {
			go ci.client()
		}
	}

	// consumer
	var cwg sync.WaitGroup
	release := make(chan struct{}) // slow consumer: read only after this is closed
	startAccept := make(chan struct{})
	consumerDone := make(chan struct{})
	go func() {
		defer close(consumerDone)
		<-startAccept
		for {
			c, err := ln.Accept()
			if err != nil {
				if errors.Is(err, net.ErrClosed) {
					shared.Add(vh.Ev{"e": "AccClosed"})
				} else {
					shared.Add(vh.Ev{"e": "AccErr", "msg": err.Error()})
				}
				return
			}
			ci := conns[c.RemoteAddr().String()]
			if ci == nil {
				shared.Add(vh.Ev{"e": "Acc", "c": "?"})
				continue
			}
			shared.Add(vh.Ev{"e": "Acc", "c": ci.rec.ID})
			cwg.Add(1)
			go func(c net.Conn, ci *connInfo) {
				defer cwg.Done()
				if sc.Consumer != "fast" {
					<-release
				}
				var segs vh.Segs
				buf := make([]byte, 4096)
				ci.rec.InHandler = true
				for {
					n, err := c.Read(buf)
					if n > 0 {
						segs = ci.rec.NoteRead(segs, buf[:n])
					}
					if err != nil || n == 0 {
						break
					}
				}
				if segs == nil {
					segs = vh.Segs{}
				}
				hasState := false
				if cs, ok := c.(interface{ ConnectionState() tls.ConnectionState }); ok {
					hasState = cs.ConnectionState().HandshakeComplete
				}
				shared.Add(vh.Ev{"e": "CRead", "c": ci.rec.ID, "segs": segs, "tls": hasState})
				shared.Add(vh.Ev{"e": "CClose", "c": ci.rec.ID})
				c.Close()
			}(c, ci)
		}
	}()
	if sc.Consumer != "absent" {
		close(startAccept)
	}
	for _, a := range order {
		fl.Offer(conns[a].conn)
		if sc.Pace > 0 {
			time.Sleep(time.Duration(sc.Pace) * time.Millisecond)
		}
	}
	settle := func(maxMs int) {
		last, stable := -1, 0
		for i := 0; i < maxMs/2 && stable < 5; i++ {
			time.Sleep(2 * time.Millisecond)
			if n := shared.Len(); n == last {
				stable++
			} else {
				last, stable = n, 0
			}
		}
	}
	if sc.Close == "end" {
		settle(1000)
		if sc.Consumer == "absent" {
			close(startAccept)
			settle(1000)
		}
		if late {
			// the (slow) consumer starts reading only after the matching timeout of 300 ms has long passed
			time.Sleep(450 * time.Millisecond)
		}
		close(release)
		settle(1000)
		// every consumer reads to the end of its stream; one that never gets there must not hold the whole run
		cdone := make(chan struct{})
		go func() { cwg.Wait(); close(cdone) }()
		select {
		case <-cdone:
		case <-time.After(20 * time.Second):
			shared.Add(vh.Ev{"e": "Stuck"})
		}
	}
	if sc.Close == "early" || sc.Close == "earlylate" {
		// the connections have been accepted and routed; those falling through wait in (or for) the hand-over channel
		settle(300)
	}
	shared.Add(vh.Ev{"e": "LnClose"})
	ln.Close()
	if sc.Close == "earlylate" {
		// the wrapper is closed, its accept loop has not noticed yet, and the consumer asks at once: a connection
		// waiting in the hand-over channel is either delivered or closed - never dropped
		if sc.Consumer == "absent" {
			close(startAccept)
		}
		settle(600)
		settle(1000)
		close(release)
	}
	if sc.Close == "early" {
		settle(200)
		if sc.Consumer == "absent" {
			close(startAccept)
		}
		settle(1000)
		close(release)
	}
	select {
	case <-consumerDone:
	case <-time.After(3 * time.Second):
		// Accept has not reported closure although the listener was closed 3 s ago (connections may still be served)
		shared.Add(vh.Ev{"e": "AccHang"})
	}
	// now the clients of the held connections hang up
	for _, c := range held {
		c.Release()
	}
	if len(held) > 0 {
		select {
		case <-consumerDone:
		case <-time.After(3 * time.Second):
		}
		settle(500)
	}
	cwg.Wait()
	// connections never accepted by the wrapper's loop belong to nobody
	never := fl.Pending()
	// goroutines must come back to the baseline
	leak := 0
	for i := 0; i < 500; i++ {
		leak = runtime.NumGoroutine() - base
		if leak <= 0 {
			break
		}
		time.Sleep(10 * time.Millisecond)
	}
	shared.Add(vh.Ev{"e": "Leak", "n": leak})
	hist := []vh.Ev{}
	offered := map[string]bool{}
	for _, e := range shared.Snapshot() {
		switch e["e"] {
		case "Offer":
			offered[e["c"].(string)] = true
		case "Pull", "Sock", "Dl", "Handle", "HRead", "HPull", "Fallback", "Term":
			continue
		}
		hist = append(hist, e)
	}
	_ = never
	_ = io.EOF
	return &lnTrace{ID: fmt.Sprintf("listener:%d", idx), Scen: sc, Complete: true, Hist: hist}, nil
}

func init() {
	register("listener-run", "the real ListenerWrapper around a scripted listener (C13 / C08)", func(args []string) error {
		fs := flag.NewFlagSet("listener-run", flag.ExitOnError)
		in := fs.String("in", "", "scenario grid (NDJSON from L4ListenerGrid)")
		out := fs.String("out", "", "traces (NDJSON for L4ListenerTrace)")
		sum := fs.String("summary", "", "summary JSON")
		seed := fs.Int64("seed", 1, "seed")
		fs.Parse(args)
		var scens []lnScen
		if err := vh.ReadLines(*in, 1, func(i int, line []byte) {
			var s lnScen
			if err := json.Unmarshal(line, &s); err != nil {
				panic(err)
			}
			scens = append(scens, s)
		}); err != nil {
			return err
		}
		lw, err := vh.NewLineWriter(*out)
		if err != nil {
			return err
		}
		var samples []any
		delivered := 0
		for i, s := range scens {
			tr, err := runListener(s, i, *seed)
			if err != nil {
				return err
			}
			for _, e := range tr.Hist {
				if e["e"] == "Acc" {
					delivered++
				}
			}
			lw.Write(tr)
			if len(samples) < 2 && len(tr.Hist) < 30 && len(tr.Hist) > 8 {
				samples = append(samples, tr)
			}
		}
		// one wrapper instance around TWO listeners (Caddy wraps every listen address with the same wrapper)
		for k := 0; k < 3; k++ {
			tr, err := runListenerTwo(len(scens)+k, *seed)
			if err != nil {
				return err
			}
			lw.Write(tr)
		}
		if err := lw.Close(); err != nil {
			return err
		}
		return writeJSON(*sum, map[string]any{"runs": len(scens), "delivered": delivered, "samples": samples})
	})
}

// closeObs records Close on a real connection handed to the wrapper.
type closeObs struct {
	net.Conn
	rec  *vh.Recorder
	once sync.Once
}

func (c *closeObs) Close() error {
	c.once.Do(func() {
		if c.rec.Sink != nil {
			c.rec.Sink.Add(vh.Ev{"e": "ConnClosed", "c": c.rec.ID})
		}
	})
	return c.Conn.Close()
}

// runListenerTwo: the same provisioned ListenerWrapper wraps listeners A and B. A connection accepted on one must come
// out of that one's Accept; closing A must leave B working: a connection offered on B afterwards is still delivered by
// B, and B's Accept reports closure only once B itself is closed.
func runListenerTwo(idx int, seed int64) (*lnTrace, error) {
	shared := vh.NewRecorder(nil)
	ctx, err := vh.CaddyContext()
	if err != nil {
		return nil, err
	}
	base := runtime.NumGoroutine()
	cfg, _ := json.Marshal(map[string]any{"routes": lnRoutes(), "matching_timeout": int64(5 * time.Second)})
	lw := new(layer4.ListenerWrapper)
	if err := json.Unmarshal(cfg, lw); err != nil {
		return nil, err
	}
	if err := lw.Provision(ctx); err != nil {
		return nil, err
	}
	fls := map[string]*vh.FakeListener{"A": vh.NewFakeListener(), "B": vh.NewFakeListener()}
	lns := map[string]net.Listener{"A": lw.WrapListener(fls["A"]), "B": lw.WrapListener(fls["B"])}
	type ci struct {
		rec *vh.Recorder
	}
	conns := map[string]*ci{}
	var cmu sync.Mutex
	n := 0
	offer := func(on string, expect bool) {
		n++
		id := fmt.Sprintf("k%d", n)
		slen := 300
		rec := vh.NewRecorder(vh.MakeStream(seed*1000+int64(idx*16+n), slen+64))
		rec.Kind, rec.ID, rec.Sink = "fall", id, shared
		addr := &net.TCPAddr{IP: net.IPv4(10, 2, byte(idx%250), byte(n)), Port: 21000 + n}
		scn := &vh.ScriptConn{Rec: rec, Slen: slen, EndKind: "eof", Start: time.Now(), Unit: time.Hour, Remote: addr}
		vh.RegisterRec(addr.String(), rec)
		cmu.Lock()
		conns[addr.String()] = &ci{rec: rec}
		cmu.Unlock()
		shared.Add(vh.Ev{"e": "Offer", "c": id, "kind": "fall", "slen": slen, "from": 0, "tls": false, "ln": on})
		if expect {
			shared.Add(vh.Ev{"e": "Expect", "c": id})
		}
		fls[on].Offer(scn)
	}
	var cwg sync.WaitGroup
	dones := map[string]chan struct{}{"A": make(chan struct{}), "B": make(chan struct{})}
	for _, name := range []string{"A", "B"} {
		go func(name string) {
			defer close(dones[name])
			for {
				c, err := lns[name].Accept()
				if err != nil {
					if errors.Is(err, net.ErrClosed) {
						shared.Add(vh.Ev{"e": "AccClosed", "ln": name})
					} else {
						shared.Add(vh.Ev{"e": "AccErr", "msg": err.Error(), "ln": name})
					}
					return
				}
				cmu.Lock()
				k := conns[c.RemoteAddr().String()]
				cmu.Unlock()
				if k == nil {
					shared.Add(vh.Ev{"e": "Acc", "c": "?", "ln": name})
					continue
				}
				shared.Add(vh.Ev{"e": "Acc", "c": k.rec.ID, "ln": name})
				cwg.Add(1)
				go func(c net.Conn, k *ci) {
					defer cwg.Done()
					var segs vh.Segs
					buf := make([]byte, 4096)
					k.rec.InHandler = true
					for {
						n, err := c.Read(buf)
						if n > 0 {
							segs = k.rec.NoteRead(segs, buf[:n])
						}
						if err != nil || n == 0 {
							break
						}
					}
					if segs == nil {
						segs = vh.Segs{}
					}
					shared.Add(vh.Ev{"e": "CRead", "c": k.rec.ID, "segs": segs, "tls": false})
					shared.Add(vh.Ev{"e": "CClose", "c": k.rec.ID})
					c.Close()
				}(c, k)
			}
		}(name)
	}
	settle := func(maxMs int) {
		last, stable := -1, 0
		for i := 0; i < maxMs/2 && stable < 8; i++ {
			time.Sleep(2 * time.Millisecond)
			if n := shared.Len(); n == last {
				stable++
			} else {
				last, stable = n, 0
			}
		}
	}
	offer("A", true)
	offer("B", true)
	offer("A", true)
	settle(1000)
	shared.Add(vh.Ev{"e": "LnClose", "ln": "A"})
	lns["A"].Close()
	settle(500)
	offer("B", true) // B is still open: this one must be delivered, by B
	offer("B", true)
	settle(1000)
	shared.Add(vh.Ev{"e": "LnClose", "ln": "B"})
	lns["B"].Close()
	for _, name := range []string{"A", "B"} {
		select {
		case <-dones[name]:
		case <-time.After(3 * time.Second):
			shared.Add(vh.Ev{"e": "AccHang", "ln": name})
		}
	}
	cwg.Wait()
	leak := 0
	for i := 0; i < 500; i++ {
		leak = runtime.NumGoroutine() - base
		if leak <= 0 {
			break
		}
		time.Sleep(10 * time.Millisecond)
	}
	shared.Add(vh.Ev{"e": "Leak", "n": leak})
	hist := []vh.Ev{}
	for _, e := range shared.Snapshot() {
		switch e["e"] {
		case "Pull", "Sock", "Dl", "Handle", "HRead", "HPull", "Fallback", "Term":
			continue
		}
		hist = append(hist, e)
	}
	return &lnTrace{ID: fmt.Sprintf("listener:two:%d", idx), Scen: lnScen{Mix: []string{"fall", "fall", "fall", "fall", "fall"}, Consumer: "fast", Procs: runtime.GOMAXPROCS(0), Slen: 300, Close: "A-then-B"}, Complete: true, Hist: hist}, nil
}
