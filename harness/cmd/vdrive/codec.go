package main

import (
	"encoding/json"
	"flag"
	"fmt"
	"runtime"
	"sync"

	"github.com/mholt/caddy-l4/modules/l4openvpn"
	"github.com/mholt/caddy-l4/modules/l4rdp"
	"github.com/mholt/caddy-l4/modules/l4winbox"
	"github.com/mholt/caddy-l4/modules/l4wireguard"

	"verifharness/vh"
)

// C18: the exported wire-message codecs. A case (from L4CodecGrid) names a type, gives every field its value as
// bytes (most significant first for numbers) and a byte string to parse. The adapters below only move values
// between that representation and the repository's structs; layouts live in L4Codec.tla.

type codecCase struct {
	Type   string           `json:"type"`
	Fields map[string][]int `json:"fields"`
	Delta  int              `json:"delta"`
	Bytes  []int            `json:"bytes"`
	WF     bool             `json:"wf"`
}

type fieldMap map[string][]int

func toBytes(v []int) []byte {
	b := make([]byte, len(v))
	for i, x := range v {
		b[i] = byte(x)
	}
	return b
}
func toInts(b []byte) []int {
	v := make([]int, len(b))
	for i, x := range b {
		v[i] = int(x)
	}
	return v
}
func cnum(v []int) uint64 {
	var n uint64
	for _, x := range v {
		n = n<<8 | uint64(byte(x))
	}
	return n
}
func unum(n uint64, w int) []int {
	v := make([]int, w)
	for i := w - 1; i >= 0; i-- {
		v[i] = int(n & 0xff)
		n >>= 8
	}
	return v
}
func arr16(v []int) (a [16]uint8) { copy(a[:], toBytes(v)); return }

// a codec adapter: build a message from field values and serialise it; parse bytes and dump the fields
type codecAdapter struct {
	ser   func(f fieldMap) ([]byte, error)
	parse func(b []byte) (fieldMap, func() ([]byte, error), error)
}

func ovHeader(f fieldMap) l4openvpn.MessageHeader {
	return l4openvpn.MessageHeader{Opcode: uint8(f["OpKey"][0]), KeyID: uint8(f["OpKey"][1])}
}
func ovHeaderDump(h l4openvpn.MessageHeader) []int { return []int{int(h.Opcode), int(h.KeyID)} }

var codecs = map[string]codecAdapter{
	"rdp.TPKTHeader": {
		ser: func(f fieldMap) ([]byte, error) {
			m := &l4rdp.TPKTHeader{Version: byte(cnum(f["Version"])), Reserved: byte(cnum(f["Reserved"])), Length: uint16(cnum(f["Length"]))}
			return m.ToBytes()
		},
		parse: func(b []byte) (fieldMap, func() ([]byte, error), error) {
			m := &l4rdp.TPKTHeader{}
			err := m.FromBytes(b)
			return fieldMap{"Version": unum(uint64(m.Version), 1), "Reserved": unum(uint64(m.Reserved), 1), "Length": unum(uint64(m.Length), 2)}, m.ToBytes, err
		},
	},
	"rdp.X224Crq": {
		ser: func(f fieldMap) ([]byte, error) {
			m := &l4rdp.X224Crq{Length: uint8(cnum(f["Length"])), TypeCredit: uint8(cnum(f["TypeCredit"])), DstRef: uint16(cnum(f["DstRef"])), SrcRef: uint16(cnum(f["SrcRef"])), ClassOptions: uint8(cnum(f["ClassOptions"]))}
			return m.ToBytes()
		},
		parse: func(b []byte) (fieldMap, func() ([]byte, error), error) {
			m := &l4rdp.X224Crq{}
			err := m.FromBytes(b)
			return fieldMap{"Length": unum(uint64(m.Length), 1), "TypeCredit": unum(uint64(m.TypeCredit), 1), "DstRef": unum(uint64(m.DstRef), 2), "SrcRef": unum(uint64(m.SrcRef), 2), "ClassOptions": unum(uint64(m.ClassOptions), 1)}, m.ToBytes, err
		},
	},
	"rdp.RDPNegReq": {
		ser: func(f fieldMap) ([]byte, error) {
			m := &l4rdp.RDPNegReq{Type: uint8(cnum(f["Type"])), Flags: uint8(cnum(f["Flags"])), Length: uint16(cnum(f["Length"])), Protocols: uint32(cnum(f["Protocols"]))}
			return m.ToBytes()
		},
		parse: func(b []byte) (fieldMap, func() ([]byte, error), error) {
			m := &l4rdp.RDPNegReq{}
			err := m.FromBytes(b)
			return fieldMap{"Type": unum(uint64(m.Type), 1), "Flags": unum(uint64(m.Flags), 1), "Length": unum(uint64(m.Length), 2), "Protocols": unum(uint64(m.Protocols), 4)}, m.ToBytes, err
		},
	},
	"rdp.RDPCorrInfo": {
		ser: func(f fieldMap) ([]byte, error) {
			m := &l4rdp.RDPCorrInfo{Type: uint8(cnum(f["Type"])), Flags: uint8(cnum(f["Flags"])), Length: uint16(cnum(f["Length"])), Identity: arr16(f["Identity"]), Reserved: arr16(f["Reserved"])}
			return m.ToBytes()
		},
		parse: func(b []byte) (fieldMap, func() ([]byte, error), error) {
			m := &l4rdp.RDPCorrInfo{}
			err := m.FromBytes(b)
			return fieldMap{"Type": unum(uint64(m.Type), 1), "Flags": unum(uint64(m.Flags), 1), "Length": unum(uint64(m.Length), 2), "Identity": toInts(m.Identity[:]), "Reserved": toInts(m.Reserved[:])}, m.ToBytes, err
		},
	},
	"rdp.RDPToken": {
		ser: func(f fieldMap) ([]byte, error) {
			m := &l4rdp.RDPToken{Version: uint8(cnum(f["Version"])), Reserved: uint8(cnum(f["Reserved"])), Length: uint16(cnum(f["Length"])), LengthIndicator: uint8(cnum(f["LengthIndicator"])),
				TypeCredit: uint8(cnum(f["TypeCredit"])), DstRef: uint16(cnum(f["DstRef"])), SrcRef: uint16(cnum(f["SrcRef"])), ClassOptions: uint8(cnum(f["ClassOptions"])), Optional: toBytes(f["Optional"])}
			return m.ToBytes()
		},
		parse: func(b []byte) (fieldMap, func() ([]byte, error), error) {
			m := &l4rdp.RDPToken{}
			err := m.FromBytes(b)
			return fieldMap{"Version": unum(uint64(m.Version), 1), "Reserved": unum(uint64(m.Reserved), 1), "Length": unum(uint64(m.Length), 2), "LengthIndicator": unum(uint64(m.LengthIndicator), 1),
				"TypeCredit": unum(uint64(m.TypeCredit), 1), "DstRef": unum(uint64(m.DstRef), 2), "SrcRef": unum(uint64(m.SrcRef), 2), "ClassOptions": unum(uint64(m.ClassOptions), 1), "Optional": toInts(m.Optional)}, m.ToBytes, err
		},
	},
	"wireguard.MessageInitiation": {
		ser: func(f fieldMap) ([]byte, error) {
			m := &l4wireguard.MessageInitiation{Type: uint32(cnum(f["Type"])), Sender: uint32(cnum(f["Sender"]))}
			copy(m.Ephemeral[:], toBytes(f["Ephemeral"]))
			copy(m.Static[:], toBytes(f["Static"]))
			copy(m.Timestamp[:], toBytes(f["Timestamp"]))
			copy(m.MAC1[:], toBytes(f["MAC1"]))
			copy(m.MAC2[:], toBytes(f["MAC2"]))
			return m.ToBytes()
		},
		parse: func(b []byte) (fieldMap, func() ([]byte, error), error) {
			m := &l4wireguard.MessageInitiation{}
			err := m.FromBytes(b)
			return fieldMap{"Type": unum(uint64(m.Type), 4), "Sender": unum(uint64(m.Sender), 4), "Ephemeral": toInts(m.Ephemeral[:]), "Static": toInts(m.Static[:]),
				"Timestamp": toInts(m.Timestamp[:]), "MAC1": toInts(m.MAC1[:]), "MAC2": toInts(m.MAC2[:])}, m.ToBytes, err
		},
	},
	"wireguard.MessageTransport": {
		ser: func(f fieldMap) ([]byte, error) {
			m := &l4wireguard.MessageTransport{Type: uint32(cnum(f["Type"])), Receiver: uint32(cnum(f["Receiver"])), Counter: cnum(f["Counter"]), Content: toBytes(f["Content"])}
			return m.ToBytes()
		},
		parse: func(b []byte) (fieldMap, func() ([]byte, error), error) {
			m := &l4wireguard.MessageTransport{}
			err := m.FromBytes(b)
			return fieldMap{"Type": unum(uint64(m.Type), 4), "Receiver": unum(uint64(m.Receiver), 4), "Counter": unum(m.Counter, 8), "Content": toInts(m.Content)}, m.ToBytes, err
		},
	},
	"openvpn.MessageHeader": {
		ser: func(f fieldMap) ([]byte, error) { h := ovHeader(f); return h.ToBytes(), nil },
		parse: func(b []byte) (fieldMap, func() ([]byte, error), error) {
			m := &l4openvpn.MessageHeader{}
			err := m.FromBytes(b)
			return fieldMap{"OpKey": ovHeaderDump(*m)}, func() ([]byte, error) { return m.ToBytes(), nil }, err
		},
	},
	"openvpn.MessagePlain": {
		ser: func(f fieldMap) ([]byte, error) {
			m := &l4openvpn.MessagePlain{MessageHeader: ovHeader(f), LocalSessionID: cnum(f["LocalSessionID"]), PrevPacketIDsCount: uint8(cnum(f["PrevPacketIDsCount"])), ThisPacketID: uint32(cnum(f["ThisPacketID"]))}
			return m.ToBytes(), nil
		},
		parse: func(b []byte) (fieldMap, func() ([]byte, error), error) {
			m := &l4openvpn.MessagePlain{}
			err := m.FromBytes(b)
			return fieldMap{"OpKey": ovHeaderDump(m.MessageHeader), "LocalSessionID": unum(m.LocalSessionID, 8), "PrevPacketIDsCount": unum(uint64(m.PrevPacketIDsCount), 1), "ThisPacketID": unum(uint64(m.ThisPacketID), 4)},
				func() ([]byte, error) { return m.ToBytes(), nil }, err
		},
	},
	"openvpn.MessageAuth": {
		ser: func(f fieldMap) ([]byte, error) {
			m := &l4openvpn.MessageAuth{}
			m.MessageHeader, m.LocalSessionID = ovHeader(f), cnum(f["LocalSessionID"])
			m.PrevPacketIDsCount, m.ThisPacketID = uint8(cnum(f["PrevPacketIDsCount"])), uint32(cnum(f["ThisPacketID"]))
			m.HMAC = toBytes(f["HMAC"])
			m.ReplayPacketID, m.ReplayTimestamp = uint32(cnum(f["ReplayPacketID"])), uint32(cnum(f["ReplayTimestamp"]))
			return m.ToBytes(), nil
		},
		parse: func(b []byte) (fieldMap, func() ([]byte, error), error) {
			m := &l4openvpn.MessageAuth{}
			err := m.FromBytes(b)
			return fieldMap{"OpKey": ovHeaderDump(m.MessageHeader), "LocalSessionID": unum(m.LocalSessionID, 8), "HMAC": toInts(m.HMAC), "ReplayPacketID": unum(uint64(m.ReplayPacketID), 4),
					"ReplayTimestamp": unum(uint64(m.ReplayTimestamp), 4), "PrevPacketIDsCount": unum(uint64(m.PrevPacketIDsCount), 1), "ThisPacketID": unum(uint64(m.ThisPacketID), 4)},
				func() ([]byte, error) { return m.ToBytes(), nil }, err
		},
	},
	"openvpn.MessageCrypt": {
		ser: func(f fieldMap) ([]byte, error) {
			m := &l4openvpn.MessageCrypt{}
			m.MessageHeader, m.LocalSessionID = ovHeader(f), cnum(f["LocalSessionID"])
			m.MessageAuth.HMAC, m.Encrypted = toBytes(f["HMAC"]), toBytes(f["Encrypted"])
			m.ReplayPacketID, m.ReplayTimestamp = uint32(cnum(f["ReplayPacketID"])), uint32(cnum(f["ReplayTimestamp"]))
			return m.ToBytes(), nil
		},
		parse: func(b []byte) (fieldMap, func() ([]byte, error), error) {
			m := &l4openvpn.MessageCrypt{}
			err := m.FromBytes(b)
			return fieldMap{"OpKey": ovHeaderDump(m.MessageHeader), "LocalSessionID": unum(m.LocalSessionID, 8), "ReplayPacketID": unum(uint64(m.ReplayPacketID), 4),
					"ReplayTimestamp": unum(uint64(m.ReplayTimestamp), 4), "HMAC": toInts(m.MessageAuth.HMAC), "Encrypted": toInts(m.Encrypted)},
				func() ([]byte, error) { return m.ToBytes(), nil }, err
		},
	},
	"openvpn.WrappedKey": {
		ser: func(f fieldMap) ([]byte, error) {
			m := &l4openvpn.WrappedKey{}
			m.HMAC, m.Encrypted = toBytes(f["HMAC"]), toBytes(f["Encrypted"])
			return m.ToBytes(), nil
		},
		parse: func(b []byte) (fieldMap, func() ([]byte, error), error) {
			m := &l4openvpn.WrappedKey{}
			err := m.FromBytes(b)
			return fieldMap{"HMAC": toInts(m.HMAC), "Encrypted": toInts(m.Encrypted)}, func() ([]byte, error) { return m.ToBytes(), nil }, err
		},
	},
	"openvpn.MessageCrypt2": {
		ser: func(f fieldMap) ([]byte, error) {
			m := &l4openvpn.MessageCrypt2{}
			m.MessageHeader, m.LocalSessionID = ovHeader(f), cnum(f["LocalSessionID"])
			m.MessageCrypt.MessageAuth.HMAC, m.MessageCrypt.Encrypted = toBytes(f["HMAC"]), toBytes(f["Encrypted"])
			m.ReplayPacketID, m.ReplayTimestamp = uint32(cnum(f["ReplayPacketID"])), uint32(cnum(f["ReplayTimestamp"]))
			m.WrappedKey.HMAC, m.WrappedKey.Encrypted = toBytes(f["WKHMAC"]), toBytes(f["WKEncrypted"])
			return m.ToBytes(), nil
		},
		parse: func(b []byte) (fieldMap, func() ([]byte, error), error) {
			m := &l4openvpn.MessageCrypt2{}
			err := m.FromBytes(b)
			return fieldMap{"OpKey": ovHeaderDump(m.MessageHeader), "LocalSessionID": unum(m.LocalSessionID, 8), "ReplayPacketID": unum(uint64(m.ReplayPacketID), 4),
					"ReplayTimestamp": unum(uint64(m.ReplayTimestamp), 4), "HMAC": toInts(m.MessageCrypt.MessageAuth.HMAC), "Encrypted": toInts(m.MessageCrypt.Encrypted),
					"WKHMAC": toInts(m.WrappedKey.HMAC), "WKEncrypted": toInts(m.WrappedKey.Encrypted)},
				func() ([]byte, error) { return m.ToBytes(), nil }, err
		},
	},
	"winbox.MessageAuth": {
		ser: func(f fieldMap) ([]byte, error) {
			m := &l4winbox.MessageAuth{Username: string(toBytes(f["Username"])), PublicKeyBytes: toBytes(f["PublicKeyBytes"]), PublicKeyParity: uint8(cnum(f["PublicKeyParity"]))}
			return m.ToBytes(), nil
		},
		parse: func(b []byte) (fieldMap, func() ([]byte, error), error) {
			m := &l4winbox.MessageAuth{}
			err := m.FromBytes(b)
			return fieldMap{"Username": toInts([]byte(m.Username)), "PublicKeyBytes": toInts(m.PublicKeyBytes), "PublicKeyParity": unum(uint64(m.PublicKeyParity), 1)},
				func() ([]byte, error) { return m.ToBytes(), nil }, err
		},
	},
}

func nonNilInts(v []int) []int {
	if v == nil {
		return []int{}
	}
	return v
}

func runCodecCase(c *codecCase) (o map[string]any) {
	ad, ok := codecs[c.Type]
	if !ok {
		panic("no codec adapter for " + c.Type)
	}
	o = map[string]any{"built": false, "ser": []int{}, "ok2": false, "parsed2": map[string][]int{}, "ok": false, "parsed": map[string][]int{}, "reser": []int{}, "panic": ""}
	defer func() {
		if r := recover(); r != nil {
			o["panic"] = fmt.Sprint(r)
		}
	}()
	clean := func(f fieldMap) map[string][]int {
		out := map[string][]int{}
		for k, v := range f {
			out[k] = nonNilInts(v)
		}
		return out
	}
	// serialise the message, parse the result
	if ser, err := ad.ser(fieldMap(c.Fields)); err == nil {
		o["built"], o["ser"] = true, nonNilInts(toInts(ser))
		if p2, _, err := ad.parse(ser); err == nil {
			o["ok2"], o["parsed2"] = true, clean(p2)
		}
	}
	// parse the offered byte string, serialise the result
	p, reser, err := ad.parse(toBytes(c.Bytes))
	if err == nil {
		o["ok"], o["parsed"] = true, clean(p)
		if rs, err := reser(); err == nil {
			o["reser"] = nonNilInts(toInts(rs))
		} else {
			o["reser"] = []int{-1}
		}
	}
	return o
}

func init() {
	register("codec-run", "TLC-enumerated messages and byte strings through the real ToBytes / FromBytes of the wire-message types (C18)", func(args []string) error {
		fs := flag.NewFlagSet("codec-run", flag.ExitOnError)
		in := fs.String("in", "", "cases (NDJSON from L4CodecGrid)")
		out := fs.String("out", "", "observations (NDJSON for L4CodecTrace)")
		sum := fs.String("summary", "", "summary JSON")
		fs.Parse(args)
		lw, err := vh.NewLineWriter(*out)
		if err != nil {
			return err
		}
		var mu sync.Mutex
		byType := map[string]map[string]int{}
		var samples []any
		err = vh.ReadLines(*in, runtime.NumCPU(), func(i int, line []byte) {
			var c codecCase
			if err := json.Unmarshal(line, &c); err != nil {
				panic(err)
			}
			o := runCodecCase(&c)
			mu.Lock()
			defer mu.Unlock()
			st := byType[c.Type]
			if st == nil {
				st = map[string]int{}
				byType[c.Type] = st
			}
			st["cases"]++
			if o["ok"].(bool) {
				st["accepted"]++
			}
			if o["ok2"].(bool) {
				st["roundtrips"]++
			}
			if o["built"].(bool) && c.Delta == 0 && fmt.Sprint(o["ser"]) == fmt.Sprint(c.Bytes) {
				st["layout_agrees"]++
			}
			if c.Delta == 0 {
				st["delta0"]++
			}
			t := map[string]any{"id": fmt.Sprintf("codec:%d", i), "c": c, "o": o}
			lw.Write(t)
			if len(samples) < 3 && len(c.Bytes) < 20 && i%37 == 3 {
				samples = append(samples, t)
			}
		})
		if err != nil {
			return err
		}
		if err := lw.Close(); err != nil {
			return err
		}
		return writeJSON(*sum, map[string]any{"cases": lw.N, "by_type": byType, "samples": samples})
	})
}
