package main

import (
	"context"
	"encoding/json"
	"flag"
	"fmt"
	"net"
	"strings"
	"sync"
	"syscall"
	"time"

	"github.com/caddyserver/caddy/v2"
	"github.com/mholt/caddy-l4/layer4"
	"github.com/mholt/caddy-l4/modules/l4proxy"
	"go.uber.org/zap"

	"verifharness/vh"
)

type healthScen struct {
	Kind     string `json:"kind"`
	F        int    `json:"F"`
	M        int    `json:"M"`
	Script   int    `json:"script"`
	D        int    `json:"D"`
	I        int    `json:"I"`
	Passive  bool   `json:"passive"`
	Ups      int    `json:"ups"`
	Max      int    `json:"max"`
	Via      string `json:"via"`
	Interval int    `json:"interval"`
	Policy   string `json:"policy"`
	HPort    bool   `json:"hport"`  // active checks go to a separate health port
	Form     string `json:"form"`   // kind "fresh": how the dial address is written ("plain" host:port, "net" tcp/host:port)
	DefInt   bool   `json:"defint"` // no interval configured (documented default 30 s): only the check made at once is observed
}

// refusedPort reserves a TCP port that refuses connections: bound, never listening.
type refusedPort struct {
	fd   int
	Port int
}

func newRefusedPort() (*refusedPort, error) {
	fd, err := syscall.Socket(syscall.AF_INET, syscall.SOCK_STREAM, 0)
	if err != nil {
		return nil, err
	}
	syscall.SetsockoptInt(fd, syscall.SOL_SOCKET, syscall.SO_REUSEADDR, 1)
	if err := syscall.Bind(fd, &syscall.SockaddrInet4{Port: 0, Addr: [4]byte{127, 0, 0, 1}}); err != nil {
		syscall.Close(fd)
		return nil, err
	}
	sa, err := syscall.Getsockname(fd)
	if err != nil {
		syscall.Close(fd)
		return nil, err
	}
	return &refusedPort{fd: fd, Port: sa.(*syscall.SockaddrInet4).Port}, nil
}
func (r *refusedPort) Addr() string { return fmt.Sprintf("127.0.0.1:%d", r.Port) }

// Up makes the reserved port accept (and immediately close) connections from now on.
func (r *refusedPort) Up() error {
	if err := syscall.Listen(r.fd, 64); err != nil {
		return err
	}
	fd := r.fd
	go func() {
		for {
			nfd, _, err := syscall.Accept(fd)
			if err != nil {
				return
			}
			syscall.Close(nfd)
		}
	}()
	return nil
}
func (r *refusedPort) Close() {
	if r.fd >= 0 {
		syscall.Close(r.fd)
		r.fd = -1
	}
}

// ---- hook routing: events of concurrently running scenarios are told apart by handler / peer ----
var (
	healthMu     sync.Mutex
	healthByH    = map[*l4proxy.Handler]*vh.Recorder{}
	healthByPeer = map[string]*vh.Recorder{}
)

func healthHook(point string, obj any, ok bool) {
	healthMu.Lock()
	var rec *vh.Recorder
	if h := l4proxy.VerifHandlerOf(obj); h != nil {
		rec = healthByH[h]
	} else if a := l4proxy.VerifPeerAddr(obj); a != "" {
		rec = healthByPeer[a]
	}
	healthMu.Unlock()
	if rec == nil {
		return
	}
	switch point {
	case "proxy.select":
		if !ok {
			rec.Add(vh.Ev{"e": "None"})
		}
	case "proxy.dial":
		rec.Add(vh.Ev{"e": "Dial", "ok": ok, "peer": l4proxy.VerifPeerAddr(obj)})
		if !ok {
			rec.Add(vh.Ev{"e": "DialFail", "peer": l4proxy.VerifPeerAddr(obj)})
		}
	case "proxy.fail.count":
		rec.Add(vh.Ev{"e": "Fail", "peer": l4proxy.VerifPeerAddr(obj)})
	case "proxy.fail.forget":
		rec.AddAux(vh.Ev{"e": "Forget", "peer": l4proxy.VerifPeerAddr(obj)})
	}
}

func provisionProxy(cfg map[string]any) (*l4proxy.Handler, context.CancelFunc, error) {
	ctx, cancel := caddy.NewContext(caddy.Context{Context: context.Background()})
	h := new(l4proxy.Handler)
	b, _ := json.Marshal(cfg)
	if err := json.Unmarshal(b, h); err != nil {
		cancel()
		return nil, nil, err
	}
	if err := h.Provision(ctx); err != nil {
		cancel()
		return nil, nil, err
	}
	return h, func() { h.Cleanup(); cancel() }, nil
}

func dummyConn(i int) *layer4.Connection {
	sc := &vh.ScriptConn{Rec: vh.NewRecorder(nil), EndKind: "eof", Remote: &net.TCPAddr{IP: net.IPv4(10, 2, 0, byte(i)), Port: 1000 + i}}
	return layer4.WrapConnection(sc, nil, zap.NewNop())
}

func ms(d int) time.Duration { return time.Duration(d) * time.Millisecond }

var windowScripts = map[int][]any{
	1: {"f", "s", 100, "f", "s", 120, "s", 150, "s", 200, "s", 400, "s"},
	2: {"f", "f", "f", "s", 150, "s", 220, "s", 100, "s"},
	3: {"f", 200, "f", "s", 160, "s", 200, "s", 150, "s"},
	4: {"f", "s", 420, "s", "f", "f", "s", 100, "s", 300, "s"},
	// F<n>: n connections at once, all selecting the upstream before any of their dials has failed
	5: {"F3", "s", 150, "s", 200, "s", 100, "s"},
	6: {"f", "F3", "s", 200, "s", 160, "s"},
	// with active checks as well (interval 40 ms): the peer refuses, a dial failure is counted, the active check
	// sees it down; "u": the peer comes up and the active check sees that INSIDE the failure window; the failure
	// must stay remembered until fail_duration has passed, and the counter must not go below zero afterwards
	7: {"f", 120, "u", 160, "s", 100, "s", 450, "s", 100, "s"},
}

func runHealth(sc healthScen, idx int) (map[string]any, error) {
	rec := vh.NewRecorder(nil)
	rec.T0 = time.Now()
	out := map[string]any{"id": fmt.Sprintf("health:%s:%d", sc.Kind, idx), "kind": sc.Kind, "scen": sc}
	reg := func(h *l4proxy.Handler, addrs ...string) func() {
		healthMu.Lock()
		healthByH[h] = rec
		for _, a := range addrs {
			healthByPeer[a] = rec
		}
		healthMu.Unlock()
		return func() {
			healthMu.Lock()
			delete(healthByH, h)
			for _, a := range addrs {
				delete(healthByPeer, a)
			}
			healthMu.Unlock()
		}
	}
	switch sc.Kind {
	case "window":
		rp, err := newRefusedPort()
		if err != nil {
			return nil, err
		}
		defer rp.Close()
		passive := map[string]any{"fail_duration": int64(ms(sc.F))}
		effM := sc.M
		if sc.M > 0 {
			passive["max_fails"] = sc.M
		} else {
			effM = 1 // max_fails left out: the documented default
		}
		hc := map[string]any{"passive": passive}
		if sc.Script == 7 {
			hc["active"] = map[string]any{"interval": int64(ms(40)), "timeout": int64(ms(300))}
		}
		h, done, err := provisionProxy(map[string]any{
			"upstreams":     []map[string]any{{"dial": []string{rp.Addr()}}},
			"health_checks": hc,
		})
		if err != nil {
			return nil, err
		}
		defer done()
		defer reg(h, rp.Addr())()
		n := 0
		for _, step := range windowScripts[sc.Script] {
			switch v := step.(type) {
			case string:
				if v == "f" {
					n++
					h.Handle(dummyConn(n), nil)
				} else if v == "u" {
					if err := rp.Up(); err != nil {
						return nil, err
					}
				} else if v[0] == 'F' {
					var wg sync.WaitGroup
					start := make(chan struct{})
					for k := 0; k < int(v[1]-'0'); k++ {
						n++
						wg.Add(1)
						go func(n int) {
							defer wg.Done()
							cx := dummyConn(n)
							<-start
							h.Handle(cx, nil)
						}(n)
					}
					close(start)
					wg.Wait()
				} else {
					f, _, _ := l4proxy.VerifHandlerCounters(h)
					av := l4proxy.VerifUpstreamsAvailable(h)
					rec.Add(vh.Ev{"e": "Sample", "fails": []int{f[0][0]}, "avail": av})
				}
			case int:
				time.Sleep(ms(v))
			}
		}
		ev := []vh.Ev{}
		for _, e := range rec.Snapshot() {
			switch e["e"] {
			case "DialFail":
				// ground truth: a dial attempt failed (whether or not the handler counted it)
				ev = append(ev, vh.Ev{"e": "Fail", "p": 1, "t": e["t"]})
			case "Sample":
				ev = append(ev, e)
			}
		}
		out["F"], out["M"], out["tol"], out["ev"] = sc.F, effM, 45, ev
		// let the last forgetters finish before the handler goes away
		return out, nil

	case "retry":
		var addrs []string
		var ups []map[string]any
		for u := 0; u < sc.Ups; u++ {
			rp, err := newRefusedPort()
			if err != nil {
				return nil, err
			}
			defer rp.Close()
			addrs = append(addrs, rp.Addr())
			ups = append(ups, map[string]any{"dial": []string{rp.Addr()}})
		}
		cfg := map[string]any{"upstreams": ups,
			"load_balancing": map[string]any{"try_duration": int64(ms(sc.D)), "try_interval": int64(ms(sc.I)), "selection": map[string]any{"policy": "first"}}}
		if sc.Passive {
			cfg["health_checks"] = map[string]any{"passive": map[string]any{"fail_duration": int64(ms(5000)), "max_fails": 2}}
		}
		h, done, err := provisionProxy(cfg)
		if err != nil {
			return nil, err
		}
		defer done()
		defer reg(h, addrs...)()
		rec.T0 = time.Now()
		herr := h.Handle(dummyConn(1), nil)
		errs := ""
		if herr != nil {
			errs = "other:" + herr.Error()
			if strings.Contains(herr.Error(), "refused") {
				errs = "refused"
			} else if strings.Contains(herr.Error(), "no upstreams available") {
				errs = "none"
			}
		}
		rec.Add(vh.Ev{"e": "Ret", "err": errs})
		ev := []vh.Ev{}
		for _, e := range rec.Snapshot() {
			switch e["e"] {
			case "Dial", "None", "Ret":
				ev = append(ev, e)
			}
		}
		slack := sc.I/2 + 60
		out["D"], out["I"], out["eps"], out["slack"], out["ev"] = sc.D, sc.I, 2, slack, ev
		return out, nil

	case "limit":
		if sc.Via == "partial_dial" {
			return runPartialDial(sc, idx, rec, out)
		}
		type upL struct {
			ln   net.Listener
			addr string
		}
		var ups []upL
		var upcfg []map[string]any
		rec.Stream = nil
		for u := 0; u < sc.Ups; u++ {
			ln, err := net.Listen("tcp", "127.0.0.1:0")
			if err != nil {
				return nil, err
			}
			defer ln.Close()
			ups = append(ups, upL{ln, ln.Addr().String()})
			uc := map[string]any{"dial": []string{ln.Addr().String()}}
			if sc.Via == "max_connections" {
				uc["max_connections"] = sc.Max
			}
			upcfg = append(upcfg, uc)
			go func(u int, ln net.Listener) {
				for {
					c, err := ln.Accept()
					if err != nil {
						return
					}
					// the first bytes identify the proxied connection
					go func(c net.Conn) {
						buf := make([]byte, 4)
						c.SetReadDeadline(time.Now().Add(3 * time.Second))
						if _, err := c.Read(buf); err == nil {
							rec.Add(vh.Ev{"e": "Open", "c": int(buf[0]), "u": u + 1})
						}
						c.SetReadDeadline(time.Time{})
						b := make([]byte, 64)
						for {
							if _, err := c.Read(b); err != nil {
								c.Close()
								return
							}
						}
					}(c)
				}
			}(u, ln)
		}
		pol := sc.Policy
		if pol == "" {
			pol = "first"
		}
		cfg := map[string]any{"upstreams": upcfg, "load_balancing": map[string]any{"selection": map[string]any{"policy": pol}}}
		settle := 40
		if sc.Via == "deadfirst" {
			// an upstream that refuses every dial is listed BEFORE the serving one (which has max_connections): the first
			// connection's dial to it fails and is remembered (max_fails 1), every connection is retried every 40 ms for
			// 300 ms - "refused only when every upstream is at its limit" (L2) then speaks about the serving upstream
			rp, err := newRefusedPort()
			if err != nil {
				return nil, err
			}
			defer rp.Close()
			for _, uc := range upcfg {
				uc["max_connections"] = sc.Max
			}
			cfg["upstreams"] = append([]map[string]any{{"dial": []string{rp.Addr()}}}, upcfg...)
			cfg["load_balancing"] = map[string]any{"selection": map[string]any{"policy": pol}, "try_duration": int64(ms(300)), "try_interval": int64(ms(40))}
			cfg["health_checks"] = map[string]any{"passive": map[string]any{"max_fails": 1, "fail_duration": int64(ms(20000))}}
			settle = 420 // nobody opens or closes while a connection is still being retried
		}
		if sc.Via == "unhealthy_connection_count" {
			cfg["health_checks"] = map[string]any{"passive": map[string]any{"unhealthy_connection_count": sc.Max}}
		}
		h, done, err := provisionProxy(cfg)
		if err != nil {
			return nil, err
		}
		defer done()
		// clients: open connections one after another, hold them, close some, open again
		type cl struct {
			c    net.Conn
			done chan struct{}
		}
		clients := map[int]*cl{}
		open := func(id int) {
			a, b := net.Pipe()
			cx := layer4.WrapConnection(b, nil, zap.NewNop())
			k := &cl{c: a, done: make(chan struct{})}
			clients[id] = k
			go func() {
				defer close(k.done)
				if err := h.Handle(cx, nil); err != nil {
					rec.Add(vh.Ev{"e": "Refused", "c": id})
				} else {
					rec.Add(vh.Ev{"e": "End", "c": id})
				}
				b.Close()
			}()
			go a.Write([]byte{byte(id), 0, 0, 0})
			time.Sleep(ms(settle))
		}
		closeC := func(id int) {
			clients[id].c.Close()
			select {
			case <-clients[id].done:
			case <-time.After(2 * time.Second):
			}
			time.Sleep(ms(20))
		}
		total := sc.Max*sc.Ups + 1
		for id := 1; id <= total; id++ {
			open(id)
		}
		closeC(1)
		open(total + 1)
		closeC(2)
		if total >= 3 {
			closeC(3)
		}
		open(total + 2)
		open(total + 3)
		for id, k := range clients {
			_ = id
			k.c.Close()
		}
		for _, k := range clients {
			select {
			case <-k.done:
			case <-time.After(2 * time.Second):
			}
		}
		time.Sleep(ms(10))
		{
			_, c, _ := l4proxy.VerifHandlerCounters(h)
			if sc.Via == "deadfirst" {
				c = c[1:] // the refusing upstream never had a connection to count
			}
			rec.Add(vh.Ev{"e": "CSample", "conns": c})
		}
		ev := []vh.Ev{}
		for _, e := range rec.Snapshot() {
			switch e["e"] {
			case "Open", "Refused", "End", "CSample":
				ev = append(ev, e)
			}
		}
		out["max"], out["nups"], out["tol"], out["ev"] = sc.Max, sc.Ups, 0, ev
		return out, nil

	case "fresh":
		// a handler WITH active checks marks a refusing peer down and is unloaded (nobody uses the peer any more); the
		// backend starts accepting; a handler WITHOUT health checks is loaded for the same dial address: it starts with a
		// peer that has no remembered failure, no connection and no verdict against it - and serves
		rp, err := newRefusedPort()
		if err != nil {
			return nil, err
		}
		defer rp.Close()
		dial := rp.Addr()
		if sc.Form == "net" {
			dial = "tcp/" + dial
		}
		h1, done1, err := provisionProxy(map[string]any{
			"upstreams":     []map[string]any{{"dial": []string{dial}}},
			"health_checks": map[string]any{"active": map[string]any{"interval": int64(ms(40)), "timeout": int64(ms(200))}},
		})
		if err != nil {
			return nil, err
		}
		// several check intervals; on a busy machine up to two seconds for the checker to have run
		time.Sleep(ms(250))
		_, _, uh := l4proxy.VerifHandlerCounters(h1)
		for w := 0; w < 35 && !uh[0][0]; w++ {
			time.Sleep(ms(50))
			_, _, uh = l4proxy.VerifHandlerCounters(h1)
		}
		rec.Add(vh.Ev{"e": "Marked", "unhealthy": uh[0][0]})
		done1()
		time.Sleep(ms(100)) // a check that was under way has ended
		if err := rp.Up(); err != nil {
			return nil, err
		}
		h2, done2, err := provisionProxy(map[string]any{"upstreams": []map[string]any{{"dial": []string{dial}}}})
		if err != nil {
			return nil, err
		}
		defer done2()
		f2, c2, u2 := l4proxy.VerifHandlerCounters(h2)
		herr := h2.Handle(dummyConn(1), nil)
		errs := ""
		if herr != nil {
			errs = herr.Error()
		}
		rec.Add(vh.Ev{"e": "Fresh", "unhealthy": u2[0][0], "fails": f2[0][0], "conns": c2[0][0], "served": herr == nil, "err": errs})
		ev := []vh.Ev{}
		for _, e := range rec.Snapshot() {
			switch e["e"] {
			case "Marked", "Fresh":
				ev = append(ev, e)
			}
		}
		out["ev"] = ev
		return out, nil

	case "active":
		rp, err := newRefusedPort()
		if err != nil {
			return nil, err
		}
		addr := rp.Addr()
		dial := addr
		active := map[string]any{"interval": int64(ms(sc.Interval)), "timeout": int64(ms(200))}
		if sc.DefInt {
			delete(active, "interval")
		}
		if sc.HPort {
			// the service port always accepts; health is what the separate health port says
			svc, err := net.Listen("tcp", "127.0.0.1:0")
			if err != nil {
				rp.Close()
				return nil, err
			}
			defer svc.Close()
			go func() {
				for {
					c, err := svc.Accept()
					if err != nil {
						return
					}
					c.Close()
				}
			}()
			dial = svc.Addr().String()
			active["port"] = rp.Port
		}
		h, done, err := provisionProxy(map[string]any{
			"upstreams":     []map[string]any{{"dial": []string{dial}}},
			"health_checks": map[string]any{"active": active},
		})
		if err != nil {
			rp.Close()
			return nil, err
		}
		defer done()
		bound := 2*sc.Interval + 120
		sample := func() {
			_, _, uh := l4proxy.VerifHandlerCounters(h)
			rec.Add(vh.Ev{"e": "Sample", "unhealthy": uh[0][0]})
		}
		rec.Add(vh.Ev{"e": "Down"})
		time.Sleep(ms(bound + 30))
		sample()
		if sc.DefInt {
			// the next check is 30 s away: the run ends with what the check made at once has found
			rp.Close()
			ev := []vh.Ev{}
			for _, e := range rec.Snapshot() {
				ev = append(ev, e)
			}
			out["bound"], out["ev"] = bound, ev
			return out, nil
		}
		// the peer starts accepting
		rp.Close()
		ln, err := net.Listen("tcp", addr)
		if err != nil {
			return nil, err
		}
		go func() {
			for {
				c, err := ln.Accept()
				if err != nil {
					return
				}
				c.Close()
			}
		}()
		rec.Add(vh.Ev{"e": "Up"})
		time.Sleep(ms(bound + 30))
		sample()
		ln.Close()
		rec.Add(vh.Ev{"e": "Down"})
		time.Sleep(ms(bound + 30))
		sample()
		ev := []vh.Ev{}
		for _, e := range rec.Snapshot() {
			ev = append(ev, e)
		}
		out["bound"], out["ev"] = bound, ev
		return out, nil
	}
	return nil, fmt.Errorf("unknown kind %q", sc.Kind)
}

// runPartialDial: one upstream with two dial addresses; the first accepts, the second refuses,
// so the dial of the upstream fails half-way. Afterwards nothing may stay counted.
func runPartialDial(sc healthScen, idx int, rec *vh.Recorder, out map[string]any) (map[string]any, error) {
	lnA, err := net.Listen("tcp", "127.0.0.1:0")
	if err != nil {
		return nil, err
	}
	defer lnA.Close()
	accept := func(ln net.Listener, u int) {
		for {
			c, err := ln.Accept()
			if err != nil {
				return
			}
			go func(c net.Conn) {
				buf := make([]byte, 4)
				c.SetReadDeadline(time.Now().Add(2 * time.Second))
				if _, err := c.Read(buf); err == nil && u == 1 {
					rec.Add(vh.Ev{"e": "Open", "c": int(buf[0]), "u": 1})
				}
				c.SetReadDeadline(time.Time{})
				b := make([]byte, 64)
				for {
					if _, err := c.Read(b); err != nil {
						c.Close()
						return
					}
				}
			}(c)
		}
	}
	go accept(lnA, 1)
	rp, err := newRefusedPort()
	if err != nil {
		return nil, err
	}
	addrB := rp.Addr()
	h, done, err := provisionProxy(map[string]any{
		"upstreams":      []map[string]any{{"dial": []string{lnA.Addr().String(), addrB}, "max_connections": sc.Max}},
		"load_balancing": map[string]any{"selection": map[string]any{"policy": "first"}}})
	if err != nil {
		rp.Close()
		return nil, err
	}
	defer done()
	sample := func() {
		_, c, _ := l4proxy.VerifHandlerCounters(h)
		rec.Add(vh.Ev{"e": "CSample", "conns": c})
	}
	try := func(id int, hold time.Duration) {
		a, b := net.Pipe()
		cx := layer4.WrapConnection(b, nil, zap.NewNop())
		d := make(chan struct{})
		go func() {
			defer close(d)
			if err := h.Handle(cx, nil); err != nil {
				rec.Add(vh.Ev{"e": "Refused", "c": id})
			} else {
				rec.Add(vh.Ev{"e": "End", "c": id})
			}
			b.Close()
		}()
		go a.Write([]byte{byte(id), 0, 0, 0})
		time.Sleep(hold)
		a.Close()
		select {
		case <-d:
		case <-time.After(2 * time.Second):
		}
	}
	for id := 1; id <= sc.Max; id++ {
		try(id, ms(20))
	}
	sample()
	// the second address starts accepting: the upstream must be usable again
	rp.Close()
	lnB, err := net.Listen("tcp", addrB)
	if err != nil {
		return nil, err
	}
	defer lnB.Close()
	go accept(lnB, 2)
	try(sc.Max+1, ms(60))
	time.Sleep(ms(20))
	sample()
	ev := []vh.Ev{}
	for _, e := range rec.Snapshot() {
		switch e["e"] {
		case "Open", "Refused", "End", "CSample":
			ev = append(ev, e)
		}
	}
	// the partial dials are refusals that the limit does not explain: L2 judges the last connection only
	var kept []vh.Ev
	for _, e := range ev {
		if e["e"] == "Refused" && e["c"].(int) <= sc.Max {
			continue
		}
		kept = append(kept, e)
	}
	out["max"], out["nups"], out["tol"], out["ev"] = sc.Max, 1, 0, kept
	return out, nil
}

func init() {
	register("health-run", "failure windows, retries, connection limits, active checks of the real proxy handler (C11)", func(args []string) error {
		fs := flag.NewFlagSet("health-run", flag.ExitOnError)
		in := fs.String("in", "", "scenario grid (NDJSON from L4HealthGrid)")
		out := fs.String("out", "", "traces (NDJSON for L4HealthTrace)")
		sum := fs.String("summary", "", "summary JSON")
		fs.Parse(args)
		var scens []healthScen
		if err := vh.ReadLines(*in, 1, func(i int, line []byte) {
			var s healthScen
			if err := json.Unmarshal(line, &s); err != nil {
				panic(err)
			}
			scens = append(scens, s)
		}); err != nil {
			return err
		}
		l4proxy.SetVerifHook(healthHook)
		lw, err := vh.NewLineWriter(*out)
		if err != nil {
			return err
		}
		var maxOver time.Duration
		wstop := make(chan struct{})
		go func() {
			for {
				select {
				case <-wstop:
					return
				default:
				}
				t := time.Now()
				time.Sleep(5 * time.Millisecond)
				if o := time.Since(t) - 5*time.Millisecond; o > maxOver {
					maxOver = o
				}
			}
		}()
		var wg sync.WaitGroup
		var mu sync.Mutex
		var errs []string
		samples := map[string]any{}
		sem := make(chan struct{}, 32)
		for i, s := range scens {
			wg.Add(1)
			sem <- struct{}{}
			go func(i int, s healthScen) {
				defer wg.Done()
				defer func() { <-sem }()
				tr, err := runHealth(s, i)
				mu.Lock()
				defer mu.Unlock()
				if err != nil {
					errs = append(errs, err.Error())
					return
				}
				lw.Write(tr)
				if _, ok := samples[s.Kind]; !ok {
					samples[s.Kind] = tr
				}
			}(i, s)
		}
		wg.Wait()
		close(wstop)
		if err := lw.Close(); err != nil {
			return err
		}
		var sl []any
		for _, v := range samples {
			sl = append(sl, v)
		}
		return writeJSON(*sum, map[string]any{"runs": len(scens), "errors": errs, "max_sleep_overshoot_ms": int(maxOver / time.Millisecond), "samples": sl})
	})
}
