package main

import (
	"encoding/json"
	"flag"
	"fmt"
	"net"
	"runtime"
	"strings"
	"time"

	"github.com/caddyserver/caddy/v2"
	"github.com/mholt/caddy-l4/layer4"
	_ "github.com/mholt/caddy-l4/modules/l4echo"

	"verifharness/vh"
)

// app-run: the lifecycle of the real layer4.App (spec L4App / L4AppTrace; beyond the listed properties).
// N loopback addresses (TCP and UDP alternating), optionally one that cannot be bound (an address that is not
// local); Start, probe which addresses are served, Stop (only when Start succeeded - that is what Caddy does),
// probe again.

func freeTCPPort() int {
	ln, err := net.Listen("tcp", "127.0.0.1:0")
	if err != nil {
		return 0
	}
	defer ln.Close()
	return ln.Addr().(*net.TCPAddr).Port
}

// served: does something answer on the address? TCP: a connection is accepted and echoes; UDP: a datagram is echoed.
func served(network string, port int) bool {
	addr := fmt.Sprintf("127.0.0.1:%d", port)
	c, err := net.DialTimeout(network, addr, 300*time.Millisecond)
	if err != nil {
		return false
	}
	defer c.Close()
	c.SetDeadline(time.Now().Add(300 * time.Millisecond))
	if _, err := c.Write([]byte("ping")); err != nil {
		return false
	}
	buf := make([]byte, 8)
	n, err := c.Read(buf)
	return err == nil && string(buf[:n]) == "ping"
}

func serveLoops() int {
	buf := make([]byte, 1<<20)
	n := runtime.Stack(buf, true)
	s := string(buf[:n])
	return strings.Count(s, "layer4.(*Server).serve(") + strings.Count(s, "layer4.(*Server).servePacket(")
}

func runApp(n, failAt, idx int) (map[string]any, error) {
	base, err := vh.CaddyContext()
	if err != nil {
		return nil, err
	}
	ctx, cancel := caddy.NewContext(base)
	defer cancel()
	type ad struct {
		network string
		port    int
	}
	var addrs []ad
	var listen []string
	for i := 1; i <= n; i++ {
		network := []string{"tcp", "udp"}[i%2]
		p := freeTCPPort()
		addrs = append(addrs, ad{network, p})
		if i == failAt {
			// not an address of this host: bind fails with "cannot assign requested address"
			listen = append(listen, fmt.Sprintf("%s/203.0.113.77:%d", network, p))
		} else {
			listen = append(listen, fmt.Sprintf("%s/127.0.0.1:%d", network, p))
		}
	}
	cfg, _ := json.Marshal(map[string]any{"servers": map[string]any{"s": map[string]any{"listen": listen,
		"routes": []map[string]any{{"handle": []map[string]any{{"handler": "echo"}}}}}}})
	app := new(layer4.App)
	if err := json.Unmarshal(cfg, app); err != nil {
		return nil, err
	}
	if err := app.Provision(ctx); err != nil {
		return nil, fmt.Errorf("provision: %v", err)
	}
	loops0 := serveLoops()
	startErr := app.Start()
	time.Sleep(30 * time.Millisecond)
	probe := func() []bool {
		out := make([]bool, n)
		for i, a := range addrs {
			if i+1 == failAt {
				continue
			}
			out[i] = served(a.network, a.port)
		}
		return out
	}
	afterStart := probe()
	afterStop := []bool{}
	if startErr == nil {
		if err := app.Stop(); err != nil {
			return nil, fmt.Errorf("stop: %v", err)
		}
		time.Sleep(50 * time.Millisecond)
		afterStop = probe()
	}
	left := 0
	for k := 0; k < 100; k++ {
		if left = serveLoops() - loops0; left <= 0 || startErr != nil {
			break
		}
		time.Sleep(10 * time.Millisecond)
	}
	errText := ""
	if startErr != nil {
		errText = startErr.Error()
	}
	return map[string]any{"id": fmt.Sprintf("app:%d:n%d:fail%d", idx, n, failAt), "kind": "life", "n": n, "failAt": failAt, "startErr": startErr != nil, "startErrText": errText,
		"afterStart": afterStart, "afterStop": afterStop, "loopsLeft": left}, nil
}

func init() {
	register("app-run", "Start / Stop of the real layer4 app over loopback addresses, with an address that cannot be bound (L4App; beyond the listed properties)", func(args []string) error {
		fs := flag.NewFlagSet("app-run", flag.ExitOnError)
		out := fs.String("out", "", "observations (NDJSON for L4AppTrace)")
		fs.Parse(args)
		lw, err := vh.NewLineWriter(*out)
		if err != nil {
			return err
		}
		idx := 0
		for n := 1; n <= 3; n++ {
			for failAt := 0; failAt <= n; failAt++ {
				tr, err := runApp(n, failAt, idx)
				if err != nil {
					return err
				}
				lw.Write(tr)
				idx++
			}
		}
		for _, kind := range []string{"timeout", "transient", "closed"} {
			for _, run := range []func(string, int) (map[string]any, error){runAcceptTCP, runAcceptUDP} {
				tr, err := run(kind, idx)
				if err != nil {
					return err
				}
				lw.Write(tr)
				idx++
			}
		}
		return lw.Close()
	})
}
