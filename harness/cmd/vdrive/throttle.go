package main

import (
	"context"
	"encoding/json"
	"flag"
	"fmt"
	"net"
	"sync"
	"time"

	"github.com/caddyserver/caddy/v2"
	"github.com/mholt/caddy-l4/layer4"
	"github.com/mholt/caddy-l4/modules/l4throttle"
	"go.uber.org/zap"

	"verifharness/vh"
)

type thrScen struct {
	Rate    int `json:"rate"`
	Burst   int `json:"burst"`
	Total   int `json:"total"`
	Latency int `json:"latency"`
	Buf     int `json:"buf"`
	Conns   int `json:"conns"`
}

func runThrottle(sc thrScen, idx int) (map[string]any, error) {
	cfg := map[string]any{}
	trate, tburst := 0, 0
	if sc.Rate > 0 {
		cfg["read_bytes_per_second"] = sc.Rate
		cfg["read_burst_size"] = sc.Burst
	}
	switch sc.Total {
	case 1:
		trate, tburst = sc.Rate, sc.Burst
	case 2:
		trate, tburst = 20000, 2000
	}
	if trate > 0 {
		cfg["total_read_bytes_per_second"] = trate
		cfg["total_read_burst_size"] = tburst
	}
	if sc.Latency > 0 {
		cfg["latency"] = int64(ms(sc.Latency))
	}
	ctx, cancel := caddy.NewContext(caddy.Context{Context: context.Background()})
	defer cancel()
	h := new(l4throttle.Handler)
	b, _ := json.Marshal(cfg)
	if err := json.Unmarshal(b, h); err != nil {
		return nil, err
	}
	if err := h.Provision(ctx); err != nil {
		return nil, err
	}
	// stream size: what the tightest limit lets through in about 1.2 s
	rate, burst := sc.Rate, sc.Burst
	if rate == 0 || (trate > 0 && trate/sc.Conns < rate) {
		rate, burst = trate/sc.Conns, tburst
	}
	slen := burst + rate*12/10
	if rate == 0 {
		slen = 3000 // no limit configured (latency only)
	}
	if slen > 60000 {
		slen = 60000
	}
	if sc.Buf == 1 && slen > 2500 {
		slen = 2500
	}
	shared := vh.NewRecorder(nil)
	shared.T0 = time.Now()
	type one struct {
		rec  *vh.Recorder
		segs vh.Segs
	}
	conns := make([]*one, sc.Conns)
	var wg sync.WaitGroup
	for c := 0; c < sc.Conns; c++ {
		rec := vh.NewRecorder(vh.MakeStream(int64(idx*16+c), slen+8))
		rec.ID, rec.Sink, rec.T0 = fmt.Sprintf("%d", c+1), shared, shared.T0
		o := &one{rec: rec}
		conns[c] = o
		scn := &vh.ScriptConn{Rec: rec, Slen: slen, EndKind: "eof", Start: time.Now(), Unit: time.Hour,
			Remote: &net.TCPAddr{IP: net.IPv4(10, 3, byte(idx%250), byte(c+1)), Port: 30000 + c}}
		cx := layer4.WrapConnection(scn, nil, zap.NewNop())
		wg.Add(1)
		go func() {
			defer wg.Done()
			shared.Add(vh.Ev{"e": "Start", "c": rec.ID})
			h.Handle(cx, layer4.HandlerFunc(func(cx *layer4.Connection) error {
				buf := make([]byte, sc.Buf)
				shared.Add(vh.Ev{"e": "RCall", "c": rec.ID})
				for {
					n, err := cx.Read(buf)
					if n > 0 {
						o.segs = rec.NoteRead(o.segs, buf[:n])
					}
					if err != nil || n == 0 {
						return nil
					}
				}
			}))
		}()
	}
	wg.Wait()
	ev := []vh.Ev{}
	t0 := map[string]any{}
	tt0 := -1
	for _, e := range shared.Snapshot() {
		switch e["e"] {
		case "Start":
			ev = append(ev, e)
		case "Pull":
			ev = append(ev, e)
		case "RCall":
			t0[e["c"].(string)] = e["t"]
			if tt0 < 0 || e["t"].(int) < tt0 {
				tt0 = e["t"].(int)
			}
		}
	}
	reads := map[string]any{}
	for _, o := range conns {
		s := o.segs
		if s == nil {
			s = vh.Segs{}
		}
		reads[o.rec.ID] = map[string]any{"segs": s, "slen": slen}
	}
	return map[string]any{"id": fmt.Sprintf("throttle:%d", idx), "scen": sc, "rate": sc.Rate, "burst": sc.Burst, "trate": trate, "tburst": tburst,
		"latency": sc.Latency, "eps": 2, "ev": ev, "reads": reads, "t0": t0, "tt0": tt0}, nil
}

func init() {
	register("throttle-run", "the real throttle handler over instant-data connections (C17)", func(args []string) error {
		fs := flag.NewFlagSet("throttle-run", flag.ExitOnError)
		in := fs.String("in", "", "scenario grid (NDJSON from L4ThrottleGrid)")
		out := fs.String("out", "", "traces (NDJSON for L4ThrottleTrace)")
		sum := fs.String("summary", "", "summary JSON")
		fs.Parse(args)
		var scens []thrScen
		if err := vh.ReadLines(*in, 1, func(i int, line []byte) {
			var s thrScen
			if err := json.Unmarshal(line, &s); err != nil {
				panic(err)
			}
			scens = append(scens, s)
		}); err != nil {
			return err
		}
		lw, err := vh.NewLineWriter(*out)
		if err != nil {
			return err
		}
		var wg sync.WaitGroup
		var mu sync.Mutex
		var errs []string
		var samples []any
		pulls := 0
		sem := make(chan struct{}, 64)
		for i, s := range scens {
			wg.Add(1)
			sem <- struct{}{}
			go func(i int, s thrScen) {
				defer wg.Done()
				defer func() { <-sem }()
				tr, err := runThrottle(s, i)
				mu.Lock()
				defer mu.Unlock()
				if err != nil {
					errs = append(errs, err.Error())
					return
				}
				lw.Write(tr)
				pulls += len(tr["ev"].([]vh.Ev))
				if len(samples) < 2 && len(tr["ev"].([]vh.Ev)) < 30 {
					samples = append(samples, tr)
				}
			}(i, s)
		}
		wg.Wait()
		if err := lw.Close(); err != nil {
			return err
		}
		return writeJSON(*sum, map[string]any{"runs": len(scens), "errors": errs, "pull_events": pulls, "samples": samples})
	})
}
