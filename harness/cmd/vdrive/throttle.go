package main

import (
	"context"
	"encoding/json"
	"flag"
	"fmt"
	"io"
	"net"
	"sort"
	"sync"
	"time"

	"github.com/caddyserver/caddy/v2"
	"github.com/mholt/caddy-l4/layer4"
	"github.com/mholt/caddy-l4/modules/l4throttle"
	"go.uber.org/zap"

	"verifharness/vh"
)

type thrScen struct {
	Rate    int `json:"rate"`
	Burst   int `json:"burst"`
	Total   int `json:"total"`
	Latency int `json:"latency"`
	Buf     int `json:"buf"`
	Conns   int `json:"conns"`
	// Via "sub": the throttle is the first route of a subroute (matching timeout 300 ms) whose second route needs more
	// data and then says no; the reader is the handler after the subroute
	Via string `json:"via"`
}

// the throttle inside a subroute whose later route needs more data and then says no: the subroute's matching deadline
// (300 ms) is armed again after the throttle's route matched and must be gone when the next handler reads
func throttleViaSubroute(ctx caddy.Context, cfg map[string]any, next layer4.Handler) (layer4.Handler, error) {
	th := map[string]any{"handler": "throttle"}
	for k, v := range cfg {
		th[k] = v
	}
	sub := map[string]any{"handler": "subroute", "matching_timeout": int64(300 * time.Millisecond), "routes": []map[string]any{
		{"handle": []map[string]any{th}},
		{"match": []map[string]any{{"verif_m0": map[string]any{"at": 600, "v": "N", "w": "N"}}}, "handle": []map[string]any{{"handler": "verif_h", "k": "term"}}},
	}}
	raw, _ := json.Marshal([]map[string]any{{"handle": []map[string]any{sub}}})
	var rl layer4.RouteList
	if err := json.Unmarshal(raw, &rl); err != nil {
		return nil, err
	}
	if err := rl.Provision(ctx); err != nil {
		return nil, err
	}
	return rl.Compile(zap.NewNop(), time.Hour, next), nil
}

// throttlePreSubroute: the throttle handler in FRONT of a subroute whose (real, reading) matcher needs more bytes than
// one throttled read delivers - matching takes several rounds, each of which must rewind to the same place.
func throttlePreSubroute(ctx caddy.Context, cfg map[string]any, next layer4.Handler) (layer4.Handler, error) {
	th := map[string]any{"handler": "throttle"}
	for k, v := range cfg {
		th[k] = v
	}
	sub := map[string]any{"handler": "subroute", "matching_timeout": int64(10 * time.Second), "routes": []map[string]any{
		{"match": []map[string]any{{"regexp": map[string]any{"pattern": "^", "count": 1500}}}},
	}}
	raw, _ := json.Marshal([]map[string]any{{"handle": []map[string]any{th, sub}}})
	var rl layer4.RouteList
	if err := json.Unmarshal(raw, &rl); err != nil {
		return nil, err
	}
	if err := rl.Provision(ctx); err != nil {
		return nil, err
	}
	return rl.Compile(zap.NewNop(), time.Hour, next), nil
}

func runThrottle(sc thrScen, idx int) (map[string]any, error) {
	cfg := map[string]any{}
	trate, tburst := 0, 0
	if sc.Rate > 0 {
		cfg["read_bytes_per_second"] = sc.Rate
		cfg["read_burst_size"] = sc.Burst
	}
	switch sc.Total {
	case 1:
		trate, tburst = sc.Rate, sc.Burst
	case 2:
		trate, tburst = 20000, 2000
	}
	if trate > 0 {
		cfg["total_read_bytes_per_second"] = trate
		cfg["total_read_burst_size"] = tburst
	}
	if sc.Latency > 0 {
		cfg["latency"] = int64(ms(sc.Latency))
	}
	ctx, cancel := caddy.NewContext(caddy.Context{Context: context.Background()})
	defer cancel()
	h := new(l4throttle.Handler)
	b, _ := json.Marshal(cfg)
	if err := json.Unmarshal(b, h); err != nil {
		return nil, err
	}
	if err := h.Provision(ctx); err != nil {
		return nil, err
	}
	// stream size: what the tightest limit lets through in about 1.2 s
	rate, burst := sc.Rate, sc.Burst
	if rate == 0 || (trate > 0 && trate/sc.Conns < rate) {
		rate, burst = trate/sc.Conns, tburst
	}
	slen := burst + rate*12/10
	if rate == 0 {
		slen = 3000 // no limit configured (latency only)
	}
	if slen > 60000 {
		slen = 60000
	}
	if sc.Buf == 1 && slen > 2500 {
		slen = 2500
	}
	shared := vh.NewRecorder(nil)
	shared.T0 = time.Now()
	type one struct {
		rec  *vh.Recorder
		segs vh.Segs
	}
	conns := make([]*one, sc.Conns)
	var wg sync.WaitGroup
	for c := 0; c < sc.Conns; c++ {
		rec := vh.NewRecorder(vh.MakeStream(int64(idx*16+c), slen+8))
		rec.ID, rec.Sink, rec.T0 = fmt.Sprintf("%d", c+1), shared, shared.T0
		o := &one{rec: rec}
		conns[c] = o
		// in every other scenario the last bytes arrive together with the end of the stream
		scn := &vh.ScriptConn{Rec: rec, Slen: slen, EndKind: "eof", EOFWithData: sc.Via == "direct" && idx%2 == 1, Start: time.Now(), Unit: time.Hour,
			Remote: &net.TCPAddr{IP: net.IPv4(10, 3, byte(idx%250), byte(c+1)), Port: 30000 + c}}
		cx := layer4.WrapConnection(scn, nil, zap.NewNop())
		wg.Add(1)
		go func() {
			defer wg.Done()
			shared.Add(vh.Ev{"e": "Start", "c": rec.ID})
			reader := layer4.HandlerFunc(func(cx *layer4.Connection) error {
				buf := make([]byte, sc.Buf)
				if sc.Via != "sub" && sc.Via != "presub" {
					shared.Add(vh.Ev{"e": "RCall", "c": rec.ID})
				}
				for {
					n, err := cx.Read(buf)
					if n > 0 {
						o.segs = rec.NoteRead(o.segs, buf[:n])
					}
					if err != nil || n == 0 {
						return nil
					}
				}
			})
			if sc.Via == "sub" || sc.Via == "presub" {
				// the first read is the subroute's matching read
				shared.Add(vh.Ev{"e": "RCall", "c": rec.ID})
				mk := throttleViaSubroute
				if sc.Via == "presub" {
					mk = throttlePreSubroute
				}
				compiled, err := mk(ctx, cfg, reader)
				if err != nil {
					panic(err)
				}
				compiled.Handle(cx)
				return
			}
			h.Handle(cx, reader)
		}()
	}
	wg.Wait()
	ev := []vh.Ev{}
	t0 := map[string]any{}
	tt0 := -1
	for _, e := range shared.Snapshot() {
		switch e["e"] {
		case "Start":
			ev = append(ev, e)
		case "Pull":
			ev = append(ev, e)
		case "RCall":
			t0[e["c"].(string)] = e["t"]
			if tt0 < 0 || e["t"].(int) < tt0 {
				tt0 = e["t"].(int)
			}
		}
	}
	// Each event is stamped under its own connection's recorder and reaches the shared history afterwards: between the two a
	// goroutine can be preempted, so the shared history is NOT ordered by time across connections. The stamps are the facts
	// (taken after the read was served: never early); the clause that sums over all connections (G2) needs them in time order.
	sort.SliceStable(ev, func(i, j int) bool { return ev[i]["t"].(int) < ev[j]["t"].(int) })
	reads := map[string]any{}
	for _, o := range conns {
		s := o.segs
		if s == nil {
			s = vh.Segs{}
		}
		reads[o.rec.ID] = map[string]any{"segs": s, "slen": slen}
	}
	return map[string]any{"id": fmt.Sprintf("throttle:%d", idx), "scen": sc, "rate": sc.Rate, "burst": sc.Burst, "trate": trate, "tburst": tburst,
		"latency": sc.Latency, "eps": 2, "ev": ev, "reads": reads, "t0": t0, "tt0": tt0}, nil
}

func init() {
	register("throttle-run", "the real throttle handler over instant-data connections (C17)", func(args []string) error {
		fs := flag.NewFlagSet("throttle-run", flag.ExitOnError)
		in := fs.String("in", "", "scenario grid (NDJSON from L4ThrottleGrid)")
		out := fs.String("out", "", "traces (NDJSON for L4ThrottleTrace)")
		sum := fs.String("summary", "", "summary JSON")
		fs.Parse(args)
		var scens []thrScen
		if err := vh.ReadLines(*in, 1, func(i int, line []byte) {
			var s thrScen
			if err := json.Unmarshal(line, &s); err != nil {
				panic(err)
			}
			scens = append(scens, s)
		}); err != nil {
			return err
		}
		lw, err := vh.NewLineWriter(*out)
		if err != nil {
			return err
		}
		var wg sync.WaitGroup
		var mu sync.Mutex
		var errs []string
		var samples []any
		pulls := 0
		sem := make(chan struct{}, 64)
		for i, s := range scens {
			wg.Add(1)
			sem <- struct{}{}
			go func(i int, s thrScen) {
				defer wg.Done()
				defer func() { <-sem }()
				tr, err := runThrottle(s, i)
				mu.Lock()
				defer mu.Unlock()
				if err != nil {
					errs = append(errs, err.Error())
					return
				}
				lw.Write(tr)
				pulls += len(tr["ev"].([]vh.Ev))
				if len(samples) < 2 && len(tr["ev"].([]vh.Ev)) < 30 {
					samples = append(samples, tr)
				}
			}(i, s)
		}
		wg.Wait()
		// the throttle over UDP virtual connections: datagrams larger than the burst are read in pieces
		udpRuns := 0
		for _, size := range []int{200, 250, 300, 100, -100} {
			// (a negative size: datagrams of that size through a SLOW throttle behind a SHORT matching timeout - the
			// association is still being read long after the matching deadline has passed, which must not matter)
			tr, err := runThrottleUDP(size, 100, udpRuns)
			if err != nil {
				errs = append(errs, err.Error())
				continue
			}
			lw.Write(tr)
			udpRuns++
		}
		// the throttle in front of the real proxy handler, the client on a connection that cannot be half-closed
		for i := 0; i < 2; i++ {
			tr, err := runThrottleProxy(i)
			if err != nil {
				errs = append(errs, err.Error())
				continue
			}
			lw.Write(tr)
		}
		if err := lw.Close(); err != nil {
			return err
		}
		return writeJSON(*sum, map[string]any{"runs": len(scens), "udp_runs": udpRuns, "errors": errs, "pull_events": pulls, "samples": samples})
	})
}

// plainConn hides everything but net.Conn (as a handler's wrapper that embeds net.Conn does): no CloseWrite
type plainConn struct{ net.Conn }

// runThrottleProxy: throttle -> proxy -> loopback upstream. The upstream answers, ends its answer (half-close) and
// keeps reading; the client - on a connection without CloseWrite - goes on sending for a while. The throttled stream
// must reach the upstream whole (G4): the upstream's end of stream is no reason to cut the client off.
func runThrottleProxy(idx int) (map[string]any, error) {
	const slen = 6000
	stream := vh.MakeStream(int64(4400+idx), slen+8)[:slen]
	up, err := net.Listen("tcp", "127.0.0.1:0")
	if err != nil {
		return nil, err
	}
	defer up.Close()
	rec := vh.NewRecorder(stream)
	var segs vh.Segs
	upDone := make(chan struct{})
	go func() {
		defer close(upDone)
		c, err := up.Accept()
		if err != nil {
			return
		}
		defer c.Close()
		c.Write([]byte("BYE"))
		c.(*net.TCPConn).CloseWrite()
		buf := make([]byte, 4096)
		for {
			c.SetReadDeadline(time.Now().Add(5 * time.Second))
			n, err := c.Read(buf)
			if n > 0 {
				segs = rec.NoteRead(segs, buf[:n])
			}
			if err != nil {
				return
			}
		}
	}()
	ctx, cancel := caddy.NewContext(caddy.Context{Context: context.Background()})
	defer cancel()
	routes := []map[string]any{{"handle": []map[string]any{
		{"handler": "throttle", "read_bytes_per_second": 20000, "read_burst_size": 1000},
		{"handler": "proxy", "upstreams": []map[string]any{{"dial": []string{up.Addr().String()}}}}}}}
	b, _ := json.Marshal(routes)
	var rl layer4.RouteList
	if err := json.Unmarshal(b, &rl); err != nil {
		return nil, err
	}
	if err := rl.Provision(ctx); err != nil {
		return nil, err
	}
	compiled := rl.Compile(zap.NewNop(), time.Hour, layer4.HandlerFunc(func(*layer4.Connection) error { return nil }))
	var cl, sv net.Conn
	if idx%2 == 0 {
		cl, sv = net.Pipe()
	} else {
		ln, err := net.Listen("tcp", "127.0.0.1:0")
		if err != nil {
			return nil, err
		}
		defer ln.Close()
		if cl, err = net.Dial("tcp", ln.Addr().String()); err != nil {
			return nil, err
		}
		a, err := ln.Accept()
		if err != nil {
			return nil, err
		}
		sv = plainConn{a}
	}
	cx := layer4.WrapConnection(sv, nil, zap.NewNop())
	hdone := make(chan struct{})
	go func() { compiled.Handle(cx); sv.Close(); close(hdone) }()
	go io.Copy(io.Discard, cl)
	// the client sends in pieces over about 300 ms (the throttle lets 20 kB/s through), then closes
	for off := 0; off < slen; off += 1000 {
		cl.SetWriteDeadline(time.Now().Add(3 * time.Second))
		if _, err := cl.Write(stream[off : off+1000]); err != nil {
			break
		}
		time.Sleep(20 * time.Millisecond)
	}
	cl.Close()
	select {
	case <-hdone:
	case <-time.After(5 * time.Second):
	}
	select {
	case <-upDone:
	case <-time.After(5 * time.Second):
	}
	if segs == nil {
		segs = vh.Segs{}
	}
	return map[string]any{"id": fmt.Sprintf("throttle:proxyup:%d", idx), "scen": map[string]any{"transport": "proxyup", "client": []string{"pipe", "tcp behind a plain wrapper"}[idx%2]},
		"rate": 0, "burst": 0, "trate": 0, "tburst": 0, "latency": 0, "eps": 2, "ev": []vh.Ev{},
		"reads": map[string]any{"1": map[string]any{"segs": segs, "slen": slen}}, "t0": map[string]any{"1": 0}, "tt0": 0}, nil
}

// runThrottleUDP: three datagrams of `size` bytes from one client through the real servePacket loop, a throttle with
// burst `burst` (so that each datagram is read in pieces of at most `burst` bytes) and a handler reading three
// datagrams. Judged by G4 only: the bytes of the three datagrams arrive completely and in order.
func runThrottleUDP(size, burst, idx int) (map[string]any, error) {
	rate, mt, slow := 8000, 5*time.Second, false
	if size < 0 {
		size, rate, mt, slow = -size, 1000, 150*time.Millisecond, true
	}
	rec := vh.NewRecorder(nil)
	pc := vh.NewFakePC(rec)
	ctx, cancel := caddy.NewContext(caddy.Context{Context: context.Background()})
	defer cancel()
	routes := []map[string]any{{"handle": []map[string]any{
		{"handler": "throttle", "read_bytes_per_second": rate, "read_burst_size": burst},
		{"handler": "verif_h", "k": "udp", "n": 3, "buf": 9000}}}}
	b, _ := json.Marshal(routes)
	srv := &layer4.Server{MatchingTimeout: caddy.Duration(mt)}
	if err := json.Unmarshal(b, &srv.Routes); err != nil {
		return nil, err
	}
	if err := srv.Provision(ctx, zap.NewNop()); err != nil {
		return nil, err
	}
	vh.RegisterRec(vh.ClientAddr(1).String(), rec)
	go layer4.VerifServePacket(srv, pc)
	for seq := 1; seq <= 3; seq++ {
		pc.Inject(1, seq, size)
	}
	// 3*size bytes at 8000 B/s: well under a second
	last, stable := -1, 0
	for i := 0; i < 600 && stable < 40; i++ {
		time.Sleep(5 * time.Millisecond)
		if n := rec.Len(); n == last {
			stable++
		} else {
			last, stable = n, 0
		}
	}
	pc.Close()
	segs := vh.Segs{}
	for _, e := range rec.Snapshot() {
		if e["e"] == "Dlv" && e["c"] == "c1" {
			seq, n := e["seq"].(int), e["n"].(int)
			if n > 0 {
				segs = append(segs, [2]int{(seq - 1) * size, (seq-1)*size + n})
			}
		}
	}
	return map[string]any{"id": fmt.Sprintf("throttle:udp:%d:size%d", idx, size), "scen": map[string]any{"transport": "udp", "size": size, "burst": burst, "datagrams": 3, "slow": slow},
		"rate": 0, "burst": 0, "trate": 0, "tburst": 0, "latency": 0, "eps": 2, "ev": []vh.Ev{},
		"reads": map[string]any{"1": map[string]any{"segs": segs, "slen": 3 * size}}, "t0": map[string]any{"1": 0}, "tt0": 0}, nil
}
