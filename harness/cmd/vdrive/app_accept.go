package main

import (
	"encoding/json"
	"fmt"
	"net"
	"sync"
	"syscall"
	"time"

	"github.com/caddyserver/caddy/v2"
	"github.com/mholt/caddy-l4/layer4"

	"verifharness/vh"
)

// accept errors of the serve loops (L4App AcceptFails / ServedWhileBound; clauses Z5-Z7 of L4AppTrace):
// one connection (datagram) is served, Accept (ReadFrom) then fails once, another connection is offered.

type acceptItem struct {
	conn net.Conn
	dg   []byte
	err  error
}

type acceptTimeout struct{}

func (acceptTimeout) Error() string   { return "i/o timeout (scripted)" }
func (acceptTimeout) Timeout() bool   { return true }
func (acceptTimeout) Temporary() bool { return true }

func scriptedAcceptError(kind string) error {
	switch kind {
	case "timeout":
		return &net.OpError{Op: "accept", Net: "tcp", Err: acceptTimeout{}}
	case "transient":
		// what accept(2) returns when the process is out of file descriptors: Temporary() true, Timeout() false
		return &net.OpError{Op: "accept", Net: "tcp", Err: syscall.EMFILE}
	}
	return net.ErrClosed
}

type scriptLn struct {
	items  chan acceptItem
	closed chan struct{}
	once   sync.Once
}

func newScriptLn() *scriptLn {
	return &scriptLn{items: make(chan acceptItem, 16), closed: make(chan struct{})}
}

func (l *scriptLn) Accept() (net.Conn, error) {
	select {
	case <-l.closed:
		return nil, net.ErrClosed
	default:
	}
	select {
	case it := <-l.items:
		return it.conn, it.err
	case <-l.closed:
		return nil, net.ErrClosed
	}
}
func (l *scriptLn) Close() error   { l.once.Do(func() { close(l.closed) }); return nil }
func (l *scriptLn) Addr() net.Addr { return &net.TCPAddr{IP: net.IPv4(127, 0, 0, 1), Port: 4100} }

type scriptPC struct {
	items  chan acceptItem
	out    chan []byte
	closed chan struct{}
	once   sync.Once
}

func newScriptPC() *scriptPC {
	return &scriptPC{items: make(chan acceptItem, 16), out: make(chan []byte, 16), closed: make(chan struct{})}
}

func (p *scriptPC) ReadFrom(b []byte) (int, net.Addr, error) {
	select {
	case <-p.closed:
		return 0, nil, net.ErrClosed
	default:
	}
	select {
	case it := <-p.items:
		if it.err != nil {
			return 0, nil, it.err
		}
		return copy(b, it.dg), &net.UDPAddr{IP: net.IPv4(10, 0, 0, 1), Port: 7000 + int(it.dg[0])}, nil
	case <-p.closed:
		return 0, nil, net.ErrClosed
	}
}
func (p *scriptPC) WriteTo(b []byte, _ net.Addr) (int, error) {
	select {
	case p.out <- append([]byte(nil), b...):
	default:
	}
	return len(b), nil
}
func (p *scriptPC) Close() error                       { p.once.Do(func() { close(p.closed) }); return nil }
func (p *scriptPC) LocalAddr() net.Addr                { return &net.UDPAddr{IP: net.IPv4(10, 0, 0, 254), Port: 4101} }
func (p *scriptPC) SetDeadline(t time.Time) error      { return nil }
func (p *scriptPC) SetReadDeadline(t time.Time) error  { return nil }
func (p *scriptPC) SetWriteDeadline(t time.Time) error { return nil }

func echoServer() (*layer4.Server, func(), error) {
	base, err := vh.CaddyContext()
	if err != nil {
		return nil, nil, err
	}
	ctx, cancel := caddy.NewContext(base)
	s := new(layer4.Server)
	cfg := []byte(`{"listen":["tcp/127.0.0.1:0"],"routes":[{"handle":[{"handler":"echo"}]}]}`)
	if err := json.Unmarshal(cfg, s); err != nil {
		cancel()
		return nil, nil, err
	}
	if err := s.Provision(ctx, caddy.Log()); err != nil {
		cancel()
		return nil, nil, err
	}
	return s, cancel, nil
}

func pipeServed(offer func(net.Conn)) bool {
	cl, sv := net.Pipe()
	defer cl.Close()
	offer(sv)
	cl.SetDeadline(time.Now().Add(400 * time.Millisecond))
	if _, err := cl.Write([]byte("ping")); err != nil {
		return false
	}
	buf := make([]byte, 8)
	n, err := cl.Read(buf)
	return err == nil && string(buf[:n]) == "ping"
}

func runAcceptTCP(kind string, idx int) (map[string]any, error) {
	s, cancel, err := echoServer()
	if err != nil {
		return nil, err
	}
	defer cancel()
	ln := newScriptLn()
	done := make(chan struct{})
	go func() { _ = layer4.VerifServe(s, ln); close(done) }()
	before := pipeServed(func(c net.Conn) { ln.items <- acceptItem{conn: c} })
	if kind == "closed" {
		ln.Close()
	} else {
		ln.items <- acceptItem{err: scriptedAcceptError(kind)}
	}
	time.Sleep(30 * time.Millisecond)
	after := pipeServed(func(c net.Conn) { ln.items <- acceptItem{conn: c} })
	ended := false
	select {
	case <-done:
		ended = true
	case <-time.After(100 * time.Millisecond):
	}
	ln.Close()
	return map[string]any{"id": fmt.Sprintf("accept:%d:tcp:%s", idx, kind), "kind": "accept", "net": "tcp", "err": kind,
		"servedBefore": before, "servedAfter": after, "loopEnded": ended}, nil
}

func dgServed(pc *scriptPC, client byte) bool {
	pc.items <- acceptItem{dg: []byte{client, 'p', 'i', 'n', 'g'}}
	select {
	case b := <-pc.out:
		return len(b) == 5 && b[0] == client && string(b[1:]) == "ping"
	case <-time.After(400 * time.Millisecond):
		return false
	}
}

func runAcceptUDP(kind string, idx int) (map[string]any, error) {
	s, cancel, err := echoServer()
	if err != nil {
		return nil, err
	}
	defer cancel()
	pc := newScriptPC()
	done := make(chan struct{})
	go func() { _ = layer4.VerifServePacket(s, pc); close(done) }()
	before := dgServed(pc, 1)
	if kind == "closed" {
		pc.Close()
	} else {
		e := scriptedAcceptError(kind)
		e.(*net.OpError).Op, e.(*net.OpError).Net = "read", "udp"
		pc.items <- acceptItem{err: e}
	}
	time.Sleep(30 * time.Millisecond)
	after := dgServed(pc, 2)
	ended := false
	select {
	case <-done:
		ended = true
	case <-time.After(100 * time.Millisecond):
	}
	pc.Close()
	return map[string]any{"id": fmt.Sprintf("accept:%d:udp:%s", idx, kind), "kind": "accept", "net": "udp", "err": kind,
		"servedBefore": before, "servedAfter": after, "loopEnded": ended}, nil
}
