package main

import (
	"bytes"
	"encoding/binary"
	"encoding/json"
	"flag"
	"fmt"
	"runtime"
	"sync"

	"github.com/mholt/caddy-l4/modules/l4openvpn"

	"verifharness/vh"
)

// codec-seal: the OpenVPN message types whose serialised form is produced from a message by SIGNING and ENCRYPTING it
// (MessageAuth, MessageCrypt, WrappedKey, MessageCrypt2) - clause K4 of L4Codec: a well-formed message that is sealed
// with a key, serialised with ToBytes, parsed with FromBytes and opened with the same key comes back as it was, the
// message that was serialised is itself left as it was, and the serialised bytes re-serialise to themselves.

type sealCase struct {
	Type  string           `json:"type"`
	Clear map[string][]int `json:"clear"`
}

func be32(v []int) uint32 { return binary.BigEndian.Uint32(toBytes(v)) }
func be64(v []int) uint64 { return binary.BigEndian.Uint64(toBytes(v)) }
func ints32(x uint32) []int {
	var b [4]byte
	binary.BigEndian.PutUint32(b[:], x)
	return toInts(b[:])
}
func ints64(x uint64) []int {
	var b [8]byte
	binary.BigEndian.PutUint64(b[:], x)
	return toInts(b[:])
}

func sealGroupKey() *l4openvpn.StaticKey {
	kb := make([]byte, l4openvpn.StaticKeyBytesTotal)
	for i := range kb {
		kb[i] = byte(0x35 + 5*i)
	}
	return &l4openvpn.StaticKey{KeyBytes: kb}
}

func sealServerKey() *l4openvpn.StaticKey {
	kb := make([]byte, l4openvpn.StaticKeyBytesHalf)
	for i := range kb {
		kb[i] = byte(0x40 + 3*i)
	}
	return &l4openvpn.StaticKey{KeyBytes: kb}
}

func clearOfAuth(m *l4openvpn.MessageAuth) map[string][]int {
	return map[string][]int{"sid": ints64(m.LocalSessionID), "rpid": ints32(m.ReplayPacketID), "ts": ints32(m.ReplayTimestamp),
		"pid": ints32(m.ThisPacketID), "key": {}, "mtype": {}, "meta": {}}
}

func clearOfWK(base map[string][]int, wk *l4openvpn.WrappedKey) map[string][]int {
	base["key"] = nonNilInts(toInts(wk.StaticKey.KeyBytes))
	base["meta"] = nonNilInts(toInts(wk.MetaData.Payload))
	if len(wk.MetaData.Payload) > 0 {
		base["mtype"] = []int{int(wk.MetaData.Type)}
	} else {
		base["mtype"] = []int{}
	}
	return base
}

func emptyClear() map[string][]int {
	return map[string][]int{"sid": {}, "rpid": {}, "ts": {}, "pid": {}, "key": {}, "mtype": {}, "meta": {}}
}

func fillAuth(m *l4openvpn.MessageAuth, c map[string][]int, opcode uint8) {
	m.Opcode, m.KeyID = opcode, 0
	m.LocalSessionID = be64(c["sid"])
	m.ReplayPacketID, m.ReplayTimestamp = be32(c["rpid"]), be32(c["ts"])
	m.PrevPacketIDsCount, m.ThisPacketID = 0, be32(c["pid"])
}

func fillWK(wk *l4openvpn.WrappedKey, c map[string][]int) {
	wk.StaticKey.KeyBytes = bytes.Clone(toBytes(c["key"]))
	wk.Cipher = l4openvpn.CryptCipherDefault
	if len(c["meta"]) > 0 {
		wk.MetaData.Type, wk.MetaData.Payload = uint8(c["mtype"][0]), bytes.Clone(toBytes(c["meta"]))
	}
}

func runSealCase(c *sealCase) (o map[string]any) {
	o = map[string]any{"panic": "", "sealed": false, "accepted": false, "opened": false, "ser": []int{}, "reser": []int{},
		"kept": emptyClear(), "clear": emptyClear(), "err": ""}
	defer func() {
		if r := recover(); r != nil {
			o["panic"] = fmt.Sprint(r)
		}
	}()
	fail := func(stage string, err error) map[string]any { o["err"] = stage + ": " + err.Error(); return o }
	switch c.Type {
	case "openvpn.MessageAuth":
		gk := sealGroupKey()
		in := &l4openvpn.MessageAuth{}
		fillAuth(in, c.Clear, l4openvpn.OpcodeControlHardResetClientV2)
		if err := in.Sign(nil, gk); err != nil {
			return fail("Sign", err)
		}
		o["sealed"] = true
		b := in.ToBytes()
		o["ser"], o["kept"] = toInts(b), clearOfAuth(in)
		out := &l4openvpn.MessageAuth{}
		if err := out.FromBytes(bytes.Clone(b)); err != nil {
			return fail("FromBytes", err)
		}
		o["accepted"], o["reser"] = true, toInts(out.ToBytes())
		if out.Authenticate(nil, gk) {
			o["opened"], o["clear"] = true, clearOfAuth(out)
		}
	case "openvpn.MessageCrypt":
		gk := sealGroupKey()
		in := &l4openvpn.MessageCrypt{}
		fillAuth(&in.MessageAuth, c.Clear, l4openvpn.OpcodeControlHardResetClientV2)
		in.Cipher = l4openvpn.CryptCipherDefault
		if err := in.Sign(nil, gk); err != nil {
			return fail("Sign", err)
		}
		if err := in.EncryptAndSign(nil, gk); err != nil {
			return fail("EncryptAndSign", err)
		}
		o["sealed"] = true
		b := in.ToBytes()
		o["ser"], o["kept"] = toInts(b), clearOfAuth(&in.MessageAuth)
		out := &l4openvpn.MessageCrypt{}
		if err := out.FromBytes(bytes.Clone(b)); err != nil {
			return fail("FromBytes", err)
		}
		o["accepted"], o["reser"] = true, toInts(out.ToBytes())
		if out.DecryptAndAuthenticate(nil, gk) {
			o["opened"], o["clear"] = true, clearOfAuth(&out.MessageAuth)
		}
	case "openvpn.WrappedKey":
		sk := sealServerKey()
		in := &l4openvpn.WrappedKey{}
		fillWK(in, c.Clear)
		if err := in.Sign(nil, sk); err != nil {
			return fail("Sign", err)
		}
		if err := in.EncryptAndSign(nil, sk); err != nil {
			return fail("EncryptAndSign", err)
		}
		o["sealed"] = true
		b := in.ToBytes()
		o["ser"], o["kept"] = toInts(b), clearOfWK(emptyClear(), in)
		out := &l4openvpn.WrappedKey{}
		if err := out.FromBytes(bytes.Clone(b)); err != nil {
			return fail("FromBytes", err)
		}
		o["accepted"], o["reser"] = true, toInts(out.ToBytes())
		if out.DecryptAndAuthenticate(nil, sk) {
			o["opened"], o["clear"] = true, clearOfWK(emptyClear(), out)
		}
	case "openvpn.MessageCrypt2":
		sk := sealServerKey()
		in := &l4openvpn.MessageCrypt2{}
		fillAuth(&in.MessageCrypt.MessageAuth, c.Clear, l4openvpn.OpcodeControlHardResetClientV3)
		in.MessageCrypt.Cipher = l4openvpn.CryptCipherDefault
		fillWK(&in.WrappedKey, c.Clear)
		if err := in.WrappedKey.Sign(nil, sk); err != nil {
			return fail("WrappedKey.Sign", err)
		}
		if err := in.MessageCrypt.Sign(nil, &in.WrappedKey.StaticKey); err != nil {
			return fail("MessageCrypt.Sign", err)
		}
		if err := in.EncryptAndSign(nil, sk); err != nil {
			return fail("EncryptAndSign", err)
		}
		o["sealed"] = true
		b := in.ToBytes()
		o["ser"], o["kept"] = toInts(b), clearOfWK(clearOfAuth(&in.MessageCrypt.MessageAuth), &in.WrappedKey)
		out := &l4openvpn.MessageCrypt2{}
		if err := out.FromBytes(bytes.Clone(b)); err != nil {
			return fail("FromBytes", err)
		}
		o["accepted"], o["reser"] = true, toInts(out.ToBytes())
		if out.DecryptAndAuthenticate(nil, sk) {
			o["opened"], o["clear"] = true, clearOfWK(clearOfAuth(&out.MessageCrypt.MessageAuth), &out.WrappedKey)
		}
	default:
		panic("no seal adapter for " + c.Type)
	}
	return o
}

func init() {
	register("codec-seal", "TLC-enumerated OpenVPN messages sealed, serialised, parsed and opened by the real code (C18, clause K4)", func(args []string) error {
		fs := flag.NewFlagSet("codec-seal", flag.ExitOnError)
		in := fs.String("in", "", "cases (NDJSON from L4CodecGrid, SealCases)")
		out := fs.String("out", "", "observations (NDJSON for L4CodecSealTrace)")
		sum := fs.String("summary", "", "summary JSON")
		fs.Parse(args)
		lw, err := vh.NewLineWriter(*out)
		if err != nil {
			return err
		}
		var mu sync.Mutex
		byType := map[string]map[string]int{}
		err = vh.ReadLines(*in, runtime.NumCPU(), func(i int, line []byte) {
			var c sealCase
			if err := json.Unmarshal(line, &c); err != nil {
				panic(err)
			}
			o := runSealCase(&c)
			mu.Lock()
			defer mu.Unlock()
			st := byType[c.Type]
			if st == nil {
				st = map[string]int{}
				byType[c.Type] = st
			}
			st["cases"]++
			if o["opened"].(bool) {
				st["opened"]++
			}
			lw.Write(map[string]any{"id": fmt.Sprintf("seal:%d", i), "c": c, "o": o})
		})
		if err != nil {
			return err
		}
		if err := lw.Close(); err != nil {
			return err
		}
		return writeJSON(*sum, map[string]any{"cases": lw.N, "by_type": byType})
	})
}
