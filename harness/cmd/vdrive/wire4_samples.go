package main

import (
	"bytes"
	"crypto/sha1"
	"crypto/sha256"
	"crypto/sha512"
	"encoding/base64"
	"encoding/binary"
	"encoding/hex"
	"fmt"
	"hash"
)

// Packets produced by a real OpenVPN (sample static key ta.key of the OpenVPN distribution, and a
// tls-crypt-v2 server/client key pair), as published in the repository's test data. They are the ground
// truth that the harness's own OpenVPN encoder (wire4.go) lays out, signs and encrypts messages correctly.
const ovSampleGroupKeyHex = "21d94830510107f8753d3b6f3145e01ded37075115afcb0538ecdd8503ee96637218c9ed38d908d594231d7d143c73da5055310f89d336da99c8b3dcb18909c79dd44f540670ebc0f120beb7211e96839cb542572c48bfa7ffaa9a22cb8304b7869b92f4442918e598745bb78ac8877f02b00a7cdef3f2446c130d39a7c451269ef399fd6029cdfc80a7c604041312ab0a969bc906bdee6e6d707afdcbe8c7fb97beb66049c3d328340775025433ceba1e38008a826cf92443d903106199373bdadd9c2c735cf481e580db4e81b99f12e3f46b6159c687cd1b9e689f7712573c0f02735a45573dfb5cd55cf4649423892c7e91f439bdd7337a8ceebd302cfbfa"

var ovSampleAuthSHA1 = []byte{56, 38, 129, 217, 92, 90, 2, 14, 97, 123, 32, 15, 106, 140, 112, 232, 206, 242, 138, 133, 246, 151, 31, 71, 44, 140, 201, 188, 248, 0, 0, 0, 1, 102, 234, 241, 204, 0, 0, 0, 0, 0}
var ovSampleAuthSHA512 = []byte{56, 161, 94, 244, 194, 238, 125, 66, 225, 158, 56, 169, 182, 153, 161, 60, 52, 18, 97, 185, 50, 29, 118, 249, 132, 174, 102, 134, 41, 219, 138, 47, 121, 94, 151, 157, 117, 100, 50, 28, 187, 17, 127, 71, 193, 79, 142, 107, 174, 210, 123, 68, 207, 70, 40, 98, 73, 118, 125, 217, 193, 236, 245, 181, 36, 237, 68, 214, 150, 103, 239, 47, 69, 0, 0, 0, 1, 102, 234, 245, 25, 0, 0, 0, 0, 0}
var ovSampleCrypt = []byte{56, 76, 98, 159, 244, 184, 134, 148, 158, 0, 0, 0, 1, 102, 237, 91, 50, 14, 141, 87, 40, 125, 165, 204, 227, 61, 5, 91, 201, 99, 44, 253, 7, 202, 200, 84, 124, 48, 80, 144, 250, 52, 248, 173, 26, 201, 173, 67, 166, 16, 189, 73, 203, 12}
var ovSampleCrypt2 = []byte{80, 100, 224, 45, 159, 27, 166, 162, 220, 15, 0, 0, 1, 102, 240, 100, 162, 53, 85, 10, 213, 183, 32, 34, 176, 186, 16, 66, 59, 48, 128, 24, 240, 143, 116, 59, 133, 18, 152, 241, 84, 81, 95, 195, 181, 88, 112, 148, 217, 127, 200, 222, 197, 88, 164, 28, 107, 86, 207, 197, 209, 221, 164, 80, 171, 230, 143, 32, 189, 129, 209, 246, 157, 23, 155, 107, 122, 41, 192, 175, 0, 239, 130, 80, 3, 10, 3, 80, 236, 82, 162, 24, 174, 184, 80, 34, 73, 25, 35, 247, 91, 125, 240, 70, 159, 28, 171, 111, 245, 229, 204, 105, 210, 202, 123, 249, 119, 202, 0, 151, 180, 18, 173, 109, 189, 216, 146, 237, 155, 181, 66, 24, 78, 205, 120, 241, 12, 188, 12, 125, 136, 5, 205, 79, 12, 105, 119, 3, 77, 124, 249, 155, 221, 147, 86, 171, 177, 254, 152, 101, 26, 97, 10, 92, 179, 188, 86, 227, 156, 243, 201, 73, 21, 245, 241, 18, 20, 73, 229, 120, 252, 94, 39, 122, 99, 171, 22, 176, 114, 57, 206, 7, 45, 114, 46, 79, 209, 43, 33, 78, 106, 67, 73, 253, 158, 171, 236, 129, 99, 128, 142, 174, 178, 138, 40, 214, 46, 254, 78, 158, 142, 228, 193, 208, 106, 197, 156, 167, 34, 214, 205, 110, 74, 190, 49, 143, 32, 161, 244, 72, 89, 122, 84, 151, 65, 50, 69, 150, 98, 109, 67, 228, 167, 96, 169, 117, 252, 239, 94, 174, 54, 250, 88, 209, 213, 105, 94, 1, 62, 41, 242, 79, 196, 132, 80, 12, 96, 174, 75, 204, 242, 175, 16, 7, 10, 249, 188, 48, 6, 226, 58, 152, 189, 131, 126, 127, 226, 242, 133, 143, 231, 47, 106, 190, 4, 178, 193, 235, 189, 37, 254, 151, 70, 123, 171, 153, 6, 156, 198, 231, 189, 43, 71, 236, 193, 51, 77, 5, 194, 112, 196, 247, 210, 240, 214, 6, 125, 150, 245, 33, 36, 58, 31, 74, 34, 173, 115, 223, 254, 58, 163, 1, 43}

const ovSampleServerKey = "U2hihe8H77pInpRzMEWNZ/NwM1CBSSVSw5HyXT7/+1pspISJzKBiECs+LRvE6QlwgKm606H1wLv0defgJRNU1UG1fi25oMPqjFcYybU+wOgY8eX6OWM0EWI6d2XaL6Neu1E9fMGDAWnzQFsFZhMQH80xv0kzzLm13UjL7lrdQnM="
const ovSampleClientKey = "HZVyTZ3S2YMR9UFUei+kWmNcCaxxT31StqhozQFXVQ41WK203PFtunbuA7HZNPaBLQbyC3aaxwGcEsqW1Jnm/3WptcPWFYhFGhW+H37x2howQyAGj6IIsjZQyS9gwYgGr8bVNTZIywz3hw+KLRCAzkhTqk6ONen1wf5rewu03g2RNq/suLU6V31OTDOxeyb1WkUA25Ych7le6FJzO8YqI5jOosokID3ueT05vCdMIDa6FsHR3BmPjX2OYLquV+wBF7IBykKcxrCvrT2Qf/tBpv7PtUkKx6pCApKiUuPxLALMxqv3ATa7vrCB8qZQWmO4dRY40ORYZ622MiqCDmDFGKQca1bPxdHdpFCr5o8gvYHR9p0Xm2t6KcCvAO+CUAMKA1DsUqIYrrhQIkkZI/dbffBGnxyrb/XlzGnSynv5d8oAl7QSrW292JLtm7VCGE7NePEMvAx9iAXNTwxpdwNNfPmb3ZNWq7H+mGUaYQpcs7xW45zzyUkV9fESFEnlePxeJ3pjqxawcjnOBy1yLk/RKyFOakNJ/Z6r7IFjgI6usooo1i7+Tp6O5MHQasWcpyLWzW5KvjGPIKH0SFl6VJdBMkWWYm1D5KdgqXX8716uNvpY0dVpXgE+KfJPxIRQDGCuS8zyrxAHCvm8MAbiOpi9g35/4vKFj+cvar4EssHrvSX+l0Z7q5kGnMbnvStH7MEzTQXCcMT30vDWBn2W9SEkOh9KIq1z3/46owEr"

// ovSelfCheck re-creates the authentication tags / ciphertexts of the sample packets with the harness's code.
func ovSelfCheck() error {
	gk, _ := hex.DecodeString(ovSampleGroupKeyHex)
	for name, c := range map[string]struct {
		pkt []byte
		hf  func() hash.Hash
	}{"auth-sha1": {ovSampleAuthSHA1, sha1.New}, "auth-sha512": {ovSampleAuthSHA512, sha512.New}} {
		p := c.pkt
		size := c.hf().Size()
		if len(p) != 1+8+size+4+4+1+4 {
			return fmt.Errorf("%s: unexpected sample length %d", name, len(p))
		}
		mac := p[9 : 9+size]
		rest := p[9+size:]
		in := append(append([]byte{}, rest[:8]...), p[0])
		in = append(in, p[1:9]...)
		in = append(in, rest[8:]...)
		if got := ovHMAC(c.hf, gk[192:256][:min(size, 64)], in); !bytes.Equal(got, mac) {
			return fmt.Errorf("%s: harness HMAC layout does not reproduce the sample packet", name)
		}
	}
	{
		p := ovSampleCrypt
		body := ovCryptBody(p[0], p[1:9], binary.BigEndian.Uint32(p[9:13]), binary.BigEndian.Uint32(p[13:17]), 0, 0, gk, false)
		if !bytes.Equal(append([]byte{p[0]}, body...), p) {
			return fmt.Errorf("crypt: harness tls-crypt construction does not reproduce the sample packet")
		}
	}
	{
		p := ovSampleCrypt2
		srv, _ := base64.StdEncoding.DecodeString(ovSampleServerKey)
		ck, _ := base64.StdEncoding.DecodeString(ovSampleClientKey)
		kc, wkc := ck[:256], ck[256:]
		if !bytes.Equal(p[54:], wkc) {
			return fmt.Errorf("crypt2: sample packet does not end with the sample client key's WKc")
		}
		if w := ovWrap(kc, nil, srv); !bytes.Equal(w, wkc) {
			// the sample key may carry metadata: recover it by decrypting with the harness's routine
			plain := ovCTR(srv[0:32], wkc[:16], wkc[32:len(wkc)-2])
			if !bytes.Equal(plain[:256], kc) {
				return fmt.Errorf("crypt2: harness WKc decryption does not recover Kc")
			}
			if w2 := ovWrap(kc, plain[256:], srv); !bytes.Equal(w2, wkc) {
				return fmt.Errorf("crypt2: harness WKc construction does not reproduce the sample client key")
			}
		}
		pl := ovCTR(kc[128:160], p[17:33], p[49:54])
		body := ovCryptBody(p[0], p[1:9], binary.BigEndian.Uint32(p[9:13]), binary.BigEndian.Uint32(p[13:17]), pl[0], binary.BigEndian.Uint32(pl[1:]), kc, false)
		if !bytes.Equal(append([]byte{p[0]}, body...), p[:54]) {
			return fmt.Errorf("crypt2: harness tls-crypt-v2 construction does not reproduce the sample packet")
		}
	}
	_ = sha256.New
	return nil
}

func init() {
	register("ov-selfcheck", "the harness's OpenVPN encoder against packets produced by a real OpenVPN", func(args []string) error {
		if err := ovSelfCheck(); err != nil {
			return err
		}
		fmt.Println("ov-selfcheck ok")
		return nil
	})
}
