package main

import (
	"encoding/json"
	"flag"
	"fmt"
	"math/rand"
	"os"
	"reflect"
	"runtime"
	"sync"
	"sync/atomic"

	_ "github.com/mholt/caddy-l4/modules/l4echo"
	_ "github.com/mholt/caddy-l4/modules/l4proxyprotocol"
	_ "github.com/mholt/caddy-l4/modules/l4subroute"
	_ "github.com/mholt/caddy-l4/modules/l4tee"
	_ "github.com/mholt/caddy-l4/modules/l4throttle"

	"verifharness/vh"
)

type behaviour struct {
	Cfg     vh.RouterCfg     `json:"cfg"`
	Slen    int              `json:"slen"`
	EndKind string           `json:"endKind"`
	Hist    []map[string]any `json:"hist"`
	Amb     bool             `json:"amb"`
}

// traceOut is one line for L4RouterTrace.tla
type traceOut struct {
	ID    string        `json:"id"`
	Cfg   *vh.RouterCfg `json:"cfg"`
	Hist  []vh.Ev       `json:"hist"`
	Limit int           `json:"limit"`
	Chunk int           `json:"chunk"`
	Note  string        `json:"note,omitempty"`
	Run   any           `json:"run,omitempty"`
}

func normHist(h []map[string]any) []string {
	// JSON numbers arrive as float64; re-marshal through canonical form. The Buf observation (largest matching
	// buffer) is not part of the model's history: it is judged separately (bufOK / clause B3).
	out := make([]string, 0, len(h))
	for _, e := range h {
		if e["e"] == "Buf" {
			continue
		}
		out = append(out, vh.CanonEv(e))
	}
	return out
}

// bufOK: the largest matching buffer stayed within the limit plus one prefetch chunk
func bufOK(h []vh.Ev) bool {
	for _, e := range h {
		if e["e"] == "Buf" && e["n"].(int) > 8192+2048-1 {
			return false
		}
	}
	return true
}

func toGeneric(h []vh.Ev) []map[string]any {
	b, _ := json.Marshal(h)
	var g []map[string]any
	json.Unmarshal(b, &g)
	return g
}

func pullsOf(h []map[string]any) []int {
	var p []int
	for _, e := range h {
		if e["e"] == "Pull" {
			p = append(p, int(e["n"].(float64)))
		}
	}
	return p
}

func init() {
	register("router-replay", "replay TLC behaviours of L4Router on the real RouteList.Compile", func(args []string) error {
		fs := flag.NewFlagSet("router-replay", flag.ExitOnError)
		in := fs.String("in", "", "behaviours (NDJSON, one TLC terminal state per line)")
		out := fs.String("out", "", "traces that are not identical to their TLC-checked prediction (NDJSON for L4RouterTrace)")
		sum := fs.String("summary", "", "summary JSON")
		scale := fs.Int("scale", 1024, "bytes per abstract unit")
		reps := fs.Int("reps", 1, "provision and run each behaviour this many times (the AND-order of a matcher set is re-drawn by every provision)")
		fs.Parse(args)
		lw, err := vh.NewLineWriter(*out)
		if err != nil {
			return err
		}
		var total, same, differ, ambDiffer, panics, secondDiffer int64
		var mu sync.Mutex
		var samples []any
		err = vh.ReadLines(*in, runtime.NumCPU(), func(i int, line []byte) {
			var b behaviour
			if err := json.Unmarshal(line, &b); err != nil {
				panic(fmt.Sprintf("line %d: %v", i, err))
			}
			pred := normHist(b.Hist)
			for rep := 0; rep < *reps; rep++ {
				run := &vh.RouterRun{Cfg: &b.Cfg, Scale: *scale, Slen: b.Slen, EndKind: b.EndKind, Pulls: pullsOf(b.Hist), Tag: int64(i), Second: true}
				hist, _, err := vh.RunRouter(run)
				if err != nil {
					panic(fmt.Sprintf("line %d: %v", i, err))
				}
				atomic.AddInt64(&total, 1)
				// a second, identical connection through the same compiled route list must be routed by the same rules:
				// identical history = covered by the judgement of the first, otherwise judged on its own
				if !reflect.DeepEqual(normHist(toGeneric(run.SecondHist)), normHist(toGeneric(hist))) {
					atomic.AddInt64(&secondDiffer, 1)
					lw.Write(traceOut{ID: fmt.Sprintf("replay:%d:%d:second", i, rep), Cfg: vh.ScaleCfg(&b.Cfg, *scale), Hist: run.SecondHist,
						Limit: 8192, Chunk: 2048, Note: "second connection through the same compiled route list; differs from the first",
						Run: map[string]any{"slen": b.Slen * *scale, "endKind": b.EndKind, "predicted": b.Hist, "scale": *scale, "ambiguous": b.Amb}})
				}
				scaled, ok := vh.ScaleHist(hist, *scale)
				if ok && bufOK(hist) && reflect.DeepEqual(normHist(toGeneric(scaled)), pred) {
					atomic.AddInt64(&same, 1)
					if i%20011 == 0 && rep == 0 {
						mu.Lock()
						if len(samples) < 5 {
							samples = append(samples, map[string]any{"cfg": b.Cfg, "slen": b.Slen, "endKind": b.EndKind, "hist": b.Hist})
						}
						mu.Unlock()
					}
					continue
				}
				atomic.AddInt64(&differ, 1)
				if b.Amb {
					atomic.AddInt64(&ambDiffer, 1)
				}
				for _, e := range hist {
					if e["e"] == "Panic" {
						atomic.AddInt64(&panics, 1)
					}
				}
				lw.Write(traceOut{ID: fmt.Sprintf("replay:%d:%d", i, rep), Cfg: vh.ScaleCfg(&b.Cfg, *scale), Hist: hist,
					Limit: 8192, Chunk: 2048, Note: "differs from the TLC-checked prediction",
					Run: map[string]any{"slen": b.Slen * *scale, "endKind": b.EndKind, "predicted": b.Hist, "scale": *scale, "ambiguous": b.Amb}})
			}
		})
		if err != nil {
			return err
		}
		if err := lw.Close(); err != nil {
			return err
		}
		return writeJSON(*sum, map[string]any{"replayed": total, "identical_to_prediction": same, "different": differ,
			"different_and_ambiguous": ambDiffer, "second_connection_different": secondDiffer, "panics": panics, "samples": samples})
	})

	register("router-one", "re-run one recorded router trace (a replay file) on the real code", func(args []string) error {
		fs := flag.NewFlagSet("router-one", flag.ExitOnError)
		in := fs.String("in", "", "replay file written by bin/check")
		out := fs.String("out", "", "recorded trace (NDJSON for L4RouterTrace)")
		fs.Parse(args)
		raw, err := os.ReadFile(*in)
		if err != nil {
			return err
		}
		var rp struct {
			Replay struct {
				ID  string       `json:"id"`
				Cfg vh.RouterCfg `json:"cfg"`
				Run struct {
					Slen      int              `json:"slen"`
					EndKind   string           `json:"endKind"`
					Pulls     []int            `json:"pulls"`
					Predicted []map[string]any `json:"predicted"`
					Scale     int              `json:"scale"`
				} `json:"run"`
			} `json:"replay"`
		}
		if err := json.Unmarshal(raw, &rp); err != nil {
			return err
		}
		r := rp.Replay
		pulls := r.Run.Pulls
		if r.Run.Predicted != nil {
			for _, p := range pullsOf(r.Run.Predicted) {
				pulls = append(pulls, p*r.Run.Scale)
			}
		}
		// the stored configuration and run are in bytes
		hist, _, err := vh.RunRouter(&vh.RouterRun{Cfg: &r.Cfg, Scale: 1, Slen: r.Run.Slen, EndKind: r.Run.EndKind, Pulls: pulls, Tag: 0})
		if err != nil {
			return err
		}
		lw, err := vh.NewLineWriter(*out)
		if err != nil {
			return err
		}
		lw.Write(traceOut{ID: "rerun:" + r.ID, Cfg: &r.Cfg, Hist: hist, Limit: 8192, Chunk: 2048,
			Run: map[string]any{"slen": r.Run.Slen, "endKind": r.Run.EndKind, "pulls": pulls}})
		return lw.Close()
	})

	register("router-random", "seeded random route lists / streams / schedules on the real RouteList.Compile", func(args []string) error {
		fs := flag.NewFlagSet("router-random", flag.ExitOnError)
		out := fs.String("out", "", "recorded traces (NDJSON for L4RouterTrace)")
		sum := fs.String("summary", "", "summary JSON")
		seed := fs.Int64("seed", 1, "seed")
		n := fs.Int("n", 300, "number of instances")
		fs.Parse(args)
		lw, err := vh.NewLineWriter(*out)
		if err != nil {
			return err
		}
		var wg sync.WaitGroup
		var nontrivial int64
		var mu sync.Mutex
		var samples []any
		nw := runtime.NumCPU()
		for w := 0; w < nw; w++ {
			wg.Add(1)
			go func(w int) {
				defer wg.Done()
				for i := w; i < *n; i += nw {
					rng := rand.New(rand.NewSource(*seed*1000003 + int64(i)))
					run := randomRouterRun(rng, int64(i))
					hist, _, err := vh.RunRouter(run)
					if err != nil {
						panic(fmt.Sprintf("instance %d: %v", i, err))
					}
					handles := 0
					for _, e := range hist {
						if e["e"] == "Handle" {
							handles++
						}
					}
					if handles > 0 {
						atomic.AddInt64(&nontrivial, 1)
					}
					t := traceOut{ID: fmt.Sprintf("random:%d:%d", *seed, i), Cfg: run.Cfg, Hist: hist, Limit: 8192, Chunk: 2048,
						Run: map[string]any{"slen": run.Slen, "endKind": run.EndKind, "pulls": run.Pulls}}
					lw.Write(t)
					if i < 2 {
						mu.Lock()
						samples = append(samples, t)
						mu.Unlock()
					}
				}
			}(w)
		}
		wg.Wait()
		if err := lw.Close(); err != nil {
			return err
		}
		return writeJSON(*sum, map[string]any{"instances": *n, "with_handled_route": nontrivial, "samples": samples})
	})
}

var boundarySizes = []int{0, 1, 2, 3, 7, 100, 1000, 2047, 2048, 2049, 4095, 4096, 4097, 6000, 8191, 8192, 8193, 10240}

func pick(rng *rand.Rand, xs []int) int { return xs[rng.Intn(len(xs))] }

func randomMatcher(rng *rand.Rand, depth int) vh.Matcher {
	if depth < 1 && rng.Intn(6) == 0 {
		var sets [][]vh.Matcher
		for s := 0; s < 1+rng.Intn(2); s++ {
			var set []vh.Matcher
			for m := 0; m < 1+rng.Intn(2); m++ {
				set = append(set, randomMatcher(rng, depth+1))
			}
			sets = append(sets, set)
		}
		return vh.Matcher{K: "not", At: 0, V: "Y", W: "Y", Sub: sets}
	}
	v := "Y"
	switch rng.Intn(10) {
	case 0, 1, 2, 3:
		v = "N"
	case 4:
		if rng.Intn(3) == 0 {
			v = "E"
		}
	}
	at := pick(rng, boundarySizes)
	if rng.Intn(2) == 0 {
		at = rng.Intn(9000)
	}
	if at > 9000 {
		at = 9000
	}
	m := vh.Matcher{K: "thr", At: at, V: v, W: v, Sub: [][]vh.Matcher{}}
	if rng.Intn(4) == 0 {
		// content matcher: a different verdict until some prefix has been consumed
		m.From = 1 + rng.Intn(3000)
		m.W = []string{"N", "N", "Y"}[rng.Intn(3)]
	}
	return m
}

// directedRouterRun: instance families that random choice hardly ever hits (every tenth instance is one of them).
//
//	drain:   a handler consumes EXACTLY the bytes the first matching round prefetched (the client pauses there), then a
//	         route that needs several more chunks, the two rounds together exceeding the matching limit - the second
//	         round has the whole limit to itself
//	noterr:  a `not` over a matcher that fails: matching ends by the error, the route does not run
//	notfull: a `not` over a matcher that needs more than the matching limit holds: matching ends by buffer exhaustion
//	emptyset, teelast: see below
func directedRouterRun(rng *rand.Rand, tag int64) *vh.RouterRun {
	thr := func(at int, v string) vh.Matcher {
		return vh.Matcher{K: "thr", At: at, V: v, W: v, Sub: [][]vh.Matcher{}}
	}
	switch (tag / 10) % 5 {
	case 0:
		n := 2048 * (1 + rng.Intn(3))
		a2 := 8192 - n + 1 + rng.Intn(n-1)
		if a2 > 8000 {
			a2 = 8000
		}
		routes := []vh.RouteSpec{
			{Sets: [][]vh.Matcher{{thr(n, "Y")}}, Hs: []vh.HandlerSpec{{K: "eat", N: n}}},
			{Sets: [][]vh.Matcher{{thr(a2, "Y")}}, Hs: []vh.HandlerSpec{{K: "term"}}},
		}
		pulls := []int{}
		for k := 0; k < n/2048; k++ {
			pulls = append(pulls, 2048)
		}
		rest := []int{2048, 1000, 700, 2047}[rng.Intn(4)]
		for sum := 0; sum < a2+100; sum += rest {
			pulls = append(pulls, rest)
		}
		return &vh.RouterRun{Cfg: &vh.RouterCfg{Lists: [][]vh.RouteSpec{routes}}, Scale: 1, Slen: n + a2 + 100, EndKind: "eof", Pulls: pulls, Tag: tag}
	case 1:
		at := 1 + rng.Intn(3000)
		routes := []vh.RouteSpec{
			// (the only route: a later route that matches would be taken while this one is still undecided)
			{Sets: [][]vh.Matcher{{{K: "not", V: "Y", W: "Y", Sub: [][]vh.Matcher{{thr(at, "E")}}}}}, Hs: []vh.HandlerSpec{{K: "term"}}},
		}
		return &vh.RouterRun{Cfg: &vh.RouterCfg{Lists: [][]vh.RouteSpec{routes}}, Scale: 1, Slen: at + rng.Intn(500), EndKind: "eof", Pulls: []int{1 + rng.Intn(at), 2048, 2048}, Tag: tag}
	case 3:
		// emptyset: an EMPTY matcher set next to one that says no is the route's match-everything alternative
		at := 1 + rng.Intn(100)
		routes := []vh.RouteSpec{
			{Sets: [][]vh.Matcher{{thr(at, "N")}, {}}, Hs: []vh.HandlerSpec{{K: []string{"term", "pass"}[rng.Intn(2)]}}},
			{Sets: [][]vh.Matcher{{thr(at+5, "Y")}}, Hs: []vh.HandlerSpec{{K: "term"}}},
		}
		return &vh.RouterRun{Cfg: &vh.RouterCfg{Lists: [][]vh.RouteSpec{routes}}, Scale: 1, Slen: at + 300, EndKind: "eof", Pulls: []int{at + 20, 2048}, Tag: tag}
	case 4:
		// teelast: tee is the LAST handler of a non-terminal route; matching goes on, on the connection the tee made,
		// and needs another segment
		at := 50 + rng.Intn(2000)
		routes := []vh.RouteSpec{
			{Sets: [][]vh.Matcher{}, Hs: []vh.HandlerSpec{{K: "tee"}}},
			{Sets: [][]vh.Matcher{{thr(at, "Y")}}, Hs: []vh.HandlerSpec{{K: "term"}}},
		}
		return &vh.RouterRun{Cfg: &vh.RouterCfg{Lists: [][]vh.RouteSpec{routes}}, Scale: 1, Slen: at + 500, EndKind: "eof", Pulls: []int{at / 2, 2048, 2048}, Tag: tag}
	default:
		routes := []vh.RouteSpec{
			{Sets: [][]vh.Matcher{{{K: "not", V: "Y", W: "Y", Sub: [][]vh.Matcher{{thr(11000+rng.Intn(3000), "Y")}}}}}, Hs: []vh.HandlerSpec{{K: "term"}}},
		}
		return &vh.RouterRun{Cfg: &vh.RouterCfg{Lists: [][]vh.RouteSpec{routes}}, Scale: 1, Slen: 20000, EndKind: "silent", Pulls: []int{2048, 2048, 2048, 2048, 2048, 2048, 2048}, Tag: tag}
	}
}

func randomRouterRun(rng *rand.Rand, tag int64) *vh.RouterRun {
	if tag%10 == 7 {
		return directedRouterRun(rng, tag)
	}
	cfg := &vh.RouterCfg{Lists: [][]vh.RouteSpec{nil}}
	var build func(L int, depth int)
	build = func(L int, depth int) {
		nr := rng.Intn(6)
		if L == 1 {
			nr = 1 + rng.Intn(8)
		}
		routes := []vh.RouteSpec{}
		for r := 0; r < nr; r++ {
			rs := vh.RouteSpec{Sets: [][]vh.Matcher{}, Hs: []vh.HandlerSpec{}}
			for s := 0; s < rng.Intn(4); s++ {
				set := []vh.Matcher{}
				hasNot := false
				for m := 0; m < 1+rng.Intn(3); m++ {
					mm := randomMatcher(rng, 0)
					if mm.K == "not" {
						if hasNot {
							continue
						}
						hasNot = true
					}
					set = append(set, mm)
				}
				rs.Sets = append(rs.Sets, set)
			}
			nh := 1 + rng.Intn(3)
			for h := 0; h < nh; h++ {
				last := h == nh-1
				switch k := rng.Intn(12); {
				case k < 2 && last:
					rs.Hs = append(rs.Hs, vh.HandlerSpec{K: "term"})
				case k < 4 && last && depth < 3:
					cfg.Lists = append(cfg.Lists, nil)
					sub := len(cfg.Lists)
					rs.Hs = append(rs.Hs, vh.HandlerSpec{K: "sub", N: sub})
					build(sub, depth+1)
				case k < 7:
					n := pick(rng, boundarySizes)
					if rng.Intn(2) == 0 {
						n = 1 + rng.Intn(3000)
					}
					rs.Hs = append(rs.Hs, vh.HandlerSpec{K: "eat", N: n})
				case k < 9:
					rs.Hs = append(rs.Hs, vh.HandlerSpec{K: "wrap"})
				default:
					rs.Hs = append(rs.Hs, vh.HandlerSpec{K: "pass"})
				}
			}
			routes = append(routes, rs)
		}
		cfg.Lists[L-1] = routes
	}
	build(1, 0)
	slen := pick(rng, boundarySizes)
	switch rng.Intn(4) {
	case 0:
		slen = rng.Intn(5 * 8192)
	case 1:
		slen = rng.Intn(9000)
	}
	end := "eof"
	if rng.Intn(2) == 0 {
		end = "silent"
	}
	pulls := []int{}
	mode := rng.Intn(4)
	for sum := 0; sum < slen && len(pulls) < 64; {
		var p int
		switch mode {
		case 0:
			p = 1 + rng.Intn(3) // trickle
		case 1:
			p = 2048
		case 2:
			p = 1 + rng.Intn(2048)
		default:
			p = pick(rng, []int{1, 2047, 2048, 1000, 5, 2048, 2048})
		}
		pulls = append(pulls, p)
		sum += p
	}
	return &vh.RouterRun{Cfg: cfg, Scale: 1, Slen: slen, EndKind: end, Pulls: pulls, Tag: tag}
}
