package main

import (
	"encoding/json"
	"flag"
	"fmt"
	"time"

	"github.com/caddyserver/caddy/v2"
	"github.com/mholt/caddy-l4/modules/l4proxy"

	"verifharness/vh"
)

// peers-run: configuration loads against the process-wide peers pool of the proxy handler (spec L4Peers /
// L4PeersTrace; beyond the listed properties). Handlers are loaded and unloaded through Caddy's module loader, which
// calls Cleanup on unload and after a failed Provision - exactly what the model assumes.

type peersStep struct {
	Op     string     `json:"op"` // "load" | "unload" | "wait" (several active-check intervals) | "up" (the backend starts accepting)
	H      string     `json:"h"`
	Dial   [][]string `json:"dial,omitempty"` // per upstream
	Active bool       `json:"active,omitempty"`
}

const peersActiveInterval = 40 * time.Millisecond

func runPeers(id string, steps []peersStep, addrs []string, backend *refusedPort) (map[string]any, error) {
	base, err := vh.CaddyContext()
	if err != nil {
		return nil, err
	}
	type live struct {
		h      *l4proxy.Handler
		cancel func()
		dial   []string
		active bool
	}
	up := map[string]bool{}
	if backend != nil {
		up[backend.Addr()] = false
	}
	handlers := map[string]*live{}
	var hist []map[string]any
	for _, st := range steps {
		ev := map[string]any{"op": st.Op, "h": st.H, "ok": true}
		switch st.Op {
		case "load":
			var ups []map[string]any
			var flat []string
			for _, d := range st.Dial {
				ups = append(ups, map[string]any{"dial": d})
				flat = append(flat, d...)
			}
			cfg := map[string]any{"upstreams": ups}
			if st.Active {
				cfg["health_checks"] = map[string]any{"active": map[string]any{"interval": peersActiveInterval.String(), "timeout": "200ms"}}
			}
			raw, _ := json.Marshal(cfg)
			ctx, cancel := caddy.NewContext(base)
			mod, err := ctx.LoadModuleByID("layer4.handlers.proxy", raw)
			if err != nil {
				ev["ok"], ev["err"] = false, err.Error()
				cancel()
			} else {
				handlers[st.H] = &live{h: mod.(*l4proxy.Handler), cancel: cancel, dial: flat, active: st.Active}
			}
		case "unload":
			if l, ok := handlers[st.H]; ok {
				l.cancel() // cancelling the context unloads its modules: Cleanup
				delete(handlers, st.H)
			}
		case "wait":
			time.Sleep(6 * peersActiveInterval)
		case "up":
			if err := backend.Up(); err != nil {
				return nil, err
			}
			up[backend.Addr()] = true
		}
		// the state after the step
		refs := map[string]int{}
		pool := map[string]string{}
		for _, a := range addrs {
			n, _ := l4proxy.VerifPeerRefs(a)
			refs[a] = n
			pool[a] = l4proxy.VerifPoolPeerID(a)
		}
		holds := map[string]any{}
		uses := map[string]any{}
		down := map[string]any{}
		active := []string{}
		for name, l := range handlers {
			holds[name] = l4proxy.VerifHandlerPeerIDs(l.h)
			uses[name] = l.dial
			d := map[string]bool{}
			_, _, uh := l4proxy.VerifHandlerCounters(l.h)
			for i, u := range l.h.Upstreams {
				for j, a := range u.Dial {
					if i < len(uh) && j < len(uh[i]) {
						d[a] = d[a] || uh[i][j]
					}
				}
			}
			down[name] = d
			if l.active {
				active = append(active, name)
			}
		}
		upNow := map[string]bool{}
		for a, v := range up {
			upNow[a] = v
		}
		ev["refs"], ev["pool"], ev["holds"], ev["uses"], ev["down"], ev["active"], ev["up"] = refs, pool, holds, uses, down, active, upNow
		hist = append(hist, ev)
	}
	for _, l := range handlers {
		l.cancel()
	}
	return map[string]any{"id": id, "hist": hist}, nil
}

func init() {
	register("peers-run", "configuration loads against the process-wide peers pool (L4Peers; beyond the listed properties)", func(args []string) error {
		fs := flag.NewFlagSet("peers-run", flag.ExitOnError)
		out := fs.String("out", "", "observations (NDJSON for L4PeersTrace)")
		fs.Parse(args)
		lw, err := vh.NewLineWriter(*out)
		if err != nil {
			return err
		}
		x, y := "127.0.0.1:19001", "127.0.0.1:19002"
		bad := "127.0.0.1:19100-19105" // a port range: provisioning this upstream fails
		scen := map[string][]peersStep{
			"reload": {{Op: "load", H: "h1", Dial: [][]string{{x}}}, {Op: "load", H: "h3", Dial: [][]string{{x, y}}}, {Op: "unload", H: "h1"}, {Op: "unload", H: "h3"}},
			"twice":  {{Op: "load", H: "h1", Dial: [][]string{{y}, {x}, {x}}}, {Op: "load", H: "h3", Dial: [][]string{{x}}}, {Op: "unload", H: "h1"}, {Op: "unload", H: "h3"}},
			"failed-load": {{Op: "load", H: "h1", Dial: [][]string{{x}}}, {Op: "load", H: "h2", Dial: [][]string{{bad}, {x}}},
				{Op: "load", H: "h3", Dial: [][]string{{x, y}}}, {Op: "unload", H: "h1"}, {Op: "unload", H: "h3"}},
			"failed-load-late": {{Op: "load", H: "h1", Dial: [][]string{{x}}}, {Op: "load", H: "h2", Dial: [][]string{{x}, {bad}}},
				{Op: "load", H: "h3", Dial: [][]string{{x}}}, {Op: "unload", H: "h1"}, {Op: "unload", H: "h3"}},
		}
		for _, name := range []string{"reload", "twice", "failed-load", "failed-load-late"} {
			tr, err := runPeers(fmt.Sprintf("peers:%s", name), scen[name], []string{x, y}, nil)
			if err != nil {
				return err
			}
			lw.Write(tr)
		}
		// a reload that drops (keeps) the active health checks while the backend is down; the backend then returns
		for _, keep := range []bool{false, true} {
			b, err := newRefusedPort()
			if err != nil {
				return err
			}
			z := b.Addr()
			name := map[bool]string{false: "reload-drops-active", true: "reload-keeps-active"}[keep]
			steps := []peersStep{{Op: "load", H: "h1", Dial: [][]string{{z}}, Active: true}, {Op: "wait"},
				{Op: "load", H: "h3", Dial: [][]string{{z}}, Active: keep}, {Op: "unload", H: "h1"}, {Op: "up"}, {Op: "wait"}, {Op: "unload", H: "h3"}}
			tr, err := runPeers("peers:"+name, steps, []string{z}, b)
			b.Close()
			if err != nil {
				return err
			}
			lw.Write(tr)
		}
		return lw.Close()
	})
}
