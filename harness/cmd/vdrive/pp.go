package main

import (
	"bytes"
	"context"
	"encoding/binary"
	"encoding/json"
	"flag"
	"fmt"
	"io"
	"net"
	"os"
	"strconv"
	"strings"
	"sync"
	"time"

	"github.com/caddyserver/caddy/v2"
	"github.com/mholt/caddy-l4/layer4"
	"github.com/mholt/caddy-l4/modules/l4proxy"
	"go.uber.org/zap"

	"verifharness/vh"
)

type ppCase struct {
	Kind    string `json:"kind"`
	Ver     any    `json:"ver"` // 1|2 (recv) or "v1"|"v2" (send)
	Fam     string `json:"fam"`
	Addr    int    `json:"addr"`
	Peer    string `json:"peer"`
	Split   string `json:"split"`
	Pre     string `json:"pre"`
	Payload int    `json:"payload"`
	Via     string `json:"via"`
	Peers   int    `json:"peers"`
	Layout  string `json:"layout"` // recv: "nested" (address matcher in a subroute behind the handler) | "flat" (three routes at one level)
}

// address table: boundary values per family (index 1..3)
var ppAddrs = map[string][][2]*net.TCPAddr{
	"TCP4": {
		{{IP: net.IPv4(1, 2, 3, 4).To4(), Port: 1}, {IP: net.IPv4(5, 6, 7, 8).To4(), Port: 2}},
		{{IP: net.IPv4(10, 0, 0, 1).To4(), Port: 80}, {IP: net.IPv4(192, 168, 255, 254).To4(), Port: 443}},
		{{IP: net.IPv4(255, 255, 255, 255).To4(), Port: 65535}, {IP: net.IPv4(0, 0, 0, 1).To4(), Port: 65534}},
	},
	"TCP6": {
		{{IP: net.ParseIP("::1"), Port: 1}, {IP: net.ParseIP("::2"), Port: 2}},
		{{IP: net.ParseIP("2001:db8::ffff"), Port: 8080}, {IP: net.ParseIP("2001:db8:1:2:3:4:5:6"), Port: 443}},
		{{IP: net.ParseIP("ffff:ffff:ffff:ffff:ffff:ffff:ffff:ffff"), Port: 65535}, {IP: net.ParseIP("fe80::1"), Port: 65534}},
	},
}

var ppSig = []byte{0x0D, 0x0A, 0x0D, 0x0A, 0x00, 0x0D, 0x0A, 0x51, 0x55, 0x49, 0x54, 0x0A}

// ppEncode is the harness's own encoder, written from the haproxy PROXY protocol specification.
func ppEncode(ver int, fam string, src, dst *net.TCPAddr) []byte {
	if ver == 1 {
		switch fam {
		case "TCP4", "TCP6":
			return []byte(fmt.Sprintf("PROXY %s %s %s %d %d\r\n", fam, src.IP.String(), dst.IP.String(), src.Port, dst.Port))
		default:
			return []byte("PROXY UNKNOWN\r\n")
		}
	}
	h := append([]byte{}, ppSig...)
	switch fam {
	case "TCP4":
		h = append(h, 0x21, 0x11, 0, 12)
		h = append(h, src.IP.To4()...)
		h = append(h, dst.IP.To4()...)
	case "TCP6":
		h = append(h, 0x21, 0x21, 0, 36)
		h = append(h, src.IP.To16()...)
		h = append(h, dst.IP.To16()...)
	default: // LOCAL
		return append(h, 0x20, 0x00, 0, 0)
	}
	var p [4]byte
	binary.BigEndian.PutUint16(p[:], uint16(src.Port))
	binary.BigEndian.PutUint16(p[2:], uint16(dst.Port))
	return append(h, p[:]...)
}

// ppParse is the harness's own parser: returns version, src, dst (nil for UNKNOWN / LOCAL), header length.
func ppParse(b []byte) (ver string, src, dst *net.TCPAddr, n int, ok bool) {
	if bytes.HasPrefix(b, []byte("PROXY ")) {
		i := bytes.Index(b, []byte("\r\n"))
		if i < 0 || i > 107 {
			return "", nil, nil, 0, false
		}
		f := strings.Split(string(b[:i]), " ")
		if len(f) == 2 && f[1] == "UNKNOWN" {
			return "v1", nil, nil, i + 2, true
		}
		if len(f) != 6 || (f[1] != "TCP4" && f[1] != "TCP6") {
			return "", nil, nil, 0, false
		}
		sp, e1 := strconv.Atoi(f[4])
		dp, e2 := strconv.Atoi(f[5])
		sip, dip := net.ParseIP(f[2]), net.ParseIP(f[3])
		if e1 != nil || e2 != nil || sip == nil || dip == nil {
			return "", nil, nil, 0, false
		}
		return "v1", &net.TCPAddr{IP: sip, Port: sp}, &net.TCPAddr{IP: dip, Port: dp}, i + 2, true
	}
	if len(b) >= 16 && bytes.Equal(b[:12], ppSig) && b[12]>>4 == 2 {
		l := int(binary.BigEndian.Uint16(b[14:]))
		if len(b) < 16+l {
			return "", nil, nil, 0, false
		}
		switch b[13] {
		case 0x11:
			if l < 12 {
				return "", nil, nil, 0, false
			}
			return "v2", &net.TCPAddr{IP: net.IP(b[16:20]), Port: int(binary.BigEndian.Uint16(b[24:]))},
				&net.TCPAddr{IP: net.IP(b[20:24]), Port: int(binary.BigEndian.Uint16(b[26:]))}, 16 + l, true
		case 0x21:
			if l < 36 {
				return "", nil, nil, 0, false
			}
			return "v2", &net.TCPAddr{IP: net.IP(b[16:32]), Port: int(binary.BigEndian.Uint16(b[48:]))},
				&net.TCPAddr{IP: net.IP(b[32:48]), Port: int(binary.BigEndian.Uint16(b[50:]))}, 16 + l, true
		default:
			return "v2", nil, nil, 16 + l, true
		}
	}
	return "", nil, nil, 0, false
}

func sameAddr(a net.Addr, t *net.TCPAddr) bool {
	if a == nil || t == nil {
		return false
	}
	x, ok := a.(*net.TCPAddr)
	if !ok {
		// compare textually
		return a.String() == t.String()
	}
	return x.IP.Equal(t.IP) && x.Port == t.Port
}

// classify maps a concrete address to the symbolic vocabulary of the specification
func classify(a net.Addr, hdrSrc, hdrDst, sockRemote, sockLocal *net.TCPAddr) string {
	switch {
	case sameAddr(a, hdrSrc):
		return "hdr.src"
	case sameAddr(a, hdrDst):
		return "hdr.dst"
	case sameAddr(a, sockRemote):
		return "sock.remote"
	case sameAddr(a, sockLocal):
		return "sock.local"
	}
	if a == nil {
		return "nil"
	}
	return "other:" + a.String()
}

var (
	ppSockRemoteIn  = &net.TCPAddr{IP: net.IPv4(10, 77, 0, 5).To4(), Port: 51000}
	ppSockRemoteOut = &net.TCPAddr{IP: net.IPv4(172, 31, 9, 9).To4(), Port: 51001}
	ppSockLocal     = &net.TCPAddr{IP: net.IPv4(10, 77, 0, 1).To4(), Port: 7000}
)

func runPPRecv(c ppCase, idx int) (map[string]any, error) {
	ver := int(c.Ver.(float64))
	var src, dst *net.TCPAddr
	if t, ok := ppAddrs[c.Fam]; ok {
		src, dst = t[c.Addr-1][0], t[c.Addr-1][1]
	}
	hdr := ppEncode(ver, c.Fam, src, dst)
	payload := vh.MakeStream(int64(idx), c.Payload+8)[:c.Payload]
	stream := append(append([]byte{}, hdr...), payload...)
	rec := vh.NewRecorder(stream)
	sockRemote := ppSockRemoteIn // 10.77.0.5
	switch c.Peer {
	case "out1", "out2":
		sockRemote = ppSockRemoteOut
	case "inSpecific":
		sockRemote = &net.TCPAddr{IP: net.IPv4(10, 88, 1, 5).To4(), Port: 51002}
	case "in6":
		sockRemote = &net.TCPAddr{IP: net.ParseIP("2001:db8:77::5"), Port: 51003}
	case "out6":
		sockRemote = &net.TCPAddr{IP: net.ParseIP("2001:db9::5"), Port: 51004}
	}
	// segmentation of the stream into socket reads
	var pulls []int
	switch c.Split {
	case "hdr":
		pulls = []int{len(hdr)}
	case "mid":
		pulls = []int{len(hdr) / 2, len(hdr) - len(hdr)/2 + 1}
	case "byte":
		for i := 0; i < len(hdr)+2; i++ {
			pulls = append(pulls, 1)
		}
	}
	sc := &vh.ScriptConn{Rec: rec, Slen: len(stream), EndKind: "eof", Pulls: pulls, Start: time.Now(), Unit: time.Hour, Remote: sockRemote, Local: ppSockLocal}
	// how much an earlier matcher makes the router prefetch
	pre := 0
	switch c.Pre {
	case "part":
		pre = 5
	case "hdr":
		pre = len(hdr)
	case "hdr1":
		pre = len(hdr) + 1
	case "all":
		pre = len(stream)
	}
	if pre > len(stream) {
		pre = len(stream)
	}
	if pre > 8000 {
		pre = 8000
	}
	h := map[string]any{"handler": "proxy_protocol"}
	switch c.Peer {
	case "in1", "out1":
		h["allow"] = []string{"10.77.0.0/16"}
	case "inSpecific", "inBroad", "out2":
		h["allow"] = []string{"10.77.0.0/16", "10.88.1.0/24"}
	case "in6", "out6":
		h["allow"] = []string{"10.77.0.0/16", "2001:db8:77::/48"}
	}
	ripRange := "203.0.113.99/32"
	if src != nil {
		ripRange = src.IP.String()
	}
	lipRange := "203.0.113.98/32"
	if dst != nil {
		lipRange = dst.IP.String()
	}
	// one outer route (so that no later route can be chosen while its matcher is still undecided);
	// behind proxy_protocol a subroute holds a remote_ip matcher on the declared source and the consumer
	inner := []map[string]any{
		{"match": []map[string]any{{"remote_ip": map[string]any{"ranges": []string{ripRange}}}}, "handle": []map[string]any{{"handler": "verif_h", "k": "flag", "l": 7}}},
		// ... and a local_ip matcher on the declared destination
		{"match": []map[string]any{{"local_ip": map[string]any{"ranges": []string{lipRange}}}}, "handle": []map[string]any{{"handler": "verif_h", "k": "flag", "l": 8}}},
		{"handle": []map[string]any{{"handler": "verif_h", "k": "termraw", "l": 2, "r": 2}}},
	}
	route1 := map[string]any{"handle": []map[string]any{{"handler": "verif_h", "k": "mark", "l": 1, "r": 1}, h, {"handler": "verif_h", "k": "addrrec"},
		{"handler": "subroute", "routes": inner}}}
	if pre > 0 {
		route1["match"] = []map[string]any{{"verif_m0": map[string]any{"at": pre, "v": "Y", "w": "Y"}}}
	}
	routes := []map[string]any{route1}
	if c.Layout == "flat" {
		// the same at ONE level: the PROXY route (behind the proxy_protocol matcher), then the address route, then a route
		// that needs more data for a while; the address route is first evaluated on the socket's addresses (no) and
		// must be evaluated again once the header has been accepted
		routes = []map[string]any{
			{"match": []map[string]any{{"proxy_protocol": map[string]any{}}}, "handle": []map[string]any{{"handler": "verif_h", "k": "mark", "l": 1, "r": 1}, h, {"handler": "verif_h", "k": "addrrec"}}},
			{"match": []map[string]any{{"remote_ip": map[string]any{"ranges": []string{ripRange}}}}, "handle": []map[string]any{{"handler": "verif_h", "k": "flag", "l": 7}, {"handler": "verif_h", "k": "termraw", "l": 2, "r": 2}}},
			{"match": []map[string]any{{"verif_m0": map[string]any{"at": 13, "v": "N", "w": "N"}}}, "handle": []map[string]any{{"handler": "verif_h", "k": "termraw", "l": 3, "r": 3}}},
		}
	}
	raw, _ := json.Marshal(routes)
	var rl layer4.RouteList
	if err := json.Unmarshal(raw, &rl); err != nil {
		return nil, err
	}
	base, err := vh.CaddyContext()
	if err != nil {
		return nil, err
	}
	ctx, cancel := caddy.NewContext(base)
	defer cancel()
	if err := rl.Provision(ctx); err != nil {
		return nil, err
	}
	compiled := rl.Compile(zap.NewNop(), time.Hour, layer4.HandlerFunc(func(cx *layer4.Connection) error { return nil }))
	cx := layer4.WrapConnection(sc, make([]byte, 0, 2048), zap.NewNop())
	cx.SetVar(vh.RecKey, rec)
	var herr error
	panicked := ""
	func() {
		defer func() {
			if r := recover(); r != nil {
				panicked = fmt.Sprint(r)
			}
		}()
		herr = compiled.Handle(cx)
	}()
	obs := map[string]any{"start": -1, "hdrlen": len(hdr), "slen": len(stream), "got": 0, "intact": false,
		"remote": "none", "local": "none", "phRemote": "none", "phLocal": "none", "ripMatch": false, "lipMatch": false, "lipAsked": c.Layout != "flat", "panic": panicked}
	if herr != nil {
		obs["err"] = herr.Error()
	}
	for _, e := range rec.Snapshot() {
		switch e["e"] {
		case "Addr":
			obs["remote"] = classify(e["remote"].(net.Addr), src, dst, sockRemote, ppSockLocal)
			obs["local"] = classify(e["local"].(net.Addr), src, dst, sockRemote, ppSockLocal)
			if a, ok := e["phRemote"].(net.Addr); ok {
				obs["phRemote"] = classify(a, src, dst, sockRemote, ppSockLocal)
			}
			if a, ok := e["phLocal"].(net.Addr); ok {
				obs["phLocal"] = classify(a, src, dst, sockRemote, ppSockLocal)
			}
		case "Flag":
			if l, _ := e["l"].(int); l == 8 {
				obs["lipMatch"] = true
			} else {
				obs["ripMatch"] = true
			}
		case "Term":
			got := len(rec.Raw)
			start := len(stream) - got
			obs["got"], obs["start"] = got, start
			obs["intact"] = start >= 0 && bytes.Equal(rec.Raw, stream[start:])
		}
	}
	if os.Getenv("VERIF_DEBUG") != "" {
		for _, e := range rec.Snapshot() {
			fmt.Printf("DBG %v\n", e)
		}
		for _, e := range rec.Aux {
			fmt.Printf("AUX %v\n", e)
		}
	}
	return map[string]any{"id": fmt.Sprintf("pp:recv:%d", idx), "case": c, "obs": obs}, nil
}

func runPPSend(c ppCase, idx int) (map[string]any, error) {
	var src, dst *net.TCPAddr
	t := ppAddrs[c.Fam]
	src, dst = t[c.Addr-1][0], t[c.Addr-1][1]
	payload := vh.MakeStream(int64(idx), c.Payload+8)[:c.Payload]
	// upstream servers capture everything
	type up struct {
		ln   net.Listener
		got  bytes.Buffer
		done chan struct{}
	}
	var ups []*up
	var dials []string
	for u := 0; u < c.Peers; u++ {
		ln, err := net.Listen("tcp", "127.0.0.1:0")
		if err != nil {
			return nil, err
		}
		defer ln.Close()
		s := &up{ln: ln, done: make(chan struct{})}
		ups = append(ups, s)
		dials = append(dials, ln.Addr().String())
		go func(s *up) {
			defer close(s.done)
			cn, err := s.ln.Accept()
			if err != nil {
				return
			}
			io.Copy(&s.got, cn)
			cn.Close()
		}(s)
	}
	base, err := vh.CaddyContext()
	if err != nil {
		return nil, err
	}
	ctx, cancel := caddy.NewContext(base)
	defer cancel()
	hs := []map[string]any{}
	var stream []byte
	var sockRemote *net.TCPAddr
	if c.Via == "received" {
		// a proxy_protocol handler in front accepts a header declaring (src, dst)
		hs = append(hs, map[string]any{"handler": "proxy_protocol"})
		stream = append(ppEncode(2, c.Fam, src, dst), payload...)
	} else {
		stream = payload
	}
	hs = append(hs, map[string]any{"handler": "proxy", "proxy_protocol": c.Ver, "upstreams": []map[string]any{{"dial": dials}}})
	route := map[string]any{"handle": hs}
	if c.Pre == "part" {
		route["match"] = []map[string]any{{"verif_m0": map[string]any{"at": 3, "v": "Y", "w": "Y"}}}
	}
	raw, _ := json.Marshal([]map[string]any{route})
	var rl layer4.RouteList
	if err := json.Unmarshal(raw, &rl); err != nil {
		return nil, err
	}
	if err := rl.Provision(ctx); err != nil {
		return nil, err
	}
	compiled := rl.Compile(zap.NewNop(), 5*time.Second, layer4.HandlerFunc(func(cx *layer4.Connection) error { return nil }))
	// downstream: loopback TCP; for "direct" the effective addresses are the socket's
	dln, err := net.Listen("tcp", "127.0.0.1:0")
	if err != nil {
		return nil, err
	}
	defer dln.Close()
	cc, err := net.Dial("tcp", dln.Addr().String())
	if err != nil {
		return nil, err
	}
	sconn, err := dln.Accept()
	if err != nil {
		return nil, err
	}
	sockRemote = sconn.RemoteAddr().(*net.TCPAddr)
	sockLocal := sconn.LocalAddr().(*net.TCPAddr)
	cx := layer4.WrapConnection(sconn, make([]byte, 0, 2048), zap.NewNop())
	rec := vh.NewRecorder(stream)
	cx.SetVar(vh.RecKey, rec)
	go func() {
		cc.Write(stream)
		cc.(*net.TCPConn).CloseWrite()
		io.Copy(io.Discard, cc)
	}()
	ret := make(chan error, 1)
	go func() { ret <- compiled.Handle(cx) }()
	var herr error
	select {
	case herr = <-ret:
	case <-time.After(5 * time.Second):
		herr = fmt.Errorf("handler did not return")
	}
	sconn.Close()
	cc.Close()
	var obs []map[string]any
	for _, s := range ups {
		s.ln.Close()
		select {
		case <-s.done:
		case <-time.After(2 * time.Second):
		}
		b := s.got.Bytes()
		ver, hsrc, hdst, n, ok := ppParse(b)
		o := map[string]any{"ok": ok, "ver": ver, "src": "none", "dst": "none", "rest": 0, "restIntact": false, "csent": len(payload)}
		if ok {
			hs, hd := src, dst
			if c.Via != "received" {
				hs, hd = nil, nil
			}
			o["src"] = classify(addrOrNil(hsrc), hs, hd, sockRemote, sockLocal)
			o["dst"] = classify(addrOrNil(hdst), hs, hd, sockRemote, sockLocal)
			rest := b[n:]
			o["rest"] = len(rest)
			o["restIntact"] = bytes.Equal(rest, payload)
		} else {
			o["raw"] = fmt.Sprintf("%q", b[:min(len(b), 40)])
		}
		obs = append(obs, o)
	}
	out := map[string]any{"id": fmt.Sprintf("pp:send:%d", idx), "case": c, "obs": obs}
	if herr != nil {
		out["err"] = herr.Error()
	}
	return out, nil
}

func addrOrNil(a *net.TCPAddr) net.Addr {
	if a == nil {
		return nil
	}
	return a
}

var _ = context.Background
var _ = l4proxy.VerifAvailable

func init() {
	register("pp-run", "PROXY protocol receive / send cases on the real handlers (C12)", func(args []string) error {
		fs := flag.NewFlagSet("pp-run", flag.ExitOnError)
		in := fs.String("in", "", "cases (NDJSON from L4ProxyProtoGrid)")
		out := fs.String("out", "", "traces (NDJSON for L4ProxyProtoTrace)")
		sum := fs.String("summary", "", "summary JSON")
		fs.Parse(args)
		if _, err := vh.CaddyContext(); err != nil {
			return err
		}
		lw, err := vh.NewLineWriter(*out)
		if err != nil {
			return err
		}
		var mu sync.Mutex
		var errs []string
		var samples []any
		nrecv, nsend := 0, 0
		err = vh.ReadLines(*in, 16, func(i int, line []byte) {
			var c ppCase
			if err := json.Unmarshal(line, &c); err != nil {
				panic(err)
			}
			var tr map[string]any
			var err error
			if c.Kind == "recv" {
				tr, err = runPPRecv(c, i)
			} else {
				tr, err = runPPSend(c, i)
			}
			mu.Lock()
			defer mu.Unlock()
			if err != nil {
				errs = append(errs, err.Error())
				return
			}
			if c.Kind == "recv" {
				nrecv++
			} else {
				nsend++
			}
			lw.Write(tr)
			if len(samples) < 2 || (len(samples) < 4 && c.Kind == "send") {
				samples = append(samples, tr)
			}
		})
		if err != nil {
			return err
		}
		if err := lw.Close(); err != nil {
			return err
		}
		return writeJSON(*sum, map[string]any{"recv": nrecv, "send": nsend, "errors": errs, "samples": samples})
	})
}
