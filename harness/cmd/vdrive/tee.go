package main

import (
	"bufio"
	"encoding/json"
	"errors"
	"flag"
	"fmt"
	"io"
	"net"
	"os"
	"sync"
	"sync/atomic"
	"time"

	"github.com/caddyserver/caddy/v2"
	"go.uber.org/zap"

	"github.com/mholt/caddy-l4/layer4"

	"verifharness/vh"
)

// tee-run: the goroutine protocol of the real tee handler (spec L4Tee / L4TeeTrace; beyond the listed
// properties). Every terminal behaviour TLC found in the model of the code as it is (scenario: how the client's
// stream ends, after how many chunks the main chain / the branch chain stop reading by themselves) is replayed on
// the real handler, loaded through Caddy's module loader with a recording handler as its branch; what is observed
// (did next.Handle return, did the branch goroutine end, how many chunks did each read, what did each see last) is
// written next to the model's prediction for TLC to judge.

const teeChunk = 100

type teeScen struct {
	End    string `json:"end"`
	Mstop  int    `json:"mstop"`
	Bstop  int    `json:"bstop"`
	Chunks int    `json:"chunks"`
	Mret   bool   `json:"mret"`
	Mgot   int    `json:"mgot"`
	Mend   string `json:"mend"`
	Bdone  bool   `json:"bdone"`
	Bgot   int    `json:"bgot"`
	Beof   bool   `json:"beof"`
}

// teeClient is the client's side: one chunk per Read, then the configured end.
type teeClient struct {
	mu     sync.Mutex
	left   int
	seq    int
	end    string
	closed chan struct{}
	once   sync.Once
}

type teeAddr string

func (a teeAddr) Network() string { return "tcp" }
func (a teeAddr) String() string  { return string(a) }

var errTeeReset = &net.OpError{Op: "read", Net: "tcp", Err: errors.New("connection reset by peer")}

func (c *teeClient) Read(p []byte) (int, error) {
	c.mu.Lock()
	if c.left > 0 {
		c.left--
		s := c.seq
		c.seq++
		c.mu.Unlock()
		n := teeChunk
		if len(p) < n {
			n = len(p)
		}
		for i := 0; i < n; i++ {
			p[i] = byte(s*31 + i)
		}
		return n, nil
	}
	c.mu.Unlock()
	switch c.end {
	case "eof":
		return 0, io.EOF
	case "err":
		return 0, errTeeReset
	}
	<-c.closed
	return 0, net.ErrClosed
}
func (c *teeClient) Write(p []byte) (int, error)        { return len(p), nil }
func (c *teeClient) Close() error                       { c.once.Do(func() { close(c.closed) }); return nil }
func (c *teeClient) LocalAddr() net.Addr                { return teeAddr("10.0.0.1:1") }
func (c *teeClient) RemoteAddr() net.Addr               { return teeAddr("10.0.0.2:2") }
func (c *teeClient) SetDeadline(t time.Time) error      { return nil }
func (c *teeClient) SetReadDeadline(t time.Time) error  { return nil }
func (c *teeClient) SetWriteDeadline(t time.Time) error { return nil }

// teeSide is what one of the two readers observed.
type teeSide struct {
	got  atomic.Int64 // bytes
	bad  atomic.Bool  // a byte that is not the client's next byte
	end  atomic.Value // "none" | "eof" | "err"
	done chan struct{}
}

func (s *teeSide) read(cx *layer4.Connection, stop int) {
	defer close(s.done)
	buf := make([]byte, 4096)
	for stop < 0 || int(s.got.Load()) < stop*teeChunk {
		n, err := cx.Read(buf)
		base := int(s.got.Load())
		for i := 0; i < n; i++ {
			pos := base + i
			if buf[i] != byte((pos/teeChunk)*31+pos%teeChunk) {
				s.bad.Store(true)
			}
		}
		s.got.Add(int64(n))
		if err != nil {
			if errors.Is(err, io.EOF) {
				s.end.Store("eof")
			} else {
				s.end.Store("err")
			}
			return
		}
	}
}

type teeRun struct {
	main, branch teeSide
	bstop        int
}

const teeRunKey = "verif_tee_run"

// VT is the branch's recording handler.
type VT struct{}

func (*VT) CaddyModule() caddy.ModuleInfo {
	return caddy.ModuleInfo{ID: "layer4.handlers.verif_t", New: func() caddy.Module { return new(VT) }}
}

func (*VT) Handle(cx *layer4.Connection, _ layer4.Handler) error {
	r, ok := cx.GetVar(teeRunKey).(*teeRun)
	if !ok {
		return errors.New("verif_t: no run on the connection")
	}
	r.branch.read(cx, r.bstop)
	return nil
}

func init() { caddy.RegisterModule(&VT{}) }

func waitOr(ch chan struct{}, d time.Duration) bool {
	select {
	case <-ch:
		return true
	case <-time.After(d):
		return false
	}
}

func runTee(base caddy.Context, id string, sc teeScen, patience time.Duration) (map[string]any, error) {
	raw, _ := json.Marshal(map[string]any{"branch": []map[string]any{{"handler": "verif_t"}}})
	ctx, cancel := caddy.NewContext(base)
	defer cancel()
	mod, err := ctx.LoadModuleByID("layer4.handlers.tee", raw)
	if err != nil {
		return nil, fmt.Errorf("loading the tee handler: %v", err)
	}
	tee := mod.(layer4.NextHandler)
	cl := &teeClient{left: sc.Chunks, end: sc.End, closed: make(chan struct{})}
	run := &teeRun{bstop: sc.Bstop}
	run.main.done, run.branch.done = make(chan struct{}), make(chan struct{})
	run.main.end.Store("none")
	run.branch.end.Store("none")
	cx := layer4.WrapConnection(cl, []byte{}, zap.NewNop())
	cx.SetVar(teeRunKey, run)
	returned := make(chan struct{})
	go func() {
		// what Server.handle does: run the chain, then close the connection
		_ = tee.Handle(cx, layer4.HandlerFunc(func(c *layer4.Connection) error {
			run.main.read(c, sc.Mstop)
			return nil
		}))
		cx.Close()
		close(returned)
	}()
	mret := waitOr(returned, patience)
	bdone := waitOr(run.branch.done, patience)
	obs := map[string]any{
		"mret": mret, "mgot": int(run.main.got.Load()) / teeChunk, "mend": run.main.end.Load(),
		"bdone": bdone, "bgot": int(run.branch.got.Load()) / teeChunk, "beof": run.branch.end.Load() == "eof",
		"intact": !run.main.bad.Load() && !run.branch.bad.Load() &&
			run.main.got.Load()%teeChunk == 0 && run.branch.got.Load()%teeChunk == 0,
	}
	if !mret {
		// next.Handle has not come back: had it been anywhere but inside Read it would have; release the client
		// so that a reader blocked on the CLIENT (end = "open") can go - a reader blocked on the PIPE stays
		cl.Close()
	}
	pred := map[string]any{"mret": sc.Mret, "mgot": sc.Mgot, "mend": sc.Mend, "bdone": sc.Bdone, "bgot": sc.Bgot, "beof": sc.Beof}
	return map[string]any{"id": id, "end": sc.End, "mstop": sc.Mstop, "bstop": sc.Bstop, "chunks": sc.Chunks, "pred": pred, "obs": obs}, nil
}

func init() {
	register("tee-run", "terminal behaviours of the tee model replayed on the real tee handler (L4Tee; beyond the listed properties)", func(args []string) error {
		fs := flag.NewFlagSet("tee-run", flag.ExitOnError)
		in := fs.String("beh", "", "terminal behaviours printed by TLC (one JSON per line)")
		out := fs.String("out", "", "observations (NDJSON for L4TeeTrace)")
		patience := fs.Duration("patience", 1500*time.Millisecond, "how long a goroutine is waited for before it counts as blocked")
		fs.Parse(args)
		f, err := os.Open(*in)
		if err != nil {
			return err
		}
		defer f.Close()
		var scens []teeScen
		seen := map[string]bool{}
		rd := bufio.NewScanner(f)
		for rd.Scan() {
			var sc teeScen
			if err := json.Unmarshal(rd.Bytes(), &sc); err != nil {
				return err
			}
			k := fmt.Sprintf("%s/%d/%d/%d", sc.End, sc.Mstop, sc.Bstop, sc.Chunks)
			if seen[k] {
				return fmt.Errorf("the model has two different outcomes for scenario %s: replay needs one", k)
			}
			seen[k] = true
			scens = append(scens, sc)
		}
		base, err := vh.CaddyContext()
		if err != nil {
			return err
		}
		lw, err := vh.NewLineWriter(*out)
		if err != nil {
			return err
		}
		var wg sync.WaitGroup
		var firstErr atomic.Value
		sem := make(chan struct{}, 32)
		for i, sc := range scens {
			wg.Add(1)
			sem <- struct{}{}
			go func(i int, sc teeScen) {
				defer wg.Done()
				defer func() { <-sem }()
				tr, err := runTee(base, fmt.Sprintf("tee:%s:m%d:b%d", sc.End, sc.Mstop, sc.Bstop), sc, *patience)
				if err != nil {
					firstErr.Store(err)
					return
				}
				lw.Write(tr)
			}(i, sc)
		}
		wg.Wait()
		if e, ok := firstErr.Load().(error); ok {
			return e
		}
		return lw.Close()
	})
}
