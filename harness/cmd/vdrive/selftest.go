package main

import (
	"fmt"

	"verifharness/vh"
)

func init() {
	register("caddy-selftest", "start the in-process Caddy instance with the tls app", func(args []string) error {
		ctx, err := vh.CaddyContext()
		if err != nil {
			return err
		}
		app, err := ctx.App("tls")
		fmt.Printf("tls app: %T err=%v\n", app, err)
		return nil
	})
}
