package main

import (
	"encoding/json"
	"flag"
	"fmt"
	"sort"
	"sync/atomic"

	"github.com/caddyserver/caddy/v2"
	"github.com/mholt/caddy-l4/modules/l4proxy"

	"verifharness/vh"
)

// lb-prov: the selection policies on pools that were PROVISIONED from JSON by the real handler (health-check
// options as a user writes them, max_fails also omitted: the documented default 1 must then apply) and brought
// into their state by the real failure accounting (countFailure, as dialPeers calls it) - what lb-single
// constructs white-box, here as a user gets it. Traces have the format of lb-single and are judged by the same
// clauses (S1, S2) of L4LBTrace; the pool state is what the accessor reads back from the handler.

var lbProvSeq atomic.Int64

func init() {
	register("lb-prov", "every policy on provisioned handlers whose peers have counted real failures (C10)", func(args []string) error {
		fs := flag.NewFlagSet("lb-prov", flag.ExitOnError)
		out := fs.String("out", "", "traces (NDJSON for L4LBTrace)")
		sum := fs.String("summary", "", "summary JSON")
		draws := fs.Int("draws", 48, "selections per random policy and pool")
		fs.Parse(args)
		lw, err := vh.NewLineWriter(*out)
		if err != nil {
			return err
		}
		base, err := vh.CaddyContext()
		if err != nil {
			return err
		}
		type pc struct {
			name string
			k    int
		}
		pols := []pc{{"first", 0}, {"random", 0}, {"least_conn", 0}, {"round_robin", 0}, {"ip_hash", 0}, {"random_choose", 0}, {"random_choose", 3}}
		handlers, selections := 0, 0
		for _, c := range pols {
			for _, mf := range []int{0, 1, 2} { // 0 = max_fails omitted
				for pat := 0; pat < 27; pat++ {
					inj := []int{pat % 3, (pat / 3) % 3, (pat / 9) % 3} // failures counted against upstream 1, 2 (its second peer), 3
					n := lbProvSeq.Add(1)
					a := func(u, p int) string { return fmt.Sprintf("10.%d.%d.%d:80", 100+n/250, n%250, 10*u+p) }
					sel := map[string]any{"policy": c.name}
					if c.k > 0 {
						sel["choose"] = c.k
					}
					passive := map[string]any{"fail_duration": "30s"}
					if mf > 0 {
						passive["max_fails"] = mf
					}
					cfg := map[string]any{
						"upstreams":      []map[string]any{{"dial": []string{a(1, 1)}}, {"dial": []string{a(2, 1), a(2, 2)}}, {"dial": []string{a(3, 1)}}},
						"load_balancing": map[string]any{"selection": sel},
						"health_checks":  map[string]any{"passive": passive},
					}
					raw, _ := json.Marshal(cfg)
					ctx, cancel := caddy.NewContext(base)
					mod, err := ctx.LoadModuleByID("layer4.handlers.proxy", raw)
					if err != nil {
						cancel()
						return fmt.Errorf("loading %s: %v", raw, err)
					}
					h := mod.(*l4proxy.Handler)
					for u, k := range inj {
						for i := 0; i < k; i++ {
							pi := 0
							if u == 1 {
								pi = 1
							}
							l4proxy.VerifCountFailure(h, u, pi)
						}
					}
					fails, conns, unh := l4proxy.VerifHandlerCounters(h)
					pool := make([]l4proxy.VerifUpstream, len(h.Upstreams))
					for u := range h.Upstreams {
						pool[u].MaxConns = h.Upstreams[u].MaxConnections
						for p := range fails[u] {
							pool[u].Peers = append(pool[u].Peers, l4proxy.VerifPeer{Unhealthy: unh[u][p], Fails: fails[u][p], Conns: conns[u][p]})
						}
					}
					nd := 1
					if c.name == "random" || c.name == "random_choose" {
						nd = *draws
					}
					if c.name == "round_robin" || c.name == "least_conn" {
						nd = 2*len(pool) + 1
					}
					seen := map[int]bool{}
					for d := 0; d < nd; d++ {
						seen[selectIdx(h.LoadBalancing.SelectionPolicy, h.Upstreams, connFrom("10.0.0.1"))] = true
					}
					selections += nd
					res := []int{}
					for r := range seen {
						res = append(res, r)
					}
					sort.Ints(res)
					eff := mf
					if eff == 0 {
						eff = 1 // documented default when fail_duration is set
					}
					lw.Write(lbSingle{ID: fmt.Sprintf("lbprov:%s:%d:mf%d:inj%d%d%d", c.name, c.k, mf, inj[0], inj[1], inj[2]), Kind: "single", Policy: c.name, Pool: pool, MaxFails: eff, Results: res})
					handlers++
					cancel()
				}
			}
		}
		if err := lw.Close(); err != nil {
			return err
		}
		return writeJSON(*sum, map[string]any{"handlers": handlers, "selections": selections})
	})
}
