package main

import (
	"bytes"
	"encoding/json"
	"flag"
	"fmt"
	"reflect"
	"runtime"
	"sort"
	"strings"
	"sync"

	"github.com/caddyserver/caddy/v2"
	"github.com/caddyserver/caddy/v2/caddyconfig"
	_ "github.com/caddyserver/caddy/v2/caddyconfig/httpcaddyfile"
	_ "github.com/caddyserver/caddy/v2/modules/caddyhttp"
	_ "github.com/mholt/caddy-l4"
	"github.com/mholt/caddy-l4/layer4"

	"verifharness/vh"
)

// ---- term -> expected JSON ----

// clean removes printing choices (keys beginning with "_") and turns "EMPTY" into {}.
func clean(v any) any {
	switch x := v.(type) {
	case map[string]any:
		out := map[string]any{}
		for k, e := range x {
			if strings.HasPrefix(k, "_") {
				continue
			}
			out[k] = clean(e)
		}
		return out
	case []any:
		out := make([]any, len(x))
		for i, e := range x {
			out[i] = clean(e)
		}
		return out
	case string:
		if x == "EMPTY" {
			return map[string]any{}
		}
	}
	return v
}

func routeJSON(r map[string]any) map[string]any {
	out := map[string]any{}
	if ml, _ := r["match"].([]any); len(ml) > 0 {
		var sets []any
		for _, s := range ml {
			set := map[string]any{}
			for _, m := range s.([]any) {
				mm := m.(map[string]any)
				set[mm["name"].(string)] = clean(mm["value"])
			}
			sets = append(sets, set)
		}
		out["match"] = sets
	}
	var hs []any
	for _, h := range r["handle"].([]any) {
		hs = append(hs, handlerJSON(h.(map[string]any)))
	}
	out["handle"] = hs
	return out
}

func handlerJSON(h map[string]any) any { return clean(h) }

func serverJSON(s map[string]any) map[string]any {
	out := map[string]any{"listen": s["listen"]}
	var rs []any
	for _, r := range s["routes"].([]any) {
		rs = append(rs, routeJSON(r.(map[string]any)))
	}
	out["routes"] = rs
	if t, ok := s["matching_timeout"]; ok {
		out["matching_timeout"] = t
	}
	return out
}

// ---- term -> Caddyfile ----

type cfw struct {
	sb  strings.Builder
	ind int
}

func (w *cfw) line(format string, a ...any) {
	w.sb.WriteString(strings.Repeat("\t", w.ind))
	fmt.Fprintf(&w.sb, format, a...)
	w.sb.WriteString("\n")
}
func (w *cfw) open(format string, a ...any) { w.line(format+" {", a...); w.ind++ }
func (w *cfw) close()                       { w.ind--; w.line("}") }

func dur(v any) string { return fmt.Sprintf("%ds", int64(v.(float64))/1e9) }
func strs(v any) string {
	var out []string
	for _, x := range v.([]any) {
		switch y := x.(type) {
		case string:
			out = append(out, y)
		case float64:
			out = append(out, fmt.Sprint(int64(y)))
		}
	}
	return strings.Join(out, " ")
}

// rangeTokens writes a list of ranges; the six private blocks in a row are written as the keyword private_ranges
func rangeTokens(v any, prefix string) []string {
	priv := []string{"192.168.0.0/16", "172.16.0.0/12", "10.0.0.0/8", "127.0.0.1/8", "fd00::/8", "::1"}
	var in []string
	for _, x := range v.([]any) {
		in = append(in, x.(string))
	}
	var out []string
	for i := 0; i < len(in); {
		if i+len(priv) <= len(in) && strings.Join(in[i:i+len(priv)], ",") == strings.Join(priv, ",") {
			out = append(out, prefix+"private_ranges")
			i += len(priv)
			continue
		}
		out = append(out, prefix+in[i])
		i++
	}
	return out
}
func num(v any) string { return fmt.Sprint(int64(v.(float64))) }

func (w *cfw) matcher(name string, value any) {
	v, _ := value.(map[string]any)
	switch name {
	case "ssh", "postgres", "xmpp", "proxy_protocol":
		w.line("%s", name)
	case "tls":
		w.open("tls")
		if s, ok := v["sni"]; ok {
			w.line("sni %s", strs(s))
		}
		if a, ok := v["alpn"]; ok {
			w.line("alpn %s", strs(a))
		}
		if r, ok := v["remote_ip"].(map[string]any); ok {
			var toks []string
			if x, ok := r["ranges"]; ok {
				toks = append(toks, rangeTokens(x, "")...)
			}
			if x, ok := r["not_ranges"]; ok {
				toks = append(toks, rangeTokens(x, "!")...)
			}
			w.line("remote_ip %s", strings.Join(toks, " "))
		}
		w.close()
	case "http":
		set := value.([]any)[0].(map[string]any)
		w.line("http host %s", strs(set["host"]))
	case "regexp":
		w.line("regexp %s %s", v["pattern"], num(v["count"]))
	case "remote_ip", "local_ip":
		w.line("%s %s", name, strings.Join(rangeTokens(v["ranges"], ""), " "))
	case "not":
		inner := value.([]any)[0].(map[string]any)
		for n, iv := range inner {
			w.line("not %s %s", n, strs(iv.(map[string]any)["ranges"]))
		}
	case "socks4":
		w.open("socks4")
		w.line("commands %s", strs(v["commands"]))
		w.line("networks %s", strs(v["networks"]))
		w.line("ports %s", strs(v["ports"]))
		w.close()
	case "socks5":
		w.open("socks5")
		w.line("auth_methods %s", strs(v["auth_methods"]))
		w.close()
	case "dns":
		w.open("dns")
		rule := func(kind string, r map[string]any) {
			f := func(k string) string {
				if s, ok := r[k].(string); ok && s != "" {
					return s
				}
				return "*"
			}
			if _, re := r["name_regexp"]; re || r["type_regexp"] != nil || r["class_regexp"] != nil {
				w.line("%s_regexp %s %s %s", kind, f("name_regexp"), f("type_regexp"), f("class_regexp"))
				return
			}
			w.line("%s %s %s %s", kind, f("name"), f("type"), f("class"))
		}
		for _, r := range v["allow"].([]any) {
			rule("allow", r.(map[string]any))
		}
		for _, r := range v["deny"].([]any) {
			rule("deny", r.(map[string]any))
		}
		if b, _ := v["default_deny"].(bool); b {
			w.line("default_deny")
		}
		if b, _ := v["prefer_allow"].(bool); b {
			w.line("prefer_allow")
		}
		w.close()
	case "clock":
		w.line("clock %s %s %s", v["after"], v["before"], v["timezone"])
	case "wireguard":
		w.line("wireguard %s", num(v["zero"]))
	case "rdp":
		w.open("rdp")
		if s, ok := v["cookie_hash"]; ok {
			w.line("cookie_hash %s", s)
		}
		if s, ok := v["cookie_ips"]; ok {
			w.line("cookie_ip %s", strs(s))
		}
		if s, ok := v["cookie_ports"]; ok {
			w.line("cookie_port %s", strs(s))
		}
		w.close()
	default:
		panic("printer: unknown matcher " + name)
	}
}

func (w *cfw) handler(h map[string]any) {
	switch h["handler"] {
	case "echo":
		w.line("echo")
	case "tls":
		cps, ok := h["connection_policies"].([]any)
		if !ok {
			w.line("tls")
			return
		}
		w.open("tls")
		for _, c := range cps {
			cp := c.(map[string]any)
			w.open("connection_policy")
			if v, ok := cp["alpn"]; ok {
				w.line("alpn %s", strs(v))
			}
			if v, ok := cp["cipher_suites"]; ok {
				w.line("ciphers %s", strs(v))
			}
			if v, ok := cp["curves"]; ok {
				w.line("curves %s", strs(v))
			}
			if v, ok := cp["default_sni"]; ok {
				w.line("default_sni %s", v)
			}
			if mn, ok := cp["protocol_min"]; ok {
				if mx, ok := cp["protocol_max"]; ok {
					w.line("protocols %s %s", mn, mx)
				} else {
					w.line("protocols %s", mn)
				}
			}
			w.close()
		}
		w.close()
	case "proxy":
		ups := h["upstreams"].([]any)
		_, hasHC := h["health_checks"]
		_, hasLB := h["load_balancing"]
		if !hasHC && !hasLB && len(ups) == 1 {
			w.line("proxy %s", strs(ups[0].(map[string]any)["dial"]))
			return
		}
		w.open("proxy")
		active := func() {
			if hc, ok := h["health_checks"].(map[string]any); ok {
				if a, ok := hc["active"].(map[string]any); ok {
					// health_timeout first: the option that creates the active section comes right after the passive ones
					if v, ok := a["timeout"]; ok {
						w.line("health_timeout %s", dur(v))
					}
					if v, ok := a["interval"]; ok {
						w.line("health_interval %s", dur(v))
					}
					if v, ok := a["port"]; ok {
						w.line("health_port %s", num(v))
					}
				}
			}
		}
		passive := func() {
			if hc, ok := h["health_checks"].(map[string]any); ok {
				if p, ok := hc["passive"].(map[string]any); ok {
					if v, ok := p["fail_duration"]; ok {
						w.line("fail_duration %s", dur(v))
					}
					if v, ok := p["max_fails"]; ok {
						w.line("max_fails %s", num(v))
					}
					if v, ok := p["unhealthy_connection_count"]; ok {
						w.line("unhealthy_connection_count %s", num(v))
					}
				}
			}
		}
		if h["_order"] == "passive_first" {
			passive()
			active()
		} else {
			active()
			passive()
		}
		if lb, ok := h["load_balancing"].(map[string]any); ok {
			if sel, ok := lb["selection"].(map[string]any); ok {
				if c, ok := sel["choose"]; ok {
					w.line("lb_policy %s %s", sel["policy"], num(c))
				} else {
					w.line("lb_policy %s", sel["policy"])
				}
			}
			if v, ok := lb["try_duration"]; ok {
				w.line("lb_try_duration %s", dur(v))
			}
			if v, ok := lb["try_interval"]; ok {
				w.line("lb_try_interval %s", dur(v))
			}
		}
		if v, ok := h["proxy_protocol"]; ok {
			w.line("proxy_protocol %s", v)
		}
		for _, u := range ups {
			um := u.(map[string]any)
			if mc, ok := um["max_connections"]; ok {
				dials, _ := um["dial"].([]any)
				switch {
				case h["_upform"] == "mixed" && len(dials) >= 2:
					w.open("upstream " + strs(dials[:1]))
					w.line("dial %s", strs(dials[1:]))
				case h["_upform"] == "twodial" && len(dials) >= 2:
					w.open("upstream")
					w.line("dial %s", strs(dials[:1]))
					w.line("dial %s", strs(dials[1:]))
				default:
					w.open("upstream")
					w.line("dial %s", strs(um["dial"]))
				}
				w.line("max_connections %s", num(mc))
				w.close()
			} else {
				w.line("upstream %s", strs(um["dial"]))
			}
		}
		w.close()
	case "proxy_protocol":
		w.open("proxy_protocol")
		w.line("allow %s", strs(h["allow"]))
		w.line("timeout %s", dur(h["timeout"]))
		w.close()
	case "throttle":
		w.open("throttle")
		w.line("latency %s", dur(h["latency"]))
		w.line("read_burst_size %s", num(h["read_burst_size"]))
		w.line("read_bytes_per_second %s", num(h["read_bytes_per_second"]))
		w.line("total_read_burst_size %s", num(h["total_read_burst_size"]))
		w.line("total_read_bytes_per_second %s", num(h["total_read_bytes_per_second"]))
		w.close()
	case "socks5":
		w.open("socks5")
		w.line("bind_ip %s", h["bind_ip"])
		w.line("commands %s", strs(h["commands"]))
		for u, p := range h["credentials"].(map[string]any) {
			w.line("credentials %s %s", u, p)
		}
		w.close()
	case "tee":
		w.open("tee")
		for _, b := range h["branch"].([]any) {
			w.handler(b.(map[string]any))
		}
		w.close()
	case "subroute":
		w.open("subroute")
		if v, ok := h["matching_timeout"]; ok {
			w.line("matching_timeout %s", dur(v))
		}
		w.routesJSONStyle(h["routes"].([]any), "s")
		w.close()
	default:
		panic(fmt.Sprintf("printer: unknown handler %v", h["handler"]))
	}
}

// routesJSONStyle prints routes given in JSON shape (match = list of objects), as used inside subroute terms
func (w *cfw) routesJSONStyle(routes []any, prefix string) {
	n := 0
	var lines [][]string
	for _, r := range routes {
		rm := r.(map[string]any)
		var names []string
		if ml, ok := rm["match"].([]any); ok {
			for _, set := range ml {
				name := fmt.Sprintf("@%s%d", prefix, n)
				n++
				names = append(names, name)
				sm := set.(map[string]any)
				keys := make([]string, 0, len(sm))
				for k := range sm {
					keys = append(keys, k)
				}
				sort.Strings(keys)
				w.open("%s", name)
				for _, k := range keys {
					val := sm[k]
					if val == "EMPTY" {
						val = map[string]any{}
					}
					w.matcher(k, val)
				}
				w.close()
			}
		}
		lines = append(lines, names)
	}
	for i, r := range routes {
		rm := r.(map[string]any)
		w.open("route%s", joinNames(lines[i]))
		for _, h := range rm["handle"].([]any) {
			w.handler(h.(map[string]any))
		}
		w.close()
	}
}

func joinNames(n []string) string {
	if len(n) == 0 {
		return ""
	}
	return " " + strings.Join(n, " ")
}

// routes prints routes given in TERM shape (match = list of sets of [name,value])
func (w *cfw) routes(routes []any, prefix string) {
	n := 0
	var lines [][]string
	for _, r := range routes {
		rm := r.(map[string]any)
		var names []string
		for _, set := range rm["match"].([]any) {
			name := fmt.Sprintf("@%s%d", prefix, n)
			n++
			names = append(names, name)
			ms := set.([]any)
			if len(ms) == 1 {
				// single-line form: @name matcher args...
				mm := ms[0].(map[string]any)
				sub := &cfw{}
				val := mm["value"]
				if val == "EMPTY" {
					val = map[string]any{}
				}
				sub.matcher(mm["name"].(string), val)
				body := strings.TrimRight(sub.sb.String(), "\n")
				first, rest, multi := strings.Cut(body, "\n")
				w.line("%s %s", name, first)
				if multi {
					for _, l := range strings.Split(rest, "\n") {
						w.sb.WriteString(strings.Repeat("\t", w.ind) + l + "\n")
					}
				}
			} else {
				w.open("%s", name)
				for _, m := range ms {
					mm := m.(map[string]any)
					val := mm["value"]
					if val == "EMPTY" {
						val = map[string]any{}
					}
					w.matcher(mm["name"].(string), val)
				}
				w.close()
			}
		}
		lines = append(lines, names)
	}
	for i, r := range routes {
		rm := r.(map[string]any)
		w.open("route%s", joinNames(lines[i]))
		for _, h := range rm["handle"].([]any) {
			w.handler(h.(map[string]any))
		}
		w.close()
	}
}

func printCaddyfile(cfg map[string]any) string {
	w := &cfw{}
	servers := cfg["servers"].([]any)
	server := func(s map[string]any, head string) {
		w.open("%s", head)
		if t, ok := s["matching_timeout"]; ok {
			w.line("matching_timeout %s", dur(t))
		}
		w.routes(s["routes"].([]any), "m")
		w.close()
	}
	if cfg["form"] == "wrapper" {
		w.open("")
		w.open("servers")
		w.open("listener_wrappers")
		server(servers[0].(map[string]any), "layer4")
		w.line("tls")
		w.close()
		w.close()
		w.close()
		w.open(":443")
		w.line("respond 200")
		w.close()
		return strings.Replace(w.sb.String(), " {", "{", 1)
	}
	w.open("")
	blocks := int(cfg["_blocks"].(float64))
	if blocks == 1 {
		w.open("layer4")
		for _, s := range servers {
			sm := s.(map[string]any)
			server(sm, strs(sm["listen"]))
		}
		w.close()
	} else {
		for _, s := range servers {
			sm := s.(map[string]any)
			w.open("layer4")
			server(sm, strs(sm["listen"]))
			w.close()
		}
	}
	w.close()
	return strings.Replace(w.sb.String(), " {", "{", 1)
}

func normJSON(v any) any {
	b, _ := json.Marshal(v)
	var out any
	json.Unmarshal(b, &out)
	return out
}

func runCfg(term map[string]any, idx int) map[string]any {
	res := map[string]any{"id": fmt.Sprintf("cfg:%d", idx), "adaptOK": false, "jsonEqual": false, "deterministic": false, "loadOK": false, "roundTrip": false}
	text := printCaddyfile(term)
	res["caddyfile"] = text
	adapter := caddyconfig.GetAdapter("caddyfile")
	out1, _, err := adapter.Adapt([]byte(text), map[string]any{"filename": "Caddyfile"})
	if err != nil {
		res["err"] = "adapt: " + err.Error()
		return res
	}
	res["adaptOK"] = true
	out2, _, _ := adapter.Adapt([]byte(text), map[string]any{"filename": "Caddyfile"})
	res["deterministic"] = bytes.Equal(out1, out2)
	var adapted map[string]any
	json.Unmarshal(out1, &adapted)
	// expected
	servers := term["servers"].([]any)
	var got, want any
	var l4raw []byte
	if term["form"] == "wrapper" {
		exp := serverJSON(servers[0].(map[string]any))
		delete(exp, "listen")
		exp["wrapper"] = "layer4"
		want = normJSON(exp)
		func() {
			defer func() { recover() }()
			lw := adapted["apps"].(map[string]any)["http"].(map[string]any)["servers"].(map[string]any)["srv0"].(map[string]any)["listener_wrappers"].([]any)[0]
			got = lw
		}()
	} else {
		exp := map[string]any{}
		for i, s := range servers {
			exp[fmt.Sprintf("srv%d", i)] = serverJSON(s.(map[string]any))
		}
		want = normJSON(map[string]any{"servers": exp})
		func() {
			defer func() { recover() }()
			got = adapted["apps"].(map[string]any)["layer4"]
			l4raw, _ = json.Marshal(got)
		}()
	}
	res["jsonEqual"] = reflect.DeepEqual(got, want)
	if res["jsonEqual"] == false {
		g, _ := json.Marshal(got)
		e, _ := json.Marshal(want)
		res["got"], res["want"] = string(g), string(e)
	}
	// load: provision everything without starting it
	var cc caddy.Config
	if err := json.Unmarshal(out1, &cc); err != nil {
		res["err"] = "config: " + err.Error()
		return res
	}
	if err := caddy.Validate(&cc); err != nil {
		res["err"] = "load: " + err.Error()
	} else {
		res["loadOK"] = true
	}
	// round trip of the layer4 app configuration
	if l4raw != nil {
		var app layer4.App
		if err := json.Unmarshal(l4raw, &app); err == nil {
			back, _ := json.Marshal(&app)
			var a, b any
			json.Unmarshal(back, &a)
			json.Unmarshal(l4raw, &b)
			res["roundTrip"] = reflect.DeepEqual(a, b)
		}
	} else {
		var lw layer4.ListenerWrapper
		raw, _ := json.Marshal(got)
		if err := json.Unmarshal(raw, &lw); err == nil {
			back, _ := json.Marshal(&lw)
			var a, b any
			json.Unmarshal(back, &a)
			json.Unmarshal(raw, &b)
			if bm, ok := b.(map[string]any); ok {
				delete(bm, "wrapper")
			}
			res["roundTrip"] = reflect.DeepEqual(a, b)
		}
	}
	return res
}

func init() {
	register("cfg-run", "TLC-enumerated configuration terms printed as Caddyfile, adapted, compared, loaded, round-tripped (C15)", func(args []string) error {
		fs := flag.NewFlagSet("cfg-run", flag.ExitOnError)
		in := fs.String("in", "", "terms (NDJSON from L4ConfigGrid)")
		out := fs.String("out", "", "results (NDJSON for L4ConfigTrace)")
		sum := fs.String("summary", "", "summary JSON")
		fs.Parse(args)
		if _, err := vh.CaddyContext(); err != nil {
			return err
		}
		lw, err := vh.NewLineWriter(*out)
		if err != nil {
			return err
		}
		var mu sync.Mutex
		var samples []any
		err = vh.ReadLines(*in, runtime.NumCPU(), func(i int, line []byte) {
			var term map[string]any
			if err := json.Unmarshal(line, &term); err != nil {
				panic(err)
			}
			r := func() (r map[string]any) {
				defer func() {
					if p := recover(); p != nil {
						r = map[string]any{"id": fmt.Sprintf("cfg:%d", i), "adaptOK": false, "jsonEqual": false, "deterministic": false, "loadOK": false, "roundTrip": false, "err": fmt.Sprint("panic: ", p)}
					}
				}()
				return runCfg(term, i)
			}()
			mu.Lock()
			if len(samples) < 2 && i%503 == 1 {
				samples = append(samples, r)
			}
			mu.Unlock()
			lw.Write(r)
		})
		if err != nil {
			return err
		}
		if err := lw.Close(); err != nil {
			return err
		}
		return writeJSON(*sum, map[string]any{"terms": lw.N, "samples": samples})
	})
}
