package main

import (
	"encoding/binary"
	"fmt"
	"net"
	"strings"
)

func init() {
	wireEncoders["rdp"] = encodeRDP
	wireEncoders["http"] = encodeHTTP
	wireEncoders["tls"] = encodeTLS
}

// encodeTLS: a ClientHello record written by a real crypto/tls client, or a record of another type
func encodeTLS(v *wireVec) (*wireCase, error) {
	m, cfg := v.Msg, v.Cfg
	c := &wireCase{module: "tls"}
	cc := tlsClientCfg{SNI: ms_(m, "sni"), Vers: "12-13", Curves: "x25519"}
	if ms_(m, "alpn") == "h2" {
		cc.ALPN = []string{"h2", "http/1.1"}
	}
	hello, err := captureHello(clientConfig(cc))
	if err != nil {
		return nil, err
	}
	switch ms_(m, "kind") {
	case "hello":
		c.first = hello
	case "alert":
		c.first = []byte{0x15, 3, 3, 0, 2, 2, 40}
	case "appdata":
		c.first = append([]byte{0x17, 3, 3, 0, 16}, filler(16, 5)...)
	case "sslv2":
		c.first = append([]byte{0x80, 0x2e, 0x01, 0x03, 0x01}, filler(43, 9)...)
	case "http":
		c.first = []byte("GET / HTTP/1.1\r\nHost: a.example.com\r\n\r\n")
	case "hslong", "twofrag":
		// hello = record header (5) + handshake message; cut the handshake message in two
		body := hello[5:]
		cut := len(body) / 2
		rec := func(b []byte) []byte {
			return append([]byte{0x16, hello[1], hello[2], byte(len(b) >> 8), byte(len(b))}, b...)
		}
		c.first = rec(body[:cut]) // its handshake header announces len(body)-4 bytes, the record carries cut-4
		if ms_(m, "kind") == "twofrag" {
			c.first = append(c.first, rec(body[cut:])...)
		}
	case "emptyrec":
		c.first = []byte{0x16, 3, 1, 0, 0}
	case "shortrec":
		c.first = []byte{0x16, 3, 1, 0, 3, 1, 0, 0}
	case "notch":
		c.first = append([]byte{0x16, 3, 3, 0, 44, 2, 0, 0, 40}, filler(40, 3)...)
	}
	mc := map[string]any{}
	if l := mlist(cfg, "sni"); len(l) > 0 {
		mc["sni"] = l
	}
	if l := mlist(cfg, "alpn"); len(l) > 0 {
		mc["alpn"] = l
	}
	c.cfg = mc
	return c, nil
}

// encodeRDP: the harness's own encoder of an X.224 Connection Request (MS-RDPBCGR 2.2.1.1)
func encodeRDP(v *wireVec) (*wireCase, error) {
	m, cfg := v.Msg, v.Cfg
	var payload []byte
	token := func(ip net.IP, port int) []byte {
		ip4 := ip.To4()
		ipNum := uint32(ip4[0]) | uint32(ip4[1])<<8 | uint32(ip4[2])<<16 | uint32(ip4[3])<<24
		portNum := uint16(port>>8) | uint16(port&0xff)<<8
		opt := fmt.Sprintf("Cookie: msts=%d.%d.0000\r\n", ipNum, portNum)
		total := 11 + len(opt)
		h := []byte{3, 0, byte(total >> 8), byte(total), byte(total - 5), 0xE0, 0, 0, 0, 0, 0}
		return append(h, opt...)
	}
	switch ms_(m, "cookie") {
	case "hash_user":
		payload = []byte("Cookie: mstshash=user\r\n")
	case "hash_other":
		payload = []byte("Cookie: mstshash=other\r\n")
	case "token_in_3389":
		payload = token(net.IPv4(10, 1, 2, 3), 3389)
	case "token_in_1234":
		payload = token(net.IPv4(10, 1, 2, 3), 1234)
	case "token_out_3389":
		payload = token(net.IPv4(192, 168, 1, 1), 3389)
	case "custom":
		payload = []byte("some custom routing info\r\n")
	case "custom_cr":
		payload = []byte("abc\r")
	}
	neg := func(typ byte, protocols uint32) []byte {
		b := []byte{typ, 0, 8, 0}
		return binary.LittleEndian.AppendUint32(b, protocols)
	}
	switch ms_(m, "neg") {
	case "ssl":
		payload = append(payload, neg(1, 1)...)
	case "hybrid_ssl":
		payload = append(payload, neg(1, 3)...)
	case "hybrid_only":
		payload = append(payload, neg(1, 2)...)
	case "badtype":
		payload = append(payload, neg(2, 1)...)
	case "corr", "corr_short", "corr_missing", "corr_badid":
		// RDP_NEG_REQ with CORRELATION_INFO_PRESENT (0x08), then RDP_NEG_CORRELATION_INFO (36 bytes)
		nr := []byte{1, 0x08, 8, 0}
		payload = append(payload, binary.LittleEndian.AppendUint32(nr, 1)...)
		ci := []byte{0x06, 0x00, 36, 0}
		id := filler(16, 1)
		if ms_(m, "neg") == "corr_badid" {
			id[0] = 0
		}
		ci = append(ci, id...)
		ci = append(ci, make([]byte, 16)...)
		switch ms_(m, "neg") {
		case "corr_short":
			ci = ci[:30]
		case "corr_missing":
			ci = nil
		}
		payload = append(payload, ci...)
	}
	total := 4 + 7 + len(payload)
	decl := total
	switch ms_(m, "len") {
	case "plus1":
		decl++
	case "minus1":
		decl--
	}
	b := []byte{byte(mi(m, "ver")), 0, byte(decl >> 8), byte(decl), byte(total - 5), 0xE0, 0, 0, 0, 0, 0}
	b = append(b, payload...)
	if mi(m, "extra") == 1 {
		b = append(b, 0x42)
	}
	c := &wireCase{module: "rdp", first: b}
	cc := map[string]any{}
	if s := ms_(cfg, "cookie_hash"); s != "" {
		cc["cookie_hash"] = s
	}
	if l := mlist(cfg, "cookie_ips"); len(l) > 0 {
		cc["cookie_ips"] = l
	}
	if l := mlist(cfg, "cookie_ports"); len(l) > 0 {
		cc["cookie_ports"] = l
	}
	c.cfg = cc
	return c, nil
}

// encodeHTTP: an HTTP/1.x request head
func encodeHTTP(v *wireVec) (*wireCase, error) {
	m, cfg := v.Msg, v.Cfg
	eol := "\r\n"
	if ms_(m, "eol") == "lf" {
		eol = "\n"
	}
	var sb strings.Builder
	sb.WriteString(ms_(m, "method") + " " + ms_(m, "path") + " " + ms_(m, "version") + eol)
	if h := ms_(m, "host"); h != "" {
		sb.WriteString("Host: " + h + eol)
	}
	sb.WriteString("User-Agent: verif" + eol)
	if b, _ := m["xtest"].(bool); b {
		sb.WriteString("X-Test: 1" + eol)
	}
	if b, _ := m["complete"].(bool); b {
		sb.WriteString(eol)
	}
	c := &wireCase{module: "http", first: []byte(sb.String())}
	switch ms_(cfg, "filter") {
	case "none":
		c.cfg = []map[string]any{}
	case "host":
		c.cfg = []map[string]any{{"host": []string{"example.com"}}}
	case "path":
		c.cfg = []map[string]any{{"path": []string{"/api/*"}}}
	case "method":
		c.cfg = []map[string]any{{"method": []string{"POST"}}}
	case "header":
		c.cfg = []map[string]any{{"header": map[string][]string{"X-Test": {"*"}}}}
	case "tenant":
		c.cfg = []map[string]any{{"header": map[string][]string{"X-Tenant": {"alpha"}}}}
	}
	return c, nil
}

func init() {
	wireEncoders["winbox"] = encodeWinbox
	prev := wireEncoders["http"]
	wireEncoders["http"] = func(v *wireVec) (*wireCase, error) {
		if _, ok := v.Msg["junk"]; ok {
			return encodeHTTPJunk(v)
		}
		if _, ok := v.Msg["h2"]; ok {
			return encodeHTTP2(v)
		}
		return prev(v)
	}
}

// encodeWinbox: MikroTik Winbox authentication message in chunks
func encodeWinbox(v *wireVec) (*wireCase, error) {
	m, cfg := v.Msg, v.Cfg
	ulen := mi(m, "ulen")
	user := "admin"
	if ulen != 5 {
		user = strings.Repeat("a", ulen)
	}
	if b, _ := m["romon"].(bool); b {
		user += "+r"
	}
	content := []byte(user)
	key := filler(32, 11)
	for i := range key {
		key[i] |= 0x80 // no NUL and no delimiter inside the key
	}
	switch ms_(m, "delim") {
	case "ok":
		content = append(content, 0)
		content = append(content, key...)
		content = append(content, byte(mi(m, "parity")))
	case "missing":
		content = append(content, 'x')
		content = append(content, key...)
		content = append(content, byte(mi(m, "parity")))
	case "last":
		// the only NUL is the very last byte
		content = append(content, 'x')
		content = append(content, key...)
		content = append(content, 0)
	}
	var out []byte
	first := true
	for len(content) > 0 {
		n := len(content)
		if n > 255 {
			n = 255
		}
		typ := byte(0xFF)
		if first {
			typ = byte(mi(m, "type"))
			first = false
		}
		out = append(out, byte(n), typ)
		out = append(out, content[:n]...)
		content = content[n:]
	}
	c := &wireCase{module: "winbox", first: out}
	cc := map[string]any{}
	if l := mlist(cfg, "modes"); len(l) > 0 {
		cc["modes"] = l
	}
	if s := ms_(cfg, "username"); s != "" {
		cc["username"] = s
	}
	if s := ms_(cfg, "regexp"); s != "" {
		cc["username_regexp"] = s
	}
	c.cfg = cc
	return c, nil
}

func encodeHTTPJunk(v *wireVec) (*wireCase, error) {
	n := mi(v.Msg, "junk")
	b := []byte(strings.Repeat("ABCDEFGHIJKLMNOPQRSTUVWXYZ", 2)[:n])
	if ms_(v.Msg, "eol") == "crlf" {
		b = append(b, '\r')
	}
	b = append(b, '\n')
	return &wireCase{module: "http", first: b, cfg: []map[string]any{}}, nil
}
