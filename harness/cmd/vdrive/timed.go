package main

import (
	"context"
	"encoding/json"
	"flag"
	"fmt"
	"net"
	"strings"
	"sync"
	"time"

	"github.com/caddyserver/caddy/v2"
	"github.com/mholt/caddy-l4/layer4"
	"go.uber.org/zap/zapcore"

	"verifharness/vh"
)

type timedScen struct {
	Transport string `json:"transport"`
	Scen      string `json:"scen"`
	T         int    `json:"T"`
	Phase     int    `json:"phase"`
}

type timedTrace struct {
	ID         string  `json:"id"`
	Transport  string  `json:"transport"`
	Scen       string  `json:"scen"`
	T          int     `json:"T"`
	Phase      int     `json:"phase"`
	Eps        int     `json:"eps"`
	Slack      int     `json:"slack"`
	Limit      int     `json:"limit"`
	Chunk      int     `json:"chunk"`
	Want       int     `json:"want"`
	NeedClosed bool    `json:"needClosed"`
	Ev         []vh.Ev `json:"ev"`
}

func abortKind(errStr string) string {
	switch {
	case strings.Contains(errStr, "aborted matching according to timeout"):
		return "timeout"
	case strings.Contains(errStr, "matching buffer is full"):
		return "full"
	case errStr == "EOF":
		return "eof"
	}
	return "merr"
}

func timedRoutes(scen string, T time.Duration) []byte {
	var routes []map[string]any
	if scen == "nested" {
		// the outer route matches on 4 bytes; its subroute starts a matching phase of its own (same timeout) that never decides
		routes = []map[string]any{{
			"match": []map[string]any{{"verif_m0": map[string]any{"at": 4, "v": "Y", "w": "Y"}}},
			"handle": []map[string]any{{"handler": "verif_h", "k": "mark", "l": 1, "r": 1},
				{"handler": "subroute", "matching_timeout": int64(T), "routes": []map[string]any{{
					"match":  []map[string]any{{"verif_m1": map[string]any{"at": 1 << 20, "v": "Y", "w": "Y"}}},
					"handle": []map[string]any{{"handler": "verif_h", "k": "term", "l": 2, "r": 1}}}}}},
		}}
	} else if scen == "slowhandler" {
		routes = []map[string]any{{
			"match":  []map[string]any{{"verif_m0": map[string]any{"at": 4, "v": "Y", "w": "Y"}}},
			"handle": []map[string]any{{"handler": "verif_h", "k": "mark", "l": 1, "r": 1}, {"handler": "verif_h", "k": "eatrec", "n": 12}},
		}}
	} else {
		// a route that stays undecided whatever arrives (until the buffer is full)
		routes = []map[string]any{{
			"match":  []map[string]any{{"verif_m0": map[string]any{"at": 1 << 20, "v": "Y", "w": "Y"}}},
			"handle": []map[string]any{{"handler": "verif_h", "k": "mark", "l": 1, "r": 1}, {"handler": "verif_h", "k": "term", "l": 1, "r": 1}},
		}}
	}
	b, _ := json.Marshal(routes)
	return b
}

func waitPhase(ms int) {
	for i := 0; i < 3000; i++ {
		cur := time.Now().Nanosecond() / 1e6
		d := ms - cur
		if d < 0 {
			d += 1000
		}
		if d <= 1 {
			return
		}
		if d > 20 {
			time.Sleep(time.Duration(d-10) * time.Millisecond)
		} else {
			time.Sleep(200 * time.Microsecond)
		}
	}
}

func runTimed(sc timedScen, idx int) (*timedTrace, error) {
	ctx, cancel := caddy.NewContext(caddy.Context{Context: context.Background()})
	defer cancel()
	logger, obs := vh.NewLogObs(zapcore.WarnLevel)
	srv := &layer4.Server{MatchingTimeout: caddy.Duration(time.Duration(sc.T) * time.Millisecond)}
	if err := json.Unmarshal(timedRoutes(sc.Scen, time.Duration(sc.T)*time.Millisecond), &srv.Routes); err != nil {
		return nil, err
	}
	if err := srv.Provision(ctx, logger); err != nil {
		return nil, err
	}
	rec := vh.NewRecorder(vh.MakeStream(int64(idx), 70000))
	obs.On = func(le vh.LogEntry) {
		if le.Msg == "matching connection" {
			rec.Add(vh.Ev{"e": "Abort", "k": abortKind(fmt.Sprint(le.Fields["error"]))})
		}
	}
	slack := sc.T / 4
	if slack < 250 {
		slack = 250
	}
	tr := &timedTrace{ID: fmt.Sprintf("timed:%s:%s:T%d:p%d", sc.Transport, sc.Scen, sc.T, sc.Phase), Transport: sc.Transport, Scen: sc.Scen,
		T: sc.T, Phase: sc.Phase, Eps: 2, Slack: slack, Limit: 8192, Chunk: 2048, Want: 12, NeedClosed: sc.Transport == "tcp" || sc.Transport == "wrap"}
	T := time.Duration(sc.T) * time.Millisecond
	horizon := 3*T + time.Duration(slack)*time.Millisecond + 1500*time.Millisecond

	// the client's sending schedule, common to both transports
	client := func(write func([]byte) error, stop <-chan struct{}) {
		s := rec.Stream
		switch sc.Scen {
		case "silent":
			write(s[:5])
		case "exact":
			// one segment / datagram of exactly one prefetch chunk, then silence
			write(s[:2048])
		case "trickle":
			iv := T / 8
			if iv < 2*time.Millisecond {
				iv = 2 * time.Millisecond
			}
			for i := 0; i < 64; i++ {
				if write(s[i:i+1]) != nil {
					return
				}
				select {
				case <-stop:
					return
				case <-time.After(iv):
				}
			}
		case "flood":
			for i := 0; i < 64; i++ {
				if write(s[i*1024:(i+1)*1024]) != nil {
					return
				}
				select {
				case <-stop:
					return
				default:
				}
			}
		case "nested":
			// the outer route is decided only by the second write, a third of the timeout in
			write(s[:2])
			select {
			case <-stop:
				return
			case <-time.After(T / 3):
			}
			write(s[2:4])
		case "slowhandler":
			write(s[:4])
			select {
			case <-stop:
				return
			case <-time.After(2 * T):
			}
			write(s[4:8])
			// a further read is ENTERED after the old matching deadline has passed
			select {
			case <-stop:
				return
			case <-time.After(T/4 + 5*time.Millisecond):
			}
			write(s[8:12])
		}
	}
	stop := make(chan struct{})
	done := make(chan struct{})
	waitPhase(sc.Phase)
	if sc.Transport == "tcp" {
		ln, err := net.Listen("tcp", "127.0.0.1:0")
		if err != nil {
			return nil, err
		}
		defer ln.Close()
		cc, err := net.Dial("tcp", ln.Addr().String())
		if err != nil {
			return nil, err
		}
		defer cc.Close()
		sconn, err := ln.Accept()
		if err != nil {
			return nil, err
		}
		tkey := sconn.LocalAddr().String() + "|" + sconn.RemoteAddr().String()
		vh.RegisterRec(tkey, rec)
		defer vh.UnregisterRec(tkey)
		rec.T0 = time.Now()
		go func() {
			layer4.VerifServerHandle(srv, &vh.ObsConn{Conn: sconn, Rec: rec})
			rec.Add(vh.Ev{"e": "Return"})
			close(done)
		}()
		go client(func(b []byte) error { _, err := cc.Write(b); return err }, stop)
		select {
		case <-done:
		case <-time.After(horizon):
		}
		close(stop)
		if sc.Scen == "slowhandler" {
			cc.Close()
			select {
			case <-done:
			case <-time.After(time.Second):
			}
		}
	} else if sc.Transport == "wrap" {
		// listener-wrapper mode: the same routes inside caddy.listeners.layer4 around a loopback TCP listener
		base, err := vh.CaddyContext()
		if err != nil {
			return nil, err
		}
		wctx, wcancel := caddy.NewContext(base)
		defer wcancel()
		lw := &layer4.ListenerWrapper{MatchingTimeout: caddy.Duration(T)}
		if err := json.Unmarshal(timedRoutes(sc.Scen, time.Duration(sc.T)*time.Millisecond), &lw.Routes); err != nil {
			return nil, err
		}
		if err := lw.Provision(wctx); err != nil {
			return nil, err
		}
		layer4.VerifListenerWrapperLogger(lw, logger)
		ln, err := net.Listen("tcp", "127.0.0.1:0")
		if err != nil {
			return nil, err
		}
		wl := lw.WrapListener(&obsListener{Listener: ln, rec: rec})
		defer wl.Close()
		go func() {
			// the wrapped listener's user: nothing falls through in these scenarios
			for {
				c, err := wl.Accept()
				if err != nil {
					return
				}
				rec.Add(vh.Ev{"e": "HErr"})
				c.Close()
			}
		}()
		// (the wrapper accepts and arms the deadline as soon as the client connects: time zero is just before that)
		rec.T0 = time.Now()
		cc, err := net.Dial("tcp", ln.Addr().String())
		if err != nil {
			return nil, err
		}
		defer cc.Close()
		wkey := ln.Addr().String() + "|" + cc.LocalAddr().String()
		vh.RegisterRec(wkey, rec)
		defer vh.UnregisterRec(wkey)
		go client(func(b []byte) error { _, err := cc.Write(b); return err }, stop)
		// the connection ends when layer4 closes it: wait for that
		closedSeen := func() bool {
			for _, e := range rec.Snapshot() {
				if e["e"] == "Closed" {
					return true
				}
			}
			return false
		}
		deadline := time.Now().Add(horizon)
		for time.Now().Before(deadline) && !closedSeen() {
			time.Sleep(5 * time.Millisecond)
		}
		close(stop)
		if sc.Scen == "slowhandler" {
			cc.Close()
			for k := 0; k < 200 && !closedSeen(); k++ {
				time.Sleep(5 * time.Millisecond)
			}
		}
	} else {
		pc, err := net.ListenPacket("udp", "127.0.0.1:0")
		if err != nil {
			return nil, err
		}
		go layer4.VerifServePacket(srv, pc)
		defer pc.Close()
		cc, err := net.Dial("udp", pc.LocalAddr().String())
		if err != nil {
			return nil, err
		}
		defer cc.Close()
		vh.RegisterRec(pc.LocalAddr().String()+"|"+cc.LocalAddr().String(), rec)
		defer vh.UnregisterRec(pc.LocalAddr().String() + "|" + cc.LocalAddr().String())
		rec.T0 = time.Now()
		go client(func(b []byte) error { _, err := cc.Write(b); return err }, stop)
		// the association ends when matching is abandoned or the handler returns: wait for either
		deadline := time.Now().Add(horizon)
		for time.Now().Before(deadline) {
			ended := false
			for _, e := range rec.Snapshot() {
				if e["e"] == "Abort" || e["e"] == "HRead" && sc.Scen == "slowhandler" || e["e"] == "HErr" || e["e"] == "Closed" && sc.Scen == "nested" {
					ended = true
				}
			}
			if ended {
				break
			}
			time.Sleep(5 * time.Millisecond)
		}
		close(stop)
		time.Sleep(20 * time.Millisecond)
	}
	for _, e := range rec.Snapshot() {
		if _, ok := e["t"]; !ok {
			e["t"] = 0
		}
		tr.Ev = append(tr.Ev, e)
	}
	if tr.Ev == nil {
		tr.Ev = []vh.Ev{}
	}
	return tr, nil
}

// obsListener hands out observed connections (reads, deadlines and Close are recorded)
type obsListener struct {
	net.Listener
	rec *vh.Recorder
}

func (l *obsListener) Accept() (net.Conn, error) {
	c, err := l.Listener.Accept()
	if err != nil {
		return nil, err
	}
	return &vh.ObsConn{Conn: c, Rec: l.rec}, nil
}

func init() {
	register("timed-run", "scaled real-time runs of the matching phase (C05) over TCP and UDP", func(args []string) error {
		fs := flag.NewFlagSet("timed-run", flag.ExitOnError)
		in := fs.String("in", "", "scenario grid (NDJSON from L4TimedGrid)")
		out := fs.String("out", "", "timed traces (NDJSON for L4TimedTrace)")
		sum := fs.String("summary", "", "summary JSON")
		only := fs.String("transport", "", "restrict to one transport")
		fs.Parse(args)
		var scens []timedScen
		if err := vh.ReadLines(*in, 1, func(i int, line []byte) {
			var s timedScen
			if err := json.Unmarshal(line, &s); err != nil {
				panic(err)
			}
			if *only == "" || *only == s.Transport {
				scens = append(scens, s)
			}
		}); err != nil {
			return err
		}
		lw, err := vh.NewLineWriter(*out)
		if err != nil {
			return err
		}
		// a UDP association has no socket of its own whose Close could be observed: the hook in packetConn.Close says so
		layer4.SetVerifHook(func(point string, obj any) {
			if point == "udp.close.closed" {
				// (keyed by server socket AND client address: client ports are reused from scenario to scenario, and an
				// association of a finished scenario may be closed while the next one already uses its port)
				if r := vh.RecByAddr(layer4.VerifPacketConnKey(obj)); r != nil {
					r.Add(vh.Ev{"e": "Closed"})
				}
			}
		})
		defer layer4.SetVerifHook(nil)
		// starvation watchdog: a calibrated sleep must not overshoot much
		var maxOver time.Duration
		wstop := make(chan struct{})
		go func() {
			for {
				select {
				case <-wstop:
					return
				default:
				}
				t := time.Now()
				time.Sleep(5 * time.Millisecond)
				if o := time.Since(t) - 5*time.Millisecond; o > maxOver {
					maxOver = o
				}
			}
		}()
		var wg sync.WaitGroup
		var mu sync.Mutex
		var errs []string
		var samples []any
		sem := make(chan struct{}, 48)
		for i, s := range scens {
			wg.Add(1)
			sem <- struct{}{}
			go func(i int, s timedScen) {
				defer wg.Done()
				defer func() { <-sem }()
				tr, err := runTimed(s, i)
				mu.Lock()
				defer mu.Unlock()
				if err != nil {
					errs = append(errs, err.Error())
					return
				}
				lw.Write(tr)
				if len(samples) < 3 {
					samples = append(samples, tr)
				}
			}(i, s)
		}
		wg.Wait()
		close(wstop)
		if err := lw.Close(); err != nil {
			return err
		}
		return writeJSON(*sum, map[string]any{"scenarios": len(scens), "errors": errs, "max_sleep_overshoot_ms": int(maxOver / time.Millisecond), "samples": samples})
	})
}
