package main

import (
	"context"
	"crypto/tls"
	"fmt"
	"net"
	"sync"
	"sync/atomic"
	"time"

	_ "github.com/mholt/caddy-l4/modules/l4quic"
	"github.com/quic-go/quic-go"
)

// QUIC: Initial packets written by a real quic-go client into a capturing PacketConn.

func init() {
	wireEncoders["quic"] = encodeQUIC
}

var capturePorts atomic.Int32

type capturePC struct {
	port  int
	first chan []byte
	once  sync.Once
	done  chan struct{}
}

func (c *capturePC) ReadFrom(p []byte) (int, net.Addr, error) {
	<-c.done
	return 0, nil, net.ErrClosed
}
func (c *capturePC) WriteTo(p []byte, _ net.Addr) (int, error) {
	b := append([]byte{}, p...)
	select {
	case c.first <- b:
	default:
	}
	return len(p), nil
}
func (c *capturePC) Close() error { c.once.Do(func() { close(c.done) }); return nil }

// quic-go keeps one multiplexer entry per local address: every capturing connection needs its own
func (c *capturePC) LocalAddr() net.Addr {
	return &net.UDPAddr{IP: net.IPv4(127, 0, 0, 1), Port: c.port}
}
func (c *capturePC) SetDeadline(time.Time) error      { return nil }
func (c *capturePC) SetReadDeadline(time.Time) error  { return nil }
func (c *capturePC) SetWriteDeadline(time.Time) error { return nil }
func (c *capturePC) SetReadBuffer(int) error          { return nil }
func (c *capturePC) SetWriteBuffer(int) error         { return nil }

var quicCache sync.Map

func quicInitial(sni, alpn string) ([]byte, error) {
	key := sni + "|" + alpn
	if b, ok := quicCache.Load(key); ok {
		return b.([]byte), nil
	}
	pc := &capturePC{port: 20000 + int(capturePorts.Add(1)), first: make(chan []byte, 1), done: make(chan struct{})}
	tr := &quic.Transport{Conn: pc}
	ctx, cancel := context.WithTimeout(context.Background(), 2*time.Second)
	defer cancel()
	go func() {
		conn, err := tr.Dial(ctx, &net.UDPAddr{IP: net.IPv4(127, 0, 0, 1), Port: 4433}, &tls.Config{ServerName: sni, NextProtos: []string{alpn}, InsecureSkipVerify: true}, &quic.Config{})
		if err == nil {
			conn.CloseWithError(0, "")
		}
	}()
	select {
	case b := <-pc.first:
		cancel()
		go func() { time.Sleep(50 * time.Millisecond); tr.Close(); pc.Close() }()
		quicCache.Store(key, b)
		return b, nil
	case <-time.After(2 * time.Second):
		tr.Close()
		pc.Close()
		return nil, fmt.Errorf("the QUIC client wrote no packet")
	}
}

func encodeQUIC(v *wireVec) (*wireCase, error) {
	m, cfg := v.Msg, v.Cfg
	c := &wireCase{module: "quic"}
	ini, err := quicInitial(ms_(m, "sni"), ms_(m, "alpn"))
	if err != nil {
		return nil, err
	}
	switch ms_(m, "kind") {
	case "initial", "tcp_initial":
		c.first = ini
	case "garbage_long":
		b := filler(1200, 3)
		b[0] = 0xC3
		copy(b[1:5], []byte{0, 0, 0, 1})
		c.first = b
	case "short_header":
		b := append([]byte{}, ini...)
		b[0] = 0x40 | b[0]&0x3f
		c.first = b
	case "nofixedbit":
		b := append([]byte{}, ini...)
		b[0] &^= 0x40
		c.first = b
	case "small_long":
		c.first = append([]byte{}, ini[:1199]...)
	case "big_long":
		c.first = append(append([]byte{}, ini...), make([]byte, 1460-len(ini))...)
	}
	mc := map[string]any{}
	if l := mlist(cfg, "sni"); len(l) > 0 {
		mc["sni"] = l
	}
	if l := mlist(cfg, "alpn"); len(l) > 0 {
		mc["alpn"] = l
	}
	c.cfg = mc
	return c, nil
}
