package main

import (
	"bytes"
	"encoding/binary"
	"encoding/json"
	"errors"
	"flag"
	"fmt"
	"net"
	"os"
	"runtime/metrics"
	"strings"
	"time"

	"github.com/caddyserver/caddy/v2"
	"github.com/mholt/caddy-l4/layer4"
	_ "github.com/mholt/caddy-l4/modules/l4clock"
	_ "github.com/mholt/caddy-l4/modules/l4dns"
	_ "github.com/mholt/caddy-l4/modules/l4http"
	_ "github.com/mholt/caddy-l4/modules/l4openvpn"
	_ "github.com/mholt/caddy-l4/modules/l4postgres"
	_ "github.com/mholt/caddy-l4/modules/l4rdp"
	_ "github.com/mholt/caddy-l4/modules/l4regexp"
	_ "github.com/mholt/caddy-l4/modules/l4socks"
	_ "github.com/mholt/caddy-l4/modules/l4ssh"
	_ "github.com/mholt/caddy-l4/modules/l4winbox"
	_ "github.com/mholt/caddy-l4/modules/l4wireguard"
	_ "github.com/mholt/caddy-l4/modules/l4xmpp"
	"github.com/miekg/dns"
	"go.uber.org/zap"

	"verifharness/vh"
)

type wireVec struct {
	Proto string         `json:"proto"`
	Net   string         `json:"net"`
	Cfg   map[string]any `json:"cfg"`
	Msg   map[string]any `json:"msg"`
	Trail int            `json:"trail"`
	Gid   int            `json:"gid"`
}

func mi(m map[string]any, k string) int {
	if f, ok := m[k].(float64); ok {
		return int(f)
	}
	return 0
}
func ms_(m map[string]any, k string) string  { s, _ := m[k].(string); return s }
func mlist(m map[string]any, k string) []any { l, _ := m[k].([]any); return l }

// wireEncode is the harness's own encoder: abstract first message -> bytes, plus the matcher's
// module name and JSON, the remote address and (clock) the connection time.
type wireCase struct {
	module string
	cfg    any
	first  []byte
	remote net.Addr
	when   *time.Time
}

func filler(n int, seed byte) []byte {
	b := make([]byte, n)
	for i := range b {
		b[i] = 'a' + (seed+byte(i))%23
	}
	return b
}

func wireEncode(v *wireVec) (*wireCase, error) {
	c := &wireCase{module: v.Proto, cfg: map[string]any{}}
	m, cfg := v.Msg, v.Cfg
	switch v.Proto {
	case "ssh":
		c.first = []byte(ms_(m, "magic") + ms_(m, "version") + "-OpenSSH_9.6\r\n")
	case "xmpp":
		total, at := mi(m, "total"), mi(m, "at")
		b := bytes.Repeat([]byte{'x'}, total)
		copy(b, "<stream:stream to='a' ")
		if at >= 0 && at+6 <= total {
			copy(b[at:], "jabber")
		}
		c.first = b
	case "postgres":
		var body []byte
		if ms_(m, "kind") == "ssl" {
			body = binary.BigEndian.AppendUint32(nil, 80877103)
		} else {
			body = binary.BigEndian.AppendUint32(nil, uint32(mi(m, "major"))<<16)
			for p := 0; p < mi(m, "params"); p++ {
				body = append(body, fmt.Sprintf("key%d", p)...)
				body = append(body, 0)
				body = append(body, fmt.Sprintf("val%d", p)...)
				if want := map[string]int{"big": 7000, "max": 10000, "over": 10001}[ms_(m, "size")]; want > 0 && p == 0 {
					// pad the first value: 4 (length) + 4 (version) + key0 NUL val0<pad> NUL + final NUL = want
					body = append(body, filler(want-4-len(body)-2, 9)...)
				}
				if !(ms_(m, "term") == "nonul" && p == mi(m, "params")-1) {
					body = append(body, 0)
				}
			}
			if ms_(m, "term") == "ok" {
				body = append(body, 0)
			}
		}
		l := uint32(len(body) + 4)
		switch ms_(m, "len") {
		case "zero":
			l = 0
		case "three":
			l = 3
		case "seven":
			l = 7
		case "huge":
			l = 0x08000000
		case "max":
			l = 10001
		}
		c.first = append(binary.BigEndian.AppendUint32(nil, l), body...)
	case "socks4":
		ip := net.ParseIP(ms_(m, "ip")).To4()
		b := []byte{byte(mi(m, "vn")), byte(mi(m, "cd"))}
		b = binary.BigEndian.AppendUint16(b, uint16(mi(m, "port")))
		c.first = append(b, ip...)
		c.cfg = map[string]any{"commands": mlist(cfg, "commands"), "ports": mlist(cfg, "ports"), "networks": mlist(cfg, "networks")}
	case "socks5":
		meth := mlist(m, "methods")
		n := len(meth)
		switch ms_(m, "declared") {
		case "more":
			n++
		case "less":
			if n > 0 {
				n--
			}
		}
		b := []byte{byte(mi(m, "ver")), byte(n)}
		for _, x := range meth {
			b = append(b, byte(int(x.(float64))))
		}
		c.first = b
		c.cfg = map[string]any{"auth_methods": mlist(cfg, "auth_methods")}
	case "proxy_protocol":
		switch ms_(m, "kind") {
		case "v1":
			c.first = []byte("PROXY TCP4 1.2.3.4 5.6.7.8 1 2\r\n")
		case "v1lower":
			c.first = []byte("proxy TCP4 1.2.3.4 5.6.7.8 1 2\r\n")
		case "v1nospace":
			c.first = []byte("PROXYTCP4 1.2.3.4 5.6.7.8 1 2\r\n")
		case "v2":
			c.first = ppEncode(2, "TCP4", ppAddrs["TCP4"][0][0], ppAddrs["TCP4"][0][1])
		case "v2badsig":
			b := ppEncode(2, "TCP4", ppAddrs["TCP4"][0][0], ppAddrs["TCP4"][0][1])
			b[11] = 0x0B
			c.first = b
		case "v2short":
			c.first = ppSig[:11]
		}
	case "regexp":
		c.first = []byte(ms_(m, "text"))
		c.cfg = map[string]any{"pattern": ms_(cfg, "pattern"), "count": mi(cfg, "count")}
	case "clock":
		c.first = []byte("x")
		hhmmss := func(s int) string { return fmt.Sprintf("%02d:%02d:%02d", s/3600, s/60%60, s%60) }
		tz := mi(cfg, "tz")
		sign := "+"
		if tz < 0 {
			sign, tz = "-", -tz
		}
		zone := fmt.Sprintf("%s%02d:%02d", sign, tz/3600, tz/60%60)
		if tz == 99999 {
			zone = "Europe/Berlin"
		}
		c.cfg = map[string]any{"after": hhmmss(mi(cfg, "after")), "before": hhmmss(mi(cfg, "before")), "timezone": zone}
		month := time.January
		if ms_(m, "season") == "summer" {
			month = time.July
		}
		t := time.Date(2026, month, 15, 0, 0, 0, 0, time.UTC).Add(time.Duration(mi(m, "utc")) * time.Second)
		c.when = &t
	case "ip":
		c.first = []byte("x")
		c.remote = &net.TCPAddr{IP: net.ParseIP(ms_(m, "remote")), Port: 4321}
		inner := map[string]any{"ranges": mlist(cfg, "ranges")}
		if ms_(cfg, "which") == "not_remote_ip" {
			c.module = "not"
			c.cfg = []map[string]any{{"remote_ip": inner}}
		} else if ms_(cfg, "which") == "not_split" {
			c.module = "not"
			sets := []map[string]any{}
			for _, r := range mlist(cfg, "ranges") {
				sets = append(sets, map[string]any{"remote_ip": map[string]any{"ranges": []any{r}}})
			}
			c.cfg = sets
		} else {
			c.module = "remote_ip"
			c.cfg = inner
		}
	case "wireguard":
		b := filler(mi(m, "size"), 3)
		if len(b) >= 4 {
			b[0] = byte(mi(m, "type"))
			r := mi(m, "reserved")
			b[1], b[2], b[3] = byte(r), byte(r>>8), byte(r>>16)
		}
		c.first = b
		c.cfg = map[string]any{"zero": mi(cfg, "zero")}
	case "dns":
		q := new(dns.Msg)
		q.Id = 0x1234
		q.RecursionDesired = true
		q.Response = mi(m, "qr") == 1
		q.Rcode = mi(m, "rcode")
		q.Zero = mi(m, "z") == 1
		if mi(m, "qd") == 1 {
			q.Question = []dns.Question{{Name: ms_(m, "name"), Qtype: dns.StringToType[ms_(m, "qtype")], Qclass: dns.ClassINET}}
		}
		b, err := q.Pack()
		if err != nil {
			return nil, err
		}
		if v.Net == "tcp" {
			l := len(b)
			switch ms_(m, "lenfield") {
			case "short":
				l--
			case "long":
				l++
			}
			b = append(binary.BigEndian.AppendUint16(nil, uint16(l)), b...)
		}
		c.first = b
		rules := func(k string) []map[string]any {
			out := []map[string]any{}
			for _, r := range mlist(cfg, k) {
				rm := r.(map[string]any)
				o := map[string]any{}
				if s := ms_(rm, "name"); s != "" {
					o["name"] = s
				}
				if s := ms_(rm, "type"); s != "" {
					o["type"] = s
				}
				if s := ms_(rm, "name_regexp"); s != "" {
					o["name_regexp"] = s
				}
				if s := ms_(rm, "type_regexp"); s != "" {
					o["type_regexp"] = s
				}
				out = append(out, o)
			}
			return out
		}
		cc := map[string]any{"default_deny": cfg["default_deny"], "prefer_allow": cfg["prefer_allow"]}
		if a := rules("allow"); len(a) > 0 {
			cc["allow"] = a
		}
		if d := rules("deny"); len(d) > 0 {
			cc["deny"] = d
		}
		c.cfg = cc
	default:
		if enc, ok := wireEncoders[v.Proto]; ok {
			return enc(v)
		}
		return nil, fmt.Errorf("no encoder for proto %q", v.Proto)
	}
	return c, nil
}

// further protocols register their encoders here
var wireEncoders = map[string]func(*wireVec) (*wireCase, error){}

var allocSample = []metrics.Sample{{Name: "/gc/heap/allocs:bytes"}}

func allocBytes() uint64 {
	metrics.Read(allocSample)
	return allocSample[0].Value.Uint64()
}

type countConn struct {
	*vh.ScriptConn
	reads int
}

func (c *countConn) Read(p []byte) (int, error) { c.reads++; return c.ScriptConn.Read(p) }

// evalPrefix evaluates the real matcher on the first n bytes of stream, preloaded through real prefetch rounds.
// form 0: the matcher alone in a matcher set; form 1: OR of two matcher sets, the second one answering a definite no
// (MatcherSets.AnyMatch); form 2: AND with a matcher that reads one byte and says yes before it (the set must rewind
// between its matchers). All three mean the same; the route-level combinators are part of what C06 speaks about.
type wireYes struct{}

func (wireYes) Match(cx *layer4.Connection) (bool, error) {
	var b [1]byte
	_, _ = cx.Read(b[:])
	return true, nil
}

type wireNo struct{}

func (wireNo) Match(*layer4.Connection) (bool, error) { return false, nil }

func evalPrefix(m layer4.ConnMatcher, wc *wireCase, stream []byte, n int, netw string, chunk int, form int) (verdict string, alloc uint64, pure bool) {
	rec := vh.NewRecorder(stream)
	sc := &vh.ScriptConn{Rec: rec, Slen: n, EndKind: "eof", Start: time.Now(), Unit: time.Hour}
	if chunk > 0 && netw == "tcp" {
		for k := 0; k*chunk < n; k++ {
			sc.Pulls = append(sc.Pulls, chunk)
		}
	}
	if n > 8191 && netw == "tcp" {
		// the limit is checked before a chunk is read: at 8191 bytes one more chunk is read, so up to 10239 bytes can be
		// looked at by a matcher - with this segmentation
		sc.Pulls = []int{2048, 2048, 2048, 2047}
	}
	if wc.remote != nil {
		sc.Remote = wc.remote
	}
	if netw == "udp" {
		sc.Local = &net.UDPAddr{IP: net.IPv4(127, 0, 0, 1), Port: 5300}
		sc.Remote = &net.UDPAddr{IP: net.IPv4(127, 0, 0, 1), Port: 50001}
	}
	cc := &countConn{ScriptConn: sc}
	cx := layer4.WrapConnection(cc, make([]byte, 0, 2048), zap.NewNop())
	if wc.when != nil {
		if repl, ok := cx.Context.Value(layer4.ReplacerCtxKey).(*caddy.Replacer); ok {
			repl.Set("l4.conn.wrap_time", *wc.when)
		}
	}
	for {
		bl, _, _, _ := layer4.VerifConnState(cx)
		if bl >= n {
			break
		}
		if err := layer4.VerifPrefetch(cx); err != nil {
			break
		}
	}
	bl0, off0, _, _ := layer4.VerifConnState(cx)
	reads0 := cc.reads
	a0 := allocBytes()
	func() {
		defer func() {
			if r := recover(); r != nil {
				verdict = "P"
			}
		}()
		var ok bool
		var err error
		switch form {
		case 1:
			sets := layer4.MatcherSets{{m}, {wireNo{}}}
			ok, err = sets.AnyMatch(cx)
		case 2:
			ok, err = layer4.MatcherSet{wireYes{}, m}.Match(cx)
		default:
			ok, err = layer4.MatcherSet{m}.Match(cx)
		}
		switch {
		case errors.Is(err, layer4.ErrConsumedAllPrefetchedBytes):
			verdict = "M"
		case err != nil:
			verdict = "E"
		case ok:
			verdict = "Y"
		default:
			verdict = "N"
		}
	}()
	alloc = allocBytes() - a0
	bl1, off1, _, matching := layer4.VerifConnState(cx)
	pure = cc.reads == reads0 && bl1 == bl0 && off1 == off0 && !matching
	if verdict == "P" {
		pure = true // judged by A1
	}
	return
}

// evalIncremental delivers the stream to ONE connection in the given segments (cuts = the stream lengths after each
// segment) and asks the matcher after every segment, as the routing loop does while a route is undecided; whatever the
// matcher or the connection remembers between evaluations is in play. Returns whether every evaluation before the
// last segment asked for more, and the verdict after the last one.
func evalIncremental(m layer4.ConnMatcher, wc *wireCase, stream []byte, cuts []int) (allMore bool, final string) {
	rec := vh.NewRecorder(stream)
	sc := &vh.ScriptConn{Rec: rec, Slen: len(stream), EndKind: "eof", Start: time.Now(), Unit: time.Hour}
	prev := 0
	for _, c := range cuts {
		sc.Pulls = append(sc.Pulls, c-prev)
		prev = c
	}
	if wc.remote != nil {
		sc.Remote = wc.remote
	}
	cx := layer4.WrapConnection(sc, make([]byte, 0, 2048), zap.NewNop())
	if wc.when != nil {
		if repl, ok := cx.Context.Value(layer4.ReplacerCtxKey).(*caddy.Replacer); ok {
			repl.Set("l4.conn.wrap_time", *wc.when)
		}
	}
	allMore = true
	for k := range cuts {
		if err := layer4.VerifPrefetch(cx); err != nil {
			return allMore, "E"
		}
		func() {
			defer func() {
				if r := recover(); r != nil {
					final = "P"
				}
			}()
			ok, err := layer4.MatcherSet{m}.Match(cx)
			switch {
			case errors.Is(err, layer4.ErrConsumedAllPrefetchedBytes):
				final = "M"
			case err != nil:
				final = "E"
			case ok:
				final = "Y"
			default:
				final = "N"
			}
		}()
		if k < len(cuts)-1 && final != "M" {
			allMore = false
			return
		}
	}
	return
}

func prefixLens(total, msglen int) []int {
	set := map[int]bool{0: true, total: true, msglen: true}
	for n := 0; n <= total && n <= 96; n++ {
		set[n] = true
	}
	for n := 96; n <= total; n += 61 {
		set[n] = true
	}
	for _, d := range []int{-2, -1, 0, 1, 2} {
		// (257 = one full Winbox chunk with its two header bytes; 2048 / 4096 = prefetch chunk boundaries)
		for _, b := range []int{msglen, total, 257, 514, 2048, 4096} {
			if x := b + d; x >= 0 && x <= total {
				set[x] = true
			}
		}
	}
	var out []int
	for n := 0; n <= total; n++ {
		if set[n] {
			out = append(out, n)
		}
	}
	return out
}

func init() {
	register("wire-run", "every TLC-enumerated (message, filter configuration) vector on the real matcher, at every prefix (C14 C06 C04)", func(args []string) error {
		fs := flag.NewFlagSet("wire-run", flag.ExitOnError)
		in := fs.String("in", "", "vectors (NDJSON from L4WireGrid)")
		out := fs.String("out", "", "observations (NDJSON for L4WireTrace)")
		sum := fs.String("summary", "", "summary JSON")
		skip := fs.Int("skip", 0, "skip this many vectors (after a crash)")
		fs.Parse(args)
		base, err := vh.CaddyContext()
		if err != nil {
			return err
		}
		ctx, cancel := caddy.NewContext(base)
		defer cancel()
		f, err := os.OpenFile(*out, os.O_CREATE|os.O_WRONLY|os.O_APPEND, 0o644)
		if err != nil {
			return err
		}
		defer f.Close()
		enc := json.NewEncoder(f)
		evals, vecs := 0, 0
		byProto := map[string]int{}
		var samples []any
		cache := map[string]layer4.ConnMatcher{}
		err = vh.ReadLines(*in, 1, func(i int, line []byte) {
			if i < *skip {
				return
			}
			var v wireVec
			if err := json.Unmarshal(line, &v); err != nil {
				panic(err)
			}
			wc, err := wireEncode(&v)
			if err != nil {
				panic(fmt.Sprintf("vector %d: %v", i, err))
			}
			raw, _ := json.Marshal(wc.cfg)
			key := wc.module + string(raw)
			m, ok := cache[key]
			if !ok {
				mod, err := ctx.LoadModuleByID("layer4.matchers."+wc.module, raw)
				if err != nil {
					panic(fmt.Sprintf("vector %d: provisioning %s %s: %v", i, wc.module, raw, err))
				}
				m = mod.(layer4.ConnMatcher)
				cache[key] = m
			}
			stream := append(append([]byte{}, wc.first...), filler(v.Trail, 7)...)
			msglen := len(wc.first)
			// announce before evaluating: a fatal error (out of memory) is attributed to this vector
			fmt.Printf("VECTOR %d\n", i)
			var lens []int
			if v.Net == "udp" {
				lens = []int{len(stream)}
				for n := 0; n < len(stream) && n <= 96; n++ {
					lens = append([]int{n}, lens...)
				}
				if len(stream) > 1 {
					lens = append([]int{len(stream) - 1}, lens...)
				}
				// datagrams: evaluate truncated ones too (robustness), in increasing length
				seen := map[int]bool{}
				var u []int
				for n := 0; n <= len(stream); n++ {
					for _, x := range lens {
						if x == n && !seen[n] {
							seen[n] = true
							u = append(u, n)
						}
					}
				}
				lens = u
			} else {
				lens = prefixLens(len(stream), msglen)
			}
			type vd struct {
				N int    `json:"n"`
				V string `json:"v"`
			}
			var verdicts []vd
			repeatOK, pureOK := true, true
			var maxAlloc uint64
			for k, n := range lens {
				if maxAlloc > 16<<20 && n != len(stream) && n != msglen {
					// the allocation bound is already broken by far: do not repeat it on every prefix
					continue
				}
				chunk := []int{0, 1, 3, 7}[k%4]
				eval := evalPrefix
				if v.Proto == "quic" {
					// the QUIC matcher gives its embedded listener 100 ms of wall-clock time: a "no" of a starved
					// process is not a verdict; ask again (a datagram that must not match never says yes)
					eval = func(m layer4.ConnMatcher, wc *wireCase, stream []byte, n int, netw string, chunk int, form int) (string, uint64, bool) {
						ver, alloc, pure := evalPrefix(m, wc, stream, n, netw, chunk, form)
						for try := 0; try < 2 && ver == "N" && n == len(stream) && ms_(v.Msg, "kind") == "initial"; try++ {
							ver, alloc, pure = evalPrefix(m, wc, stream, n, netw, chunk, form)
						}
						return ver, alloc, pure
					}
				}
				ver, alloc, pure := eval(m, wc, stream, n, v.Net, chunk, 0)
				ver2, pure2 := ver, pure
				if alloc <= 16<<20 {
					var alloc2 uint64
					// the repetition goes through an equivalent route-level combination
					ver2, alloc2, pure2 = eval(m, wc, stream, n, v.Net, 0, 1+v.Gid%2)
					if alloc2 < alloc {
						// the counter is process-wide: the smaller of two evaluations excludes background noise
						alloc = alloc2
					}
				}
				evals += 2
				if ver2 != ver {
					repeatOK = false
				}
				if !pure || !pure2 {
					pureOK = false
				}
				if alloc > maxAlloc {
					maxAlloc = alloc
				}
				verdicts = append(verdicts, vd{n, ver})
			}
			// the stream delivered to one connection in two or three segments, the matcher asked after each
			type incr struct {
				Cuts    []int  `json:"cuts"`
				AllMore bool   `json:"allMore"`
				Final   string `json:"final"`
			}
			incs := []incr{}
			if v.Net == "tcp" && v.Proto != "quic" && len(stream) >= 3 && len(stream) <= 8000 && maxAlloc <= 16<<20 {
				total := len(stream)
				sh := v.Gid % 5
				cutsets := [][]int{{total/3 + sh%2, 2*total/3 + sh, total}, {total/2 - sh, total}, {1 + sh, total - 1 - sh%2, total}}
				if total > 6200 {
					// a long message in many segments none of which ends on a chunk boundary: 100 (+sh), then 2048 at a time
					var c []int
					for x := 100 + sh; x < total; x += 2048 {
						c = append(c, x)
					}
					cutsets = append(cutsets, append(c, total))
				}
				for _, cuts := range cutsets {
					okc := true
					for j, c := range cuts {
						if c <= 0 || c > total || (j > 0 && c <= cuts[j-1]) || (j > 0 && c-cuts[j-1] > 2048) || (j == 0 && c > 2048) {
							okc = false
						}
					}
					if !okc {
						continue
					}
					am, fin := evalIncremental(m, wc, stream, cuts)
					evals += len(cuts)
					incs = append(incs, incr{cuts, am, fin})
				}
			}
			o := map[string]any{"id": fmt.Sprintf("wire:%d", v.Gid), "v": v,
				"o": map[string]any{"verdicts": verdicts, "msglen": msglen, "repeatOK": repeatOK, "pureOK": pureOK, "maxAlloc": maxAlloc, "allocBound": 524288, "inc": incs}}
			enc.Encode(o)
			vecs++
			byProto[v.Proto]++
			if len(samples) < 3 && len(verdicts) < 40 && strings.Contains("ssh socks4 dns", v.Proto) {
				samples = append(samples, o)
			}
		})
		if err != nil {
			return err
		}
		return writeJSON(*sum, map[string]any{"vectors": vecs, "evaluations": evals, "by_proto": byProto, "samples": samples})
	})
}
