package main

import (
	"context"
	"encoding/json"
	"flag"
	"fmt"
	"runtime"
	"strings"
	"sync"
	"time"

	"github.com/caddyserver/caddy/v2"
	"github.com/mholt/caddy-l4/layer4"
	"go.uber.org/zap"

	"verifharness/vh"
)

type udpScen struct {
	Clients   int  `json:"clients"`
	PerClient int  `json:"perClient"`
	Reads     int  `json:"reads"`
	Size      int  `json:"size"`
	Buf       int  `json:"buf"`
	Pace      int  `json:"pace"`
	Echo      bool `json:"echo"`
}

type udpTrace struct {
	ID       string  `json:"id"`
	Scen     any     `json:"scen"`
	Complete bool    `json:"complete"`
	Hist     []vh.Ev `json:"hist"`
}

func udpServer(h map[string]any) (*layer4.Server, context.CancelFunc, error) {
	ctx, cancel := caddy.NewContext(caddy.Context{Context: context.Background()})
	routes := []map[string]any{{"handle": []map[string]any{h}}}
	b, _ := json.Marshal(routes)
	srv := &layer4.Server{MatchingTimeout: caddy.Duration(5 * time.Second)}
	if err := json.Unmarshal(b, &srv.Routes); err != nil {
		cancel()
		return nil, nil, err
	}
	if err := srv.Provision(ctx, zap.NewNop()); err != nil {
		cancel()
		return nil, nil, err
	}
	return srv, cancel, nil
}

// runUDPFree: free-running burst through the real servePacket loop behind a scripted socket.
func runUDPFree(sc udpScen, idx int) (*udpTrace, error) {
	rec := vh.NewRecorder(nil)
	pc := vh.NewFakePC(rec)
	srv, cancel, err := udpServer(map[string]any{"handler": "verif_h", "k": "udp", "n": sc.Reads, "buf": sc.Buf, "echo": sc.Echo})
	if err != nil {
		return nil, err
	}
	defer cancel()
	for c := 1; c <= sc.Clients; c++ {
		vh.RegisterRec(vh.ClientAddr(c).String(), rec)
	}
	g := &udpGates{rec: rec, hold: map[string]chan struct{}{}, reached: map[string]chan struct{}{}}
	layer4.SetVerifHook(g.hook)
	defer layer4.SetVerifHook(nil)
	go layer4.VerifServePacket(srv, pc)
	seq := 0
	for i := 0; i < sc.PerClient; i++ {
		for c := 1; c <= sc.Clients; c++ {
			seq++
			pc.Inject(c, seq, sc.Size)
			if sc.Pace > 0 {
				time.Sleep(time.Duration(sc.Pace) * time.Millisecond)
			}
		}
	}
	// quiescence: no new event for a while
	last, stable := -1, 0
	for i := 0; i < 400 && stable < 6; i++ {
		time.Sleep(5 * time.Millisecond)
		if n := rec.Len(); n == last {
			stable++
		} else {
			last, stable = n, 0
		}
	}
	pc.Close()
	time.Sleep(5 * time.Millisecond)
	return &udpTrace{ID: fmt.Sprintf("udpfree:%d", idx), Scen: sc, Complete: true, Hist: rec.Snapshot()}, nil
}

// ---- hooks: record linearization points of the UDP loop, optionally holding goroutines ----

type udpGates struct {
	mu      sync.Mutex
	rec     *vh.Recorder
	hold    map[string]chan struct{} // point:client -> released when closed
	reached map[string]chan struct{}
}

func (g *udpGates) arm(key string) (reached chan struct{}, release func()) {
	g.mu.Lock()
	defer g.mu.Unlock()
	h := make(chan struct{})
	r := make(chan struct{})
	g.hold[key], g.reached[key] = h, r
	return r, func() { close(h) }
}

func (g *udpGates) hook(point string, obj any) {
	id := layer4.VerifPacketConnID(obj)
	if id == "" {
		return
	}
	a := -1
	if v, ok := vh.AssocByPtr.Load(id); ok {
		a = v.(int)
	}
	switch point {
	case "udp.close.closed":
		g.rec.Add(vh.Ev{"e": "Closed", "a": a})
	case "udp.loop.sent":
		g.rec.Add(vh.Ev{"e": "LoopSent", "a": a, "ptr": id})
	case "udp.loop.notice":
		g.rec.Add(vh.Ev{"e": "Notice", "a": a})
	case "udp.idle":
		g.rec.Add(vh.Ev{"e": "Idle", "a": a})
	}
	key := point + ":" + vh.ClientOfAddrString(layer4.VerifPacketConnAddr(obj))
	g.mu.Lock()
	h, ok := g.hold[key]
	r := g.reached[key]
	if ok {
		delete(g.hold, key)
		delete(g.reached, key)
	}
	g.mu.Unlock()
	if ok {
		close(r)
		<-h
	}
}

func waitEv(rec *vh.Recorder, pred func(vh.Ev) bool, from int, max time.Duration) bool {
	deadline := time.Now().Add(max)
	for time.Now().Before(deadline) {
		h := rec.Snapshot()
		for _, e := range h[from:] {
			if pred(e) {
				return true
			}
		}
		time.Sleep(200 * time.Microsecond)
	}
	return false
}

// runUDPCloseRace forces the schedule "handler returned and closed its connection, the close
// notice not yet sent, the same client's next datagram reaches the loop" through a gate.
func runUDPCloseRace(idx int, reads int, size int) (*udpTrace, error) {
	rec := vh.NewRecorder(nil)
	pc := vh.NewFakePC(rec)
	g := &udpGates{rec: rec, hold: map[string]chan struct{}{}, reached: map[string]chan struct{}{}}
	layer4.SetVerifHook(g.hook)
	defer layer4.SetVerifHook(nil)
	srv, cancel, err := udpServer(map[string]any{"handler": "verif_h", "k": "udp", "n": reads, "echo": true})
	if err != nil {
		return nil, err
	}
	defer cancel()
	vh.RegisterRec(vh.ClientAddr(1).String(), rec)
	vh.RegisterRec(vh.ClientAddr(2).String(), rec)
	go layer4.VerifServePacket(srv, pc)
	reached, release := g.arm("udp.close.closed:c1")
	seq := 0
	for i := 0; i < reads; i++ {
		seq++
		pc.Inject(1, seq, size)
	}
	infeasible := false
	select {
	case <-reached:
	case <-time.After(2 * time.Second):
		infeasible = true
	}
	n0 := rec.Len()
	seq++
	pc.Inject(1, seq, size) // arrives while the old association is closed but still registered
	placed := waitEv(rec, func(e vh.Ev) bool { return e["e"] == "LoopSent" || e["e"] == "New" }, n0, time.Second)
	release()
	seq++
	pc.Inject(2, seq, size)
	seq++
	pc.Inject(1, seq, size)
	last, stable := -1, 0
	for i := 0; i < 400 && stable < 6; i++ {
		time.Sleep(3 * time.Millisecond)
		if n := rec.Len(); n == last {
			stable++
		} else {
			last, stable = n, 0
		}
	}
	pc.Close()
	time.Sleep(3 * time.Millisecond)
	return &udpTrace{ID: fmt.Sprintf("udpgate:closerace:%d", idx), Complete: !infeasible,
		Scen: map[string]any{"schedule": "closerace", "reads": reads, "size": size, "gate_reached": !infeasible, "placed": placed}, Hist: rec.Snapshot()}, nil
}

// runUDPIdle: the 30 s idle expiry on the real code. Client 1's handler wants three datagrams; it gets one and then
// nothing for 30 s: the idle timer fires inside Read (the loop is told, Read returns EOF). Client 1's next datagrams
// must be served by ONE fresh association, also while and after the expired handler runs its deferred Close.
func runUDPIdle() (*udpTrace, error) {
	rec := vh.NewRecorder(nil)
	pc := vh.NewFakePC(rec)
	g := &udpGates{rec: rec, hold: map[string]chan struct{}{}, reached: map[string]chan struct{}{}}
	layer4.SetVerifHook(g.hook)
	defer layer4.SetVerifHook(nil)
	srv, cancel, err := udpServer(map[string]any{"handler": "verif_h", "k": "udp", "n": 3, "echo": true})
	if err != nil {
		return nil, err
	}
	defer cancel()
	vh.RegisterRec(vh.ClientAddr(1).String(), rec)
	go layer4.VerifServePacket(srv, pc)
	pc.Inject(1, 1, 64)
	expired := waitEv(rec, func(e vh.Ev) bool { return e["e"] == "Idle" }, 0, 33*time.Second)
	pc.Inject(1, 2, 64)
	time.Sleep(50 * time.Millisecond)
	pc.Inject(1, 3, 64)
	time.Sleep(50 * time.Millisecond)
	pc.Inject(1, 4, 64)
	last, stable := -1, 0
	for i := 0; i < 400 && stable < 10; i++ {
		time.Sleep(5 * time.Millisecond)
		if n := rec.Len(); n == last {
			stable++
		} else {
			last, stable = n, 0
		}
	}
	pc.Close()
	time.Sleep(5 * time.Millisecond)
	return &udpTrace{ID: "udpgate:idle:0", Complete: expired, Scen: map[string]any{"schedule": "idle expiry (30 s)", "expired": expired}, Hist: rec.Snapshot()}, nil
}

// runUDPErrHandler: the handler of client 1's first datagram returns an ERROR; after things have settled, client 1
// sends seven more datagrams and client 2 one: every one of them must be served by some association (the first
// association is over), and the loop must not be blocked.
func runUDPErrHandler(idx int) (*udpTrace, error) {
	rec := vh.NewRecorder(nil)
	pc := vh.NewFakePC(rec)
	g := &udpGates{rec: rec, hold: map[string]chan struct{}{}, reached: map[string]chan struct{}{}}
	layer4.SetVerifHook(g.hook)
	defer layer4.SetVerifHook(nil)
	srv, cancel, err := udpServer(map[string]any{"handler": "verif_h", "k": "udp", "n": 1, "echo": true, "fail": true})
	if err != nil {
		return nil, err
	}
	defer cancel()
	vh.RegisterRec(vh.ClientAddr(1).String(), rec)
	vh.RegisterRec(vh.ClientAddr(2).String(), rec)
	go layer4.VerifServePacket(srv, pc)
	pc.Inject(1, 1, 64)
	waitEv(rec, func(e vh.Ev) bool { return e["e"] == "End" }, 0, 2*time.Second)
	time.Sleep(60 * time.Millisecond)
	rec.Add(vh.Ev{"e": "Settled"})
	injected := make(chan struct{})
	go func() {
		defer close(injected)
		for seq := 2; seq <= 8; seq++ {
			pc.Inject(1, seq, 64)
			time.Sleep(15 * time.Millisecond)
		}
		pc.Inject(2, 9, 64)
	}()
	select {
	case <-injected:
	case <-time.After(3 * time.Second):
	}
	last, stable := -1, 0
	for i := 0; i < 400 && stable < 10; i++ {
		time.Sleep(5 * time.Millisecond)
		if n := rec.Len(); n == last {
			stable++
		} else {
			last, stable = n, 0
		}
	}
	pc.Close()
	time.Sleep(5 * time.Millisecond)
	return &udpTrace{ID: fmt.Sprintf("udpgate:errhandler:%d", idx), Complete: true, Scen: map[string]any{"schedule": "handler returns an error, later datagrams"}, Hist: rec.Snapshot()}, nil
}

// runUDPLateEnd: shutdown while handlers are still running. n clients each get an association whose handler has read
// its datagram and is held just before it returns; the socket is closed, the server loop returns; only then the
// handlers finish (their connections are closed by Server.handle, which notifies a loop that is no longer there).
// Nothing of that may crash the process, and the handlers must come to an end.
func runUDPLateEnd(idx, n int) (*udpTrace, error) {
	rec := vh.NewRecorder(nil)
	pc := vh.NewFakePC(rec)
	release := make(chan struct{})
	held := make(chan int, n)
	vh.UDPGate = func(point string, a int, client string) {
		if point == "return" {
			held <- a
			<-release
		}
	}
	defer func() { vh.UDPGate = nil }()
	srv, cancel, err := udpServer(map[string]any{"handler": "verif_h", "k": "udp", "n": 1, "echo": true})
	if err != nil {
		return nil, err
	}
	defer cancel()
	for c := 1; c <= n; c++ {
		vh.RegisterRec(vh.ClientAddr(c).String(), rec)
	}
	loopDone := make(chan struct{})
	go func() { layer4.VerifServePacket(srv, pc); close(loopDone) }()
	for c := 1; c <= n; c++ {
		pc.Inject(c, c, 64)
	}
	for k := 0; k < n; k++ {
		select {
		case <-held:
		case <-time.After(3 * time.Second):
			return &udpTrace{ID: fmt.Sprintf("udpgate:lateend:%d", idx), Complete: false, Scen: map[string]any{"schedule": "handlers outlive the loop"}, Hist: rec.Snapshot()}, nil
		}
	}
	pc.Close()
	select {
	case <-loopDone:
		rec.Add(vh.Ev{"e": "LoopEnd"})
	case <-time.After(3 * time.Second):
	}
	close(release)
	// the handlers end; one that blocks for ever in Close (on a notification nobody reads any more) stays behind
	time.Sleep(150 * time.Millisecond)
	stuck := countGoroutines("layer4.(*packetConn).Close")
	rec.Add(vh.Ev{"e": "LateEnd", "handlers": n, "stuckInClose": stuck})
	return &udpTrace{ID: fmt.Sprintf("udpgate:lateend:%d", idx), Complete: true, Scen: map[string]any{"schedule": "handlers outlive the loop", "n": n}, Hist: rec.Snapshot()}, nil
}

func countGoroutines(frame string) int {
	buf := make([]byte, 4<<20)
	buf = buf[:runtime.Stack(buf, true)]
	return strings.Count(string(buf), frame+"(")
}

// runUDPTwoStage: two routes over UDP. Route 1 matches the first datagram; its non-terminal handler reads two datagrams
// (the second one with a blocking Read) and passes on; route 2 needs more data, so the matching deadline is set AGAIN
// on the virtual connection. Later datagrams of the client and of another client must still be served.
func runUDPTwoStage(idx int) (*udpTrace, error) {
	rec := vh.NewRecorder(nil)
	pc := vh.NewFakePC(rec)
	g := &udpGates{rec: rec, hold: map[string]chan struct{}{}, reached: map[string]chan struct{}{}}
	layer4.SetVerifHook(g.hook)
	defer layer4.SetVerifHook(nil)
	ctx, cancel := caddy.NewContext(caddy.Context{Context: context.Background()})
	defer cancel()
	routes := []map[string]any{
		{"match": []map[string]any{{"verif_m0": map[string]any{"at": 1, "v": "Y", "w": "Y"}}}, "handle": []map[string]any{{"handler": "verif_h", "k": "udp", "n": 2, "then": true}}},
		{"match": []map[string]any{{"verif_m1": map[string]any{"at": 100, "v": "Y", "w": "Y"}}}, "handle": []map[string]any{{"handler": "verif_h", "k": "udp", "n": 100}}},
	}
	b, _ := json.Marshal(routes)
	srv := &layer4.Server{MatchingTimeout: caddy.Duration(5 * time.Second)}
	if err := json.Unmarshal(b, &srv.Routes); err != nil {
		return nil, err
	}
	if err := srv.Provision(ctx, zap.NewNop()); err != nil {
		return nil, err
	}
	vh.RegisterRec(vh.ClientAddr(1).String(), rec)
	vh.RegisterRec(vh.ClientAddr(2).String(), rec)
	go layer4.VerifServePacket(srv, pc)
	pc.Inject(1, 1, 64)
	time.Sleep(40 * time.Millisecond)
	pc.Inject(1, 2, 64)
	time.Sleep(40 * time.Millisecond)
	for seq := 3; seq <= 5; seq++ {
		pc.Inject(1, seq, 64)
		time.Sleep(15 * time.Millisecond)
	}
	time.Sleep(150 * time.Millisecond)
	rec.Add(vh.Ev{"e": "Settled"})
	injected := make(chan struct{})
	go func() {
		defer close(injected)
		pc.Inject(2, 6, 64)
		time.Sleep(15 * time.Millisecond)
		for seq := 7; seq <= 12; seq++ {
			pc.Inject(1, seq, 64)
			time.Sleep(15 * time.Millisecond)
		}
		pc.Inject(2, 13, 64)
	}()
	select {
	case <-injected:
	case <-time.After(3 * time.Second):
	}
	last, stable := -1, 0
	for i := 0; i < 400 && stable < 10; i++ {
		time.Sleep(5 * time.Millisecond)
		if n := rec.Len(); n == last {
			stable++
		} else {
			last, stable = n, 0
		}
	}
	pc.Close()
	time.Sleep(5 * time.Millisecond)
	return &udpTrace{ID: fmt.Sprintf("udpgate:twostage:%d", idx), Complete: true, Scen: map[string]any{"schedule": "two routes: non-terminal reader, then a route that needs more data"}, Hist: rec.Snapshot()}, nil
}

// runUDPMultiClose: n associations, each closed by 8 goroutines at once plus the server's own deferred Close.
func runUDPMultiClose(n int) error {
	rec := vh.NewRecorder(nil)
	pc := vh.NewFakePC(rec)
	srv, cancel, err := udpServer(map[string]any{"handler": "verif_h", "k": "closers", "n": 8})
	if err != nil {
		return err
	}
	defer cancel()
	go layer4.VerifServePacket(srv, pc)
	for i := 0; i < n; i++ {
		pc.Inject(1+i%20000, i+1, 16)
		if i%2000 == 1999 {
			time.Sleep(5 * time.Millisecond)
		}
	}
	time.Sleep(100 * time.Millisecond)
	pc.Close()
	time.Sleep(5 * time.Millisecond)
	return nil
}

func init() {
	register("udp-gated", "gate-scheduled interleavings of the real servePacket loop (C09)", func(args []string) error {
		fs := flag.NewFlagSet("udp-gated", flag.ExitOnError)
		out := fs.String("out", "", "traces (NDJSON for L4UdpTrace)")
		sum := fs.String("summary", "", "summary JSON")
		reps := fs.Int("reps", 30, "repetitions")
		closes := fs.Int("closes", 20000, "associations in the concurrent-Close stress")
		idle := fs.Bool("idle", false, "also run the 30 s idle-expiry scenario")
		fs.Parse(args)
		lw, err := vh.NewLineWriter(*out)
		if err != nil {
			return err
		}
		infeasible := 0
		var samples []any
		for i := 0; i < *reps; i++ {
			fmt.Printf("SCENARIO closerace %d\n", i)
			tr, err := runUDPCloseRace(i, 1+i%3, []int{16, 200, 9000}[i%3])
			if err != nil {
				return err
			}
			if !tr.Complete {
				infeasible++
			}
			lw.Write(tr)
			if len(samples) < 1 {
				samples = append(samples, tr)
			}
		}
		for i := 0; i < 3; i++ {
			fmt.Printf("SCENARIO errhandler %d\n", i)
			tr, err := runUDPErrHandler(i)
			if err != nil {
				return err
			}
			lw.Write(tr)
		}
		for i := 0; i < 3; i++ {
			fmt.Printf("SCENARIO twostage %d\n", i)
			tr, err := runUDPTwoStage(i)
			if err != nil {
				return err
			}
			lw.Write(tr)
		}
		for i, n := range []int{1, 3, 12} {
			fmt.Printf("SCENARIO lateend %d\n", i)
			tr, err := runUDPLateEnd(i, n)
			if err != nil {
				return err
			}
			lw.Write(tr)
		}
		if *idle {
			fmt.Printf("SCENARIO idle\n")
			tr, err := runUDPIdle()
			if err != nil {
				return err
			}
			lw.Write(tr)
		}
		// concurrent Close calls on one virtual connection (no gate can sit inside Close's critical section,
		// so this one is brute force: many associations, 8 closers each)
		fmt.Printf("SCENARIO multiclose %d\n", *closes)
		if err := runUDPMultiClose(*closes); err != nil {
			return err
		}
		if err := lw.Close(); err != nil {
			return err
		}
		return writeJSON(*sum, map[string]any{"runs": *reps, "infeasible": infeasible, "samples": samples, "multiclose_associations": *closes})
	})

	register("udp-run", "free-running datagram bursts through the real servePacket loop (C09); a crash kills this process", func(args []string) error {
		fs := flag.NewFlagSet("udp-run", flag.ExitOnError)
		in := fs.String("in", "", "scenario grid (NDJSON from L4UdpGrid)")
		out := fs.String("out", "", "traces (NDJSON for L4UdpTrace)")
		sum := fs.String("summary", "", "summary JSON")
		reps := fs.Int("reps", 1, "repetitions of each scenario")
		fs.Parse(args)
		var scens []udpScen
		if err := vh.ReadLines(*in, 1, func(i int, line []byte) {
			var s udpScen
			if err := json.Unmarshal(line, &s); err != nil {
				panic(err)
			}
			scens = append(scens, s)
		}); err != nil {
			return err
		}
		lw, err := vh.NewLineWriter(*out)
		if err != nil {
			return err
		}
		var samples []any
		runs := 0
		dlv := 0
		for r := 0; r < *reps; r++ {
			for i, s := range scens {
				// the scenario about to run is announced first, so that a crash can be attributed
				fmt.Printf("SCENARIO %d %+v\n", i, s)
				tr, err := runUDPFree(s, r*len(scens)+i)
				if err != nil {
					return err
				}
				for _, e := range tr.Hist {
					if e["e"] == "Dlv" {
						dlv++
					}
				}
				lw.Write(tr)
				runs++
				if len(samples) < 2 && len(tr.Hist) < 40 {
					samples = append(samples, tr)
				}
			}
		}
		if err := lw.Close(); err != nil {
			return err
		}
		return writeJSON(*sum, map[string]any{"runs": runs, "deliveries": dlv, "samples": samples})
	})
}
