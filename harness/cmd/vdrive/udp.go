package main

import (
	"context"
	"encoding/json"
	"flag"
	"fmt"
	"time"

	"github.com/caddyserver/caddy/v2"
	"github.com/mholt/caddy-l4/layer4"
	"go.uber.org/zap"

	"verifharness/vh"
)

type udpScen struct {
	Clients   int  `json:"clients"`
	PerClient int  `json:"perClient"`
	Reads     int  `json:"reads"`
	Size      int  `json:"size"`
	Buf       int  `json:"buf"`
	Pace      int  `json:"pace"`
	Echo      bool `json:"echo"`
}

type udpTrace struct {
	ID       string  `json:"id"`
	Scen     any     `json:"scen"`
	Complete bool    `json:"complete"`
	Hist     []vh.Ev `json:"hist"`
}

func udpServer(h map[string]any) (*layer4.Server, context.CancelFunc, error) {
	ctx, cancel := caddy.NewContext(caddy.Context{Context: context.Background()})
	routes := []map[string]any{{"handle": []map[string]any{h}}}
	b, _ := json.Marshal(routes)
	srv := &layer4.Server{MatchingTimeout: caddy.Duration(5 * time.Second)}
	if err := json.Unmarshal(b, &srv.Routes); err != nil {
		cancel()
		return nil, nil, err
	}
	if err := srv.Provision(ctx, zap.NewNop()); err != nil {
		cancel()
		return nil, nil, err
	}
	return srv, cancel, nil
}

// runUDPFree: free-running burst through the real servePacket loop behind a scripted socket.
func runUDPFree(sc udpScen, idx int) (*udpTrace, error) {
	rec := vh.NewRecorder(nil)
	pc := vh.NewFakePC(rec)
	srv, cancel, err := udpServer(map[string]any{"handler": "verif_h", "k": "udp", "n": sc.Reads, "buf": sc.Buf, "echo": sc.Echo})
	if err != nil {
		return nil, err
	}
	defer cancel()
	for c := 1; c <= sc.Clients; c++ {
		vh.RegisterRec(vh.ClientAddr(c).String(), rec)
	}
	go layer4.VerifServePacket(srv, pc)
	seq := 0
	for i := 0; i < sc.PerClient; i++ {
		for c := 1; c <= sc.Clients; c++ {
			seq++
			pc.Inject(c, seq, sc.Size)
			if sc.Pace > 0 {
				time.Sleep(time.Duration(sc.Pace) * time.Millisecond)
			}
		}
	}
	// quiescence: no new event for a while
	last, stable := -1, 0
	for i := 0; i < 400 && stable < 6; i++ {
		time.Sleep(5 * time.Millisecond)
		if n := rec.Len(); n == last {
			stable++
		} else {
			last, stable = n, 0
		}
	}
	pc.Close()
	time.Sleep(5 * time.Millisecond)
	return &udpTrace{ID: fmt.Sprintf("udpfree:%d", idx), Scen: sc, Complete: false, Hist: rec.Snapshot()}, nil
}

func init() {
	register("udp-run", "free-running datagram bursts through the real servePacket loop (C09); a crash kills this process", func(args []string) error {
		fs := flag.NewFlagSet("udp-run", flag.ExitOnError)
		in := fs.String("in", "", "scenario grid (NDJSON from L4UdpGrid)")
		out := fs.String("out", "", "traces (NDJSON for L4UdpTrace)")
		sum := fs.String("summary", "", "summary JSON")
		reps := fs.Int("reps", 1, "repetitions of each scenario")
		fs.Parse(args)
		var scens []udpScen
		if err := vh.ReadLines(*in, 1, func(i int, line []byte) {
			var s udpScen
			if err := json.Unmarshal(line, &s); err != nil {
				panic(err)
			}
			scens = append(scens, s)
		}); err != nil {
			return err
		}
		lw, err := vh.NewLineWriter(*out)
		if err != nil {
			return err
		}
		var samples []any
		runs := 0
		dlv := 0
		for r := 0; r < *reps; r++ {
			for i, s := range scens {
				// the scenario about to run is announced first, so that a crash can be attributed
				fmt.Printf("SCENARIO %d %+v\n", i, s)
				tr, err := runUDPFree(s, r*len(scens)+i)
				if err != nil {
					return err
				}
				for _, e := range tr.Hist {
					if e["e"] == "Dlv" {
						dlv++
					}
				}
				lw.Write(tr)
				runs++
				if len(samples) < 2 && len(tr.Hist) < 40 {
					samples = append(samples, tr)
				}
			}
		}
		if err := lw.Close(); err != nil {
			return err
		}
		return writeJSON(*sum, map[string]any{"runs": runs, "deliveries": dlv, "samples": samples})
	})
}
