package main

import (
	"context"
	"encoding/json"
	"flag"
	"fmt"
	"io"
	"net"
	"sync"
	"time"

	"github.com/caddyserver/caddy/v2"
	"github.com/mholt/caddy-l4/layer4"
	"github.com/mholt/caddy-l4/modules/l4proxy"
	"go.uber.org/zap"

	"verifharness/vh"
)

// concRoutes: a route list shared by all connections; which route handles a connection depends
// only on the connection's own kind and bytes.
func concRoutes() []map[string]any {
	vhm := func(at int, v, kind string) map[string]any {
		return map[string]any{"verif_m0": map[string]any{"at": at, "v": v, "w": v, "kind": kind}}
	}
	return []map[string]any{
		{"match": []map[string]any{vhm(16, "Y", "a")}, "handle": []map[string]any{{"handler": "verif_h", "k": "mark", "l": 1, "r": 1}, {"handler": "verif_h", "k": "eat", "n": 10},
			{"handler": "throttle", "total_read_bytes_per_second": 1e12, "total_read_burst_size": 1 << 24}, {"handler": "verif_h", "k": "term", "l": 1, "r": 1}}},
		{"match": []map[string]any{vhm(3000, "Y", "b")}, "handle": []map[string]any{{"handler": "verif_h", "k": "mark", "l": 1, "r": 2},
			{"handler": "verif_h", "k": "teemark"}, {"handler": "tee", "branch": []map[string]any{{"handler": "verif_h", "k": "branchterm"}}}, {"handler": "verif_h", "k": "term", "l": 1, "r": 2}}},
		{"match": []map[string]any{vhm(5, "N", "c")}, "handle": []map[string]any{{"handler": "verif_h", "k": "term"}}},
		{"match": []map[string]any{vhm(1, "Y", "c")}, "handle": []map[string]any{{"handler": "verif_h", "k": "mark", "l": 1, "r": 4}, {"handler": "verif_h", "k": "wrap"}, {"handler": "echo"}}},
		// kind d: a wrapping handler, then MORE matching on the wrapped connection (its buffer starts empty: prefetch takes
		// a pooled chunk), then a real subroute that falls through to the last route
		{"match": []map[string]any{vhm(4, "Y", "d")}, "handle": []map[string]any{{"handler": "verif_h", "k": "mark", "l": 1, "r": 5}, {"handler": "verif_h", "k": "wrap"}}},
		{"match": []map[string]any{vhm(2500, "Y", "d")}, "handle": []map[string]any{{"handler": "verif_h", "k": "mark", "l": 1, "r": 6},
			{"handler": "subroute", "routes": []map[string]any{{"match": []map[string]any{vhm(1, "N", "d")}, "handle": []map[string]any{{"handler": "verif_h", "k": "term"}}}}}}},
		{"match": []map[string]any{vhm(2600, "Y", "d")}, "handle": []map[string]any{{"handler": "verif_h", "k": "term", "l": 1, "r": 7}}},
	}
}

// one connection through the shared server; returns its own history
func concOne(srv *layer4.Server, kind string, i int, seed int64, slen int) []vh.Ev {
	rec := vh.NewRecorder(vh.MakeStream(seed*100000+int64(i), slen+64))
	rec.Kind = kind
	addr := &net.TCPAddr{IP: net.IPv4(10, 4, byte(i>>8), byte(i)), Port: 10000 + i%50000}
	vh.RegisterRec(addr.String(), rec)
	defer vh.UnregisterRec(addr.String())
	pulls := []int{}
	if i%3 == 1 {
		pulls = []int{7, 2048, 1, 900}
	}
	sc := &vh.ScriptConn{Rec: rec, Slen: slen, EndKind: "eof", Pulls: pulls, Start: time.Now(), Unit: time.Hour, Remote: addr}
	layer4.VerifServerHandle(srv, sc)
	if rec.TeeSeen {
		rec.WaitBranch(500 * time.Millisecond)
	}
	if kind == "c" && len(sc.Written) > 0 {
		var segs vh.Segs
		segs = rec.NoteRead(segs, sc.Written)
		rec.Add(vh.Ev{"e": "HRead", "segs": segs})
	}
	// keep what C08 compares: which routes ran, what was read
	var out []vh.Ev
	for _, e := range rec.Snapshot() {
		switch e["e"] {
		case "Handle", "HRead", "Term", "Branch", "HErr":
			delete(e, "t")
			out = append(out, e)
		}
	}
	return out
}

func init() {
	register("conc-run", "many simultaneous connections / selections through shared configuration (C08); meant to run under -race too", func(args []string) error {
		fs := flag.NewFlagSet("conc-run", flag.ExitOnError)
		out := fs.String("out", "", "traces (NDJSON for L4ConcTrace)")
		sum := fs.String("summary", "", "summary JSON")
		n := fs.Int("n", 64, "simultaneous connections")
		seed := fs.Int64("seed", 1, "seed")
		fs.Parse(args)
		base, err := vh.CaddyContext()
		if err != nil {
			return err
		}
		ctx, cancel := caddy.NewContext(base)
		defer cancel()
		srv := &layer4.Server{MatchingTimeout: caddy.Duration(5 * time.Second)}
		raw, _ := json.Marshal(concRoutes())
		if err := json.Unmarshal(raw, &srv.Routes); err != nil {
			return err
		}
		if err := srv.Provision(ctx, zap.NewNop()); err != nil {
			return err
		}
		lw, err := vh.NewLineWriter(*out)
		if err != nil {
			return err
		}
		kinds := []string{"a", "b", "c", "none", "d"}
		lens := []int{0, 20, 3000, 9000, 20000}
		// solo: each connection alone; then all at once
		solo := make([][]vh.Ev, *n)
		for i := 0; i < *n; i++ {
			solo[i] = concOne(srv, kinds[i%5], i, *seed, lens[(i/5)%5])
		}
		together := make([][]vh.Ev, *n)
		var wg sync.WaitGroup
		start := make(chan struct{})
		for i := 0; i < *n; i++ {
			wg.Add(1)
			go func(i int) {
				defer wg.Done()
				<-start
				together[i] = concOne(srv, kinds[i%5], i, *seed, lens[(i/5)%5])
			}(i)
		}
		close(start)
		wg.Wait()
		var samples []any
		for i := 0; i < *n; i++ {
			t := map[string]any{"id": fmt.Sprintf("conc:%d", i), "kind": kinds[i%5], "slen": lens[(i/5)%5], "solo": nonNil(solo[i]), "together": nonNil(together[i])}
			lw.Write(t)
			if i < 2 {
				samples = append(samples, t)
			}
		}

		// selection policies shared by many goroutines
		ups := []l4proxy.VerifUpstream{{Peers: []l4proxy.VerifPeer{{}}}, {Peers: []l4proxy.VerifPeer{{}}}, {Peers: []l4proxy.VerifPeer{{Unhealthy: true}}}}
		for _, pn := range []string{"first", "random", "random_choose", "least_conn", "round_robin", "ip_hash"} {
			pool := l4proxy.VerifBuildPool(ups, 0)
			pol := newPolicy(pn, 2)
			bad := 0
			var mu sync.Mutex
			var wg sync.WaitGroup
			for g := 0; g < 8; g++ {
				wg.Add(1)
				go func(g int) {
					defer wg.Done()
					cx := connFrom(fmt.Sprintf("10.0.0.%d", g+1))
					for k := 0; k < 500; k++ {
						if r := selectIdx(pol, pool, cx); r != 1 && r != 2 {
							mu.Lock()
							bad++
							mu.Unlock()
						}
					}
				}(g)
			}
			wg.Wait()
			lw.Write(map[string]any{"id": "conc:lb:" + pn, "kind": "lb", "slen": 0, "solo": []vh.Ev{}, "together": []vh.Ev{}, "badSelections": bad})
		}

		// the shipped protocol matchers, provisioned once and shared by all connections
		if err := concRealMatchers(ctx, lw, *n); err != nil {
			return err
		}

		// TLS clients with different names / protocols through tls -> proxy with a TLS upstream (shared upstream TLS configuration)
		if err := concTLSUpstream(base, lw); err != nil {
			return err
		}
		// one client, two peers of one upstream writing to it at the same time
		if err := concProxyTwoPeers(); err != nil {
			return err
		}
		if err := lw.Close(); err != nil {
			return err
		}
		return writeJSON(*sum, map[string]any{"connections": *n, "samples": samples})
	})
}

func nonNil(h []vh.Ev) []vh.Ev {
	if h == nil {
		return []vh.Ev{}
	}
	return h
}

func concProxyTwoPeers() error {
	var dials []string
	for u := 0; u < 2; u++ {
		ln, err := net.Listen("tcp", "127.0.0.1:0")
		if err != nil {
			return err
		}
		defer ln.Close()
		dials = append(dials, ln.Addr().String())
		go func(ln net.Listener, u int) {
			c, err := ln.Accept()
			if err != nil {
				return
			}
			go io.Copy(io.Discard, c)
			b := upStream(u, 200000)
			for off := 0; off < len(b); off += 1000 {
				c.Write(b[off : off+1000])
			}
			c.Close()
		}(ln, u)
	}
	ctx, cancel := caddy.NewContext(caddy.Context{Context: context.Background()})
	defer cancel()
	h := new(l4proxy.Handler)
	cfg, _ := json.Marshal(map[string]any{"upstreams": []map[string]any{{"dial": dials}}})
	if err := json.Unmarshal(cfg, h); err != nil {
		return err
	}
	if base, err := vh.CaddyContext(); err == nil {
		ctx, cancel = caddy.NewContext(base)
		defer cancel()
	}
	if err := h.Provision(ctx); err != nil {
		return err
	}
	defer h.Cleanup()
	a, b := net.Pipe()
	cx := layer4.WrapConnection(b, nil, zap.NewNop())
	go func() {
		io.Copy(io.Discard, a)
	}()
	done := make(chan struct{})
	go func() { h.Handle(cx, nil); close(done) }()
	time.Sleep(300 * time.Millisecond)
	a.Close()
	select {
	case <-done:
	case <-time.After(3 * time.Second):
	}
	b.Close()
	return nil
}

// concRealMatchers: one server whose routes use the shipped protocol matchers (one matcher instance per route, shared by
// every connection); each connection sends a valid first message of one protocol; the route that runs must be the same
// when the connection is alone and when all run at once.
func concRealMatchers(ctx caddy.Context, lw *vh.LineWriter, n int) error {
	mk := func(proto, netw string, cfg, msg map[string]any) *wireVec {
		return &wireVec{Proto: proto, Net: netw, Cfg: cfg, Msg: msg}
	}
	ovCfg := map[string]any{"modes": []any{}, "ignore_timestamp": false, "ignore_crypto": false, "group_key": "k1", "auth_digest": "", "direction": "", "server_key": "s1", "client_keys": "none"}
	ov := func(mode, digest string) map[string]any {
		return map[string]any{"mode": mode, "opcode": "ok", "keyid": 0.0, "session": "nonzero", "digest": digest, "rpid": "one", "ts": "now", "acks": 0.0, "pid": 0.0, "sig": "a", "lenfield": "exact", "wk": "ok"}
	}
	none := map[string]any{}
	vecs := []*wireVec{
		mk("openvpn", "tcp", ovCfg, ov("auth", "md5")), mk("openvpn", "tcp", ovCfg, ov("auth", "sha256")), mk("openvpn", "tcp", ovCfg, ov("auth", "sha512")),
		mk("openvpn", "tcp", ovCfg, ov("auth", "sha1")), mk("openvpn", "tcp", ovCfg, ov("crypt", "sha256")), mk("openvpn", "tcp", ovCfg, ov("crypt2", "sha256")),
		mk("ssh", "tcp", none, map[string]any{"magic": "SSH-", "version": "2.0"}),
		mk("http", "tcp", map[string]any{"filter": "host"}, map[string]any{"method": "GET", "path": "/api/x", "version": "HTTP/1.1", "eol": "crlf", "host": "example.com", "xtest": false, "complete": true}),
		mk("socks5", "tcp", map[string]any{"auth_methods": []any{}}, map[string]any{"ver": 5.0, "methods": []any{0.0, 2.0}, "declared": "exact"}),
		mk("regexp", "tcp", map[string]any{"pattern": "^HELO[0-9]+$", "count": 8.0}, map[string]any{"text": "HELO1234"}),
		mk("tls", "tcp", map[string]any{"sni": []any{"a.example.com"}, "alpn": []any{}}, map[string]any{"kind": "hello", "sni": "a.example.com", "alpn": "h2"}),
	}
	// one route per (protocol, configuration); the same matcher instance serves every connection of that protocol
	var routes []map[string]any
	routeOf := map[string]int{}
	cases := make([]*wireCase, len(vecs))
	for i, v := range vecs {
		wc, err := wireEncode(v)
		if err != nil {
			return err
		}
		cases[i] = wc
		raw, _ := json.Marshal(wc.cfg)
		key := wc.module + string(raw)
		if _, ok := routeOf[key]; !ok {
			routeOf[key] = len(routes) + 1
			routes = append(routes, map[string]any{"match": []map[string]any{{wc.module: wc.cfg}},
				"handle": []map[string]any{{"handler": "verif_h", "k": "mark", "l": 1, "r": len(routes) + 1}, {"handler": "verif_h", "k": "term", "l": 1, "r": len(routes) + 1}}})
		}
	}
	srv := &layer4.Server{MatchingTimeout: caddy.Duration(5 * time.Second)}
	raw, _ := json.Marshal(routes)
	if err := json.Unmarshal(raw, &srv.Routes); err != nil {
		return err
	}
	if err := srv.Provision(ctx, zap.NewNop()); err != nil {
		return err
	}
	one := func(i int) []vh.Ev {
		k := i % len(vecs)
		// OpenVPN messages carry the current time: encode afresh
		wc := cases[k]
		if vecs[k].Proto == "openvpn" {
			wc, _ = wireEncode(vecs[k])
		}
		stream := append(append([]byte{}, wc.first...), filler(40, byte(i))...)
		if vecs[k].Proto == "openvpn" {
			stream = wc.first // the matcher wants the message alone
		}
		rec := vh.NewRecorder(stream)
		addr := &net.TCPAddr{IP: net.IPv4(10, 5, byte(i>>8), byte(i)), Port: 20000 + i%40000}
		vh.RegisterRec(addr.String(), rec)
		defer vh.UnregisterRec(addr.String())
		pulls := []int{}
		if i%2 == 1 {
			pulls = []int{3, 1, 64}
		}
		sc := &vh.ScriptConn{Rec: rec, Slen: len(stream), EndKind: "eof", Pulls: pulls, Start: time.Now(), Unit: time.Hour, Remote: addr}
		layer4.VerifServerHandle(srv, sc)
		var out []vh.Ev
		for _, e := range rec.Snapshot() {
			switch e["e"] {
			case "Handle", "HRead", "Term", "HErr":
				delete(e, "t")
				out = append(out, e)
			}
		}
		return out
	}
	solo := make([][]vh.Ev, n)
	for i := 0; i < n; i++ {
		solo[i] = one(i)
	}
	together := make([][]vh.Ev, n)
	var wg sync.WaitGroup
	start := make(chan struct{})
	for i := 0; i < n; i++ {
		wg.Add(1)
		go func(i int) {
			defer wg.Done()
			<-start
			together[i] = one(i)
		}(i)
	}
	close(start)
	wg.Wait()
	for i := 0; i < n; i++ {
		k := i % len(vecs)
		want := routeOf[func() string { raw, _ := json.Marshal(cases[k].cfg); return cases[k].module + string(raw) }()]
		lw.Write(map[string]any{"id": fmt.Sprintf("conc:matcher:%d:%s", i, vecs[k].Proto), "kind": "matcher", "slen": len(cases[k].first), "solo": nonNil(solo[i]), "together": nonNil(together[i]), "wantRoute": want})
	}
	return nil
}
