package main

import (
	"bufio"
	"crypto/tls"
	"encoding/json"
	"errors"
	"fmt"
	"io"
	"net"
	"strings"
	"sync"
	"time"

	"github.com/caddyserver/caddy/v2"
	"go.uber.org/zap"

	"github.com/mholt/caddy-l4/layer4"

	"verifharness/vh"
)

// concTLSUpstream (part of conc-run, C08): TLS clients with different server names and application protocols, terminated
// by the real tls handler, relayed by the real proxy handler to an upstream that is dialled with TLS and a customised tls
// block (insecure_skip_verify) - the upstream's TLS configuration is state the connections of a handler share. What the
// upstream's TLS server saw of each connection (server name, protocols offered) is recorded once with every connection
// ALONE on a freshly provisioned route list, once with all of them through ONE route list at the same time: clause X1
// (a connection behaves among the others as it does alone).

type tlsUpView struct {
	mu   sync.Mutex
	seen map[string]vh.Ev // client tag -> what the upstream saw
}

func tlsUpServer(view *tlsUpView) (net.Listener, error) {
	cfg, err := harnessTLSConfig()
	if err != nil {
		return nil, err
	}
	cfg.NextProtos = []string{"h2", "http/1.1"}
	ln, err := net.Listen("tcp", "127.0.0.1:0")
	if err != nil {
		return nil, err
	}
	go func() {
		for {
			c, err := ln.Accept()
			if err != nil {
				return
			}
			go func(c net.Conn) {
				defer c.Close()
				var sni string
				var offered []string
				sc := cfg.Clone()
				sc.GetConfigForClient = func(h *tls.ClientHelloInfo) (*tls.Config, error) {
					sni, offered = h.ServerName, append([]string{}, h.SupportedProtos...)
					return nil, nil
				}
				tc := tls.Server(c, sc)
				tc.SetDeadline(time.Now().Add(5 * time.Second))
				if err := tc.Handshake(); err != nil {
					return
				}
				line, err := bufio.NewReader(tc).ReadString('\n')
				if err != nil {
					return
				}
				view.mu.Lock()
				view.seen[strings.TrimSpace(line)] = vh.Ev{"e": "Up", "sni": sni, "alpn": strings.Join(offered, ",")}
				view.mu.Unlock()
				tc.Write([]byte("OK\n"))
			}(c)
		}
	}()
	return ln, nil
}

func tlsUpRoutes(base caddy.Context, upstream string) (layer4.Handler, func(), error) {
	routes := []map[string]any{
		{"match": []map[string]any{{"tls": map[string]any{}}}, "handle": []map[string]any{{"handler": "tls"}}},
		{"handle": []map[string]any{{"handler": "proxy", "upstreams": []map[string]any{{"dial": []string{upstream}, "tls": map[string]any{"insecure_skip_verify": true}}}}}},
	}
	raw, _ := json.Marshal(routes)
	var rl layer4.RouteList
	if err := json.Unmarshal(raw, &rl); err != nil {
		return nil, nil, err
	}
	ctx, cancel := caddy.NewContext(base)
	if err := rl.Provision(ctx); err != nil {
		cancel()
		return nil, nil, err
	}
	return rl.Compile(zap.NewNop(), 5*time.Second, layer4.HandlerFunc(func(*layer4.Connection) error { return errors.New("fell through") })), cancel, nil
}

type tlsUpClient struct {
	tag, sni, alpn string
}

func tlsUpOne(compiled layer4.Handler, cl tlsUpClient) error {
	dln, err := net.Listen("tcp", "127.0.0.1:0")
	if err != nil {
		return err
	}
	defer dln.Close()
	raw, err := net.Dial("tcp", dln.Addr().String())
	if err != nil {
		return err
	}
	defer raw.Close()
	sconn, err := dln.Accept()
	if err != nil {
		return err
	}
	cx := layer4.WrapConnection(sconn, make([]byte, 0, 2048), zap.NewNop())
	done := make(chan struct{})
	go func() {
		defer close(done)
		_ = compiled.Handle(cx)
		cx.Close()
	}()
	tc := tls.Client(raw, &tls.Config{ServerName: cl.sni, NextProtos: []string{cl.alpn}, InsecureSkipVerify: true})
	tc.SetDeadline(time.Now().Add(8 * time.Second))
	if _, err := fmt.Fprintf(tc, "%s\n", cl.tag); err != nil {
		return fmt.Errorf("client %s: %v", cl.tag, err)
	}
	if _, err := io.ReadAll(io.LimitReader(tc, 3)); err != nil {
		return fmt.Errorf("client %s: %v", cl.tag, err)
	}
	tc.Close()
	select {
	case <-done:
	case <-time.After(8 * time.Second):
		return fmt.Errorf("client %s: the handler chain did not return", cl.tag)
	}
	return nil
}

func concTLSUpstream(base caddy.Context, lw *vh.LineWriter) error {
	view := &tlsUpView{seen: map[string]vh.Ev{}}
	up, err := tlsUpServer(view)
	if err != nil {
		return err
	}
	defer up.Close()
	var clients []tlsUpClient
	for i := 0; i < 8; i++ {
		clients = append(clients, tlsUpClient{fmt.Sprintf("c%d", i), []string{"a.example.com", "b.example.com", "verif.test"}[i%3], []string{"h2", "http/1.1"}[i%2]})
	}
	// alone: one freshly provisioned route list per connection
	solo := map[string]vh.Ev{}
	for _, cl := range clients {
		compiled, cancel, err := tlsUpRoutes(base, up.Addr().String())
		if err != nil {
			return err
		}
		err = tlsUpOne(compiled, tlsUpClient{cl.tag + "s", cl.sni, cl.alpn})
		cancel()
		if err != nil {
			return err
		}
	}
	view.mu.Lock()
	for k, v := range view.seen {
		solo[strings.TrimSuffix(k, "s")] = v
	}
	view.seen = map[string]vh.Ev{}
	view.mu.Unlock()
	// together: one route list, the first connection on its own (it is the one a shared configuration would remember),
	// the others at the same time
	compiled, cancel, err := tlsUpRoutes(base, up.Addr().String())
	if err != nil {
		return err
	}
	defer cancel()
	if err := tlsUpOne(compiled, clients[0]); err != nil {
		return err
	}
	var wg sync.WaitGroup
	errs := make(chan error, len(clients))
	for _, cl := range clients[1:] {
		wg.Add(1)
		go func(cl tlsUpClient) {
			defer wg.Done()
			if err := tlsUpOne(compiled, cl); err != nil {
				errs <- err
			}
		}(cl)
	}
	wg.Wait()
	select {
	case err := <-errs:
		return err
	default:
	}
	for _, cl := range clients {
		s, ok1 := solo[cl.tag]
		view.mu.Lock()
		t, ok2 := view.seen[cl.tag]
		view.mu.Unlock()
		if !ok1 || !ok2 {
			return fmt.Errorf("tls upstream run: connection %s did not reach the upstream (alone %v, together %v)", cl.tag, ok1, ok2)
		}
		lw.Write(map[string]any{"id": "conc:tlsup:" + cl.tag, "kind": "tlsup", "slen": 0, "solo": []vh.Ev{s}, "together": []vh.Ev{t}})
	}
	return nil
}
