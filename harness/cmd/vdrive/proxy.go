package main

import (
	"context"
	"crypto/tls"
	"encoding/binary"
	"encoding/json"
	"errors"
	"flag"
	"fmt"
	"io"
	"net"
	"os"
	"path/filepath"
	"runtime/debug"
	"strings"
	"sync"
	"sync/atomic"
	"time"

	"github.com/caddyserver/caddy/v2"
	"github.com/mholt/caddy-l4/layer4"
	"github.com/mholt/caddy-l4/modules/l4proxy"
	"go.uber.org/zap"

	"verifharness/vh"
)

type proxyScen struct {
	Order    string `json:"order"`
	Csize    int    `json:"csize"`
	Usize    int    `json:"usize"`
	Peers    int    `json:"peers"`
	Chunk    int    `json:"chunk"`
	Prefetch int    `json:"prefetch"`
	// Via "route": the proxy handler sits behind a real route whose matcher needs the first 10 bytes, and the client's
	// first segment ends inside them (matching takes two rounds); "direct": the handler is called on the connection
	Via string `json:"via"`
	// FailPeer: the upstream selected first has a second peer that refuses connections; the handler retries and a
	// second upstream serves the connection. The abandoned connection to the first peer is observed too (ups[0]).
	FailPeer bool `json:"failpeer"`
	// Transport "tcp" (default): loopback TCP on both sides; "unix": Unix stream sockets on both sides; "tls": the
	// client speaks TLS, terminated by the real tls handler in front of the proxy handler, and the proxy handler
	// speaks TLS to its upstreams (half-close = close_notify)
	Transport string `json:"transport"`
}

type halfCloser interface{ CloseWrite() error }

func closeWrite(c net.Conn) {
	if h, ok := c.(halfCloser); ok {
		h.CloseWrite()
	}
}

func harnessTLSConfig() (*tls.Config, error) {
	if _, err := vh.CaddyContext(); err != nil {
		return nil, err
	}
	cert, err := tls.X509KeyPair([]byte(vh.CertPEM), []byte(vh.KeyPEM))
	if err != nil {
		return nil, err
	}
	return &tls.Config{Certificates: []tls.Certificate{cert}}, nil
}

func unixPath(idx int, name string) string {
	return filepath.Join(os.TempDir(), fmt.Sprintf("vp%d-%d-%s.sock", os.Getpid(), idx, name))
}

type upObs struct {
	Sent              int    `json:"sent"`
	End               string `json:"end"`
	Recv              int    `json:"recv"`
	RecvIntact        bool   `json:"recvIntact"`
	SawEOF            bool   `json:"sawEOF"`
	Drained           bool   `json:"drained"`
	ClosedAfterReturn bool   `json:"closedAfterReturn"`
	Abandoned         bool   `json:"abandoned"` // opened by a dial attempt that was given up
	Opened            bool   `json:"opened"`    // the upstream server accepted a connection at all
}
type crecvObs struct {
	N      int  `json:"n"`
	Intact bool `json:"intact"`
}
type proxyTrace struct {
	ID       string     `json:"id"`
	Scen     proxyScen  `json:"scen"`
	Csent    int        `json:"csent"`
	Cend     string     `json:"cend"`
	Ups      []upObs    `json:"ups"`
	Crecv    []crecvObs `json:"crecv"`
	Ceof     bool       `json:"ceof"`
	Cdrained bool       `json:"cdrained"`
	Returned bool       `json:"returned"`
	RetMs    int        `json:"retMs"`
	Err      string     `json:"err"`
	DialErr  bool       `json:"dialErr"` // the handler returned because a dial failed
	// the side that waits for the other's end of stream before it sends (orders upstream_first / client_first)
	// saw it in time, i.e. while its own direction was still open and silent; "" = this order does not wait
	WaitedEOF string `json:"waitedEOF"` // "" | "seen" | "timeout"
}

// upstream u's bytes carry u in the high bit so the client can attribute interleaved bytes
func upStream(u, n int) []byte {
	b := vh.MakeStream(int64(7000+u), n)
	for i := range b {
		b[i] = b[i]&0x7f | byte(u<<7)
	}
	return b
}

func writeChunks(c net.Conn, b []byte, chunk int) (int, error) {
	return writeChunksCount(c, b, chunk, nil)
}

// writeChunksCount also adds every written byte to *count as it goes (so that an observer sees progress)
func writeChunksCount(c net.Conn, b []byte, chunk int, count *atomic.Int64) (int, error) {
	sent := 0
	for sent < len(b) {
		n := chunk
		if n > len(b)-sent {
			n = len(b) - sent
		}
		k, err := c.Write(b[sent : sent+n])
		sent += k
		if count != nil {
			count.Add(int64(k))
		}
		if err != nil {
			return sent, err
		}
	}
	return sent, nil
}

func reset(c net.Conn) {
	if t, ok := c.(*net.TCPConn); ok {
		t.SetLinger(0)
	}
	c.Close()
}

func runProxy(sc proxyScen, idx int) (*proxyTrace, error) {
	tr := &proxyTrace{ID: fmt.Sprintf("proxy:%d", idx), Scen: sc, Cend: "fin"}
	cstream := vh.MakeStream(int64(9000+idx), sc.Csize+16)[:sc.Csize]
	uend := "close"
	switch sc.Order {
	case "client_rst":
		tr.Cend = "rst"
	case "client_close":
		tr.Cend = "close"
	case "upstream_rst":
		uend = "rst"
	case "upstream_first":
		uend = "fin"
	}

	// upstream servers
	type upSrv struct {
		ln       net.Listener
		obs      *upObs
		done     chan struct{}
		conn     atomic.Value
		eofSeen  chan struct{}
		finished chan struct{} // closed when the upstream finished sending
	}
	var ups []*upSrv
	var dials []string
	clientSawEOF := make(chan struct{})
	var waited atomic.Value
	waited.Store("")
	for u := 0; u < sc.Peers; u++ {
		var ln net.Listener
		var err error
		dialAddr := ""
		switch sc.Transport {
		case "unix":
			path := unixPath(idx, fmt.Sprintf("u%d", u))
			os.Remove(path)
			ln, err = net.Listen("unix", path)
			dialAddr = "unix/" + path
			defer os.Remove(path)
		case "tls":
			var cfg *tls.Config
			if cfg, err = harnessTLSConfig(); err == nil {
				ln, err = tls.Listen("tcp", "127.0.0.1:0", cfg)
			}
		default:
			ln, err = net.Listen("tcp", "127.0.0.1:0")
		}
		if err != nil {
			return nil, err
		}
		if dialAddr == "" {
			dialAddr = ln.Addr().String()
		}
		defer ln.Close()
		s := &upSrv{ln: ln, obs: &upObs{End: uend, RecvIntact: true}, done: make(chan struct{}), eofSeen: make(chan struct{}), finished: make(chan struct{})}
		ups = append(ups, s)
		dials = append(dials, dialAddr)
		go func(u int, s *upSrv) {
			defer close(s.done)
			c, err := ln.Accept()
			if err != nil {
				return
			}
			if tc, ok := c.(*tls.Conn); ok {
				// (crypto/tls refuses CloseWrite before the handshake is complete: an upstream with nothing to send would
				// never get its end of stream out)
				tc.Handshake()
			}
			s.conn.Store(c)
			s.obs.Opened = true
			payload := upStream(u, sc.Usize)
			var wg sync.WaitGroup
			// reader: reads until EOF / error, checks the prefix property
			wg.Add(1)
			go func() {
				defer wg.Done()
				buf := make([]byte, 32*1024)
				for {
					n, err := c.Read(buf)
					for i := 0; i < n; i++ {
						p := s.obs.Recv + i
						if p >= len(cstream) || cstream[p] != buf[i] {
							s.obs.RecvIntact = false
						}
					}
					s.obs.Recv += n
					if err != nil {
						s.obs.Drained = true
						if errors.Is(err, io.EOF) {
							s.obs.SawEOF = true
						}
						close(s.eofSeen)
						return
					}
				}
			}()
			// writer
			switch sc.Order {
			case "client_first":
				// reply only after the client's end of stream arrived: the reverse direction must still flow
				select {
				case <-s.eofSeen:
					waited.CompareAndSwap("", "seen")
				case <-time.After(10 * time.Second):
					waited.Store("timeout")
				}
				s.obs.Sent, _ = writeChunks(c, payload, sc.Chunk)
			case "upstream_rst":
				half := len(payload) / 2
				s.obs.Sent, _ = writeChunks(c, payload[:half], sc.Chunk)
				time.Sleep(20 * time.Millisecond)
				close(s.finished)
				reset(c)
				wg.Wait()
				return
			default:
				s.obs.Sent, _ = writeChunks(c, payload, sc.Chunk)
			}
			close(s.finished)
			if uend == "fin" {
				closeWrite(c)
				wg.Wait() // keep reading until the proxy closes our connection
			} else {
				// "close": wait for the end of the client's stream unless the client never ends it
				if sc.Order == "simultaneous" || sc.Order == "client_first" || sc.Order == "client_close" || sc.Order == "client_rst" {
					select {
					case <-s.eofSeen:
					case <-time.After(10 * time.Second):
					}
				}
			}
			c.Close()
			wg.Wait()
		}(u, s)
	}

	// the proxy handler under test
	ctx, cancel := caddy.NewContext(caddy.Context{Context: context.Background()})
	defer cancel()
	upstreams := []map[string]any{{"dial": dials}}
	if sc.Transport == "tls" {
		upstreams[0]["tls"] = map[string]any{"insecure_skip_verify": true}
	}
	hcfg := map[string]any{"upstreams": upstreams}
	var abandoned *upObs
	var abandonedAccepted atomic.Bool
	abandonedClosed := make(chan struct{})
	if sc.FailPeer {
		// upstream 0 = [A accepts, D refuses]; "first" selects it, the dial of D fails, the handler retries and
		// (upstream 0 now counting a failure) selects the serving upstream
		aln, err := net.Listen("tcp", "127.0.0.1:0")
		if err != nil {
			return nil, err
		}
		defer aln.Close()
		// a port that stays reserved and refuses connections (bound, not listening): a port that is merely free
		// could be taken by a listener of a concurrently running scenario
		rp, err := newRefusedPort()
		if err != nil {
			return nil, err
		}
		defer rp.Close()
		refused := rp.Addr()
		abandoned = &upObs{End: "close", RecvIntact: true, Abandoned: true}
		go func() {
			c, err := aln.Accept()
			if err != nil {
				close(abandonedClosed)
				return
			}
			abandonedAccepted.Store(true)
			abandoned.Opened = true
			buf := make([]byte, 4096)
			for {
				n, err := c.Read(buf)
				abandoned.Recv += n
				if err != nil {
					abandoned.Drained = true
					abandoned.SawEOF = errors.Is(err, io.EOF)
					c.Close()
					close(abandonedClosed)
					return
				}
			}
		}()
		hcfg = map[string]any{"upstreams": []map[string]any{{"dial": []string{aln.Addr().String(), refused}}, {"dial": dials}},
			"load_balancing": map[string]any{"selection": map[string]any{"policy": "first"}, "try_duration": "2s", "try_interval": "20ms"},
			"health_checks":  map[string]any{"passive": map[string]any{"max_fails": 1, "fail_duration": "30s"}}}
	}
	var h *l4proxy.Handler
	var compiled layer4.Handler
	if sc.Via == "route" || sc.Via == "route2" || sc.Via == "bigroute" || sc.Via == "throttle" || sc.Via == "throttle2" || sc.Via == "pp" || sc.Via == "ppu" || sc.Transport == "tls" {
		hj := map[string]any{"handler": "proxy"}
		for k, v := range hcfg {
			hj[k] = v
		}
		routes := []map[string]any{{"match": []map[string]any{{"verif_m0": map[string]any{"at": 10, "v": "Y", "w": "Y"}}}, "handle": []map[string]any{hj}}}
		if sc.Via == "bigroute" {
			// a matcher that needs almost the whole matching buffer: the last prefetch round takes the buffer beyond
			// MaxMatchingBytes (the limit is checked before a chunk is read), and all of it belongs to the stream
			routes = []map[string]any{{"match": []map[string]any{{"verif_m0": map[string]any{"at": 8000, "v": "Y", "w": "Y"}}}, "handle": []map[string]any{hj}}}
		}
		if sc.Via == "throttle" {
			// the shipped throttle handler without limits in front: the proxy's downstream is a wrapped connection
			routes = []map[string]any{{"handle": []map[string]any{{"handler": "throttle"}, hj}}}
		}
		if sc.Transport == "tls" {
			// the real tls handler terminates the client's TLS; the next route (no matchers) relays the plaintext
			routes = []map[string]any{{"match": []map[string]any{{"tls": map[string]any{}}}, "handle": []map[string]any{{"handler": "tls"}}}, {"handle": []map[string]any{hj}}}
		}
		if sc.Via == "throttle2" {
			// both limiters configured, generous rates, the total burst below the per-connection burst and both below the
			// size the relay reads with (8192): every read has to be cut to the smaller burst
			routes = []map[string]any{{"handle": []map[string]any{{"handler": "throttle", "read_bytes_per_second": 50000000, "read_burst_size": 4096,
				"total_read_bytes_per_second": 50000000, "total_read_burst_size": 2048}, hj}}}
		}
		if sc.Via == "pp" || sc.Via == "ppu" {
			// the shipped proxy_protocol handler in front: it consumes the header the client sends first and wraps the connection
			routes = []map[string]any{{"handle": []map[string]any{{"handler": "proxy_protocol"}, hj}}}
		}
		if sc.Via == "route2" {
			// two-stage routing: a matched non-terminal route first, then the proxy's route, which needs more bytes
			routes = append([]map[string]any{{"match": []map[string]any{{"verif_m1": map[string]any{"at": 2, "v": "Y", "w": "Y"}}}, "handle": []map[string]any{{"handler": "verif_h", "k": "pass"}}}}, routes...)
		}
		raw, _ := json.Marshal(routes)
		var rl layer4.RouteList
		if err := json.Unmarshal(raw, &rl); err != nil {
			return nil, err
		}
		if base, err := vh.CaddyContext(); err == nil {
			ctx, cancel = caddy.NewContext(base)
			defer cancel()
		}
		if err := rl.Provision(ctx); err != nil {
			return nil, err
		}
		mt := 5 * time.Second
		if sc.Via == "route2" {
			mt = 300 * time.Millisecond // the client keeps sending after this has long passed
		}
		compiled = rl.Compile(zap.NewNop(), mt, layer4.HandlerFunc(func(*layer4.Connection) error { return errors.New("fell through to the fallback") }))
	} else {
		h = new(l4proxy.Handler)
		cfg, _ := json.Marshal(hcfg)
		if err := json.Unmarshal(cfg, h); err != nil {
			return nil, err
		}
		if err := h.Provision(ctx); err != nil {
			return nil, err
		}
		defer h.Cleanup()
	}

	// downstream: real loopback TCP (or a Unix stream socket)
	dnet, daddr := "tcp", "127.0.0.1:0"
	if sc.Transport == "unix" {
		dnet, daddr = "unix", unixPath(idx, "d")
		os.Remove(daddr)
		defer os.Remove(daddr)
	}
	dln, err := net.Listen(dnet, daddr)
	if err != nil {
		return nil, err
	}
	defer dln.Close()
	rawcc, err := net.Dial(dnet, dln.Addr().String())
	if err != nil {
		return nil, err
	}
	cc := rawcc
	if sc.Transport == "tls" {
		cc = tls.Client(rawcc, &tls.Config{ServerName: "verif.test", InsecureSkipVerify: true})
	}
	sconn, err := dln.Accept()
	if err != nil {
		return nil, err
	}
	cx := layer4.WrapConnection(sconn, make([]byte, 0, 2048), zap.NewNop())

	// client reader: demultiplexes by the high bit
	tr.Crecv = make([]crecvObs, sc.Peers)
	for u := range tr.Crecv {
		tr.Crecv[u].Intact = true
	}
	expect := make([][]byte, sc.Peers)
	for u := range expect {
		expect[u] = upStream(u, sc.Usize)
	}
	creadDone := make(chan struct{})
	go func() {
		defer close(creadDone)
		buf := make([]byte, 32*1024)
		for {
			n, err := cc.Read(buf)
			for i := 0; i < n; i++ {
				u := int(buf[i] >> 7)
				if u >= sc.Peers {
					tr.Crecv[0].Intact = false
					continue
				}
				p := tr.Crecv[u].N
				if p >= len(expect[u]) || expect[u][p] != buf[i] {
					tr.Crecv[u].Intact = false
				}
				tr.Crecv[u].N++
			}
			if err != nil {
				tr.Cdrained = true
				if errors.Is(err, io.EOF) {
					tr.Ceof = true
					close(clientSawEOF)
				}
				return
			}
		}
	}()

	// bytes sent before the handler runs and prefetched into the matching buffer
	pre := sc.Prefetch
	if pre > len(cstream) {
		pre = len(cstream)
	}
	if pre > 0 {
		if _, err := cc.Write(cstream[:pre]); err != nil {
			return nil, err
		}
		sconn.SetReadDeadline(time.Now().Add(2 * time.Second))
		for got := 0; got < pre; {
			if err := layer4.VerifPrefetch(cx); err != nil {
				return nil, fmt.Errorf("prefetch: %v", err)
			}
			got, _, _, _ = layer4.VerifConnState(cx)
		}
		sconn.SetReadDeadline(time.Time{})
	}
	var csent atomic.Int64 // bytes the client has written so far (counted as they are written)
	csent.Store(int64(pre))

	retCh := make(chan error, 1)
	t0 := time.Now()
	go func() {
		if compiled != nil {
			retCh <- compiled.Handle(cx)
		} else {
			retCh <- h.Handle(cx, nil)
		}
	}()

	// client writer
	writerDone := make(chan struct{})
	go func() {
		defer close(writerDone)
		rest := cstream[pre:]
		if tc, ok := cc.(*tls.Conn); ok {
			// (a CloseWrite before the handshake is complete would be refused by crypto/tls)
			tc.Handshake()
		}
		if sc.Via == "pp" || sc.Via == "ppu" {
			// the header is not part of the client's stream: the proxy_protocol handler strips it. The first bytes of the
			// stream travel in the same segment ("ppu": a v1 header of the UNKNOWN family, which declares no addresses)
			hdr := "PROXY TCP4 203.0.113.7 198.51.100.9 40000 443\r\n"
			if sc.Via == "ppu" {
				hdr = "PROXY UNKNOWN\r\n"
			}
			k := 100
			if k > len(rest) {
				k = len(rest)
			}
			cc.Write(append([]byte(hdr), rest[:k]...))
			csent.Add(int64(k))
			rest = rest[k:]
			time.Sleep(20 * time.Millisecond)
		}
		if (sc.Via == "route" || sc.Via == "route2") && len(rest) > 4 {
			// the first segment ends inside the bytes the route's matcher needs
			n, _ := cc.Write(rest[:4])
			csent.Add(int64(n))
			rest = rest[n:]
			time.Sleep(30 * time.Millisecond)
			// ... and the second one completes them, whatever the order of the two directions is afterwards
			n, _ = cc.Write(rest[:8])
			csent.Add(int64(n))
			rest = rest[n:]
			if sc.Via == "route2" {
				// the rest follows only after the matching timeout has passed: it no longer applies to a matched route
				time.Sleep(450 * time.Millisecond)
			}
		}
		if sc.Via == "bigroute" && len(rest) > 9000 {
			// 500 bytes, then four segments of one prefetch chunk each: the round that decides reads up to byte 8692
			for _, k := range []int{500, 2048, 2048, 2048, 2048} {
				n, _ := cc.Write(rest[:k])
				csent.Add(int64(n))
				rest = rest[n:]
				time.Sleep(25 * time.Millisecond)
			}
		}
		switch sc.Order {
		case "upstream_first":
			// send only after the upstreams' end of stream arrived: this direction must still flow
			select {
			case <-clientSawEOF:
				waited.CompareAndSwap("", "seen")
			case <-time.After(10 * time.Second):
				waited.Store("timeout")
			}
			writeChunksCount(cc, rest, sc.Chunk, &csent)
			closeWrite(cc)
		case "client_rst":
			writeChunksCount(cc, rest[:len(rest)/2], sc.Chunk, &csent)
			time.Sleep(20 * time.Millisecond)
			reset(cc)
		case "client_close":
			writeChunksCount(cc, rest, sc.Chunk, &csent)
			time.Sleep(20 * time.Millisecond)
			cc.Close()
		default:
			writeChunksCount(cc, rest, sc.Chunk, &csent)
			closeWrite(cc)
		}
	}()

	select {
	case err := <-retCh:
		tr.Returned = true
		if err != nil {
			tr.Err = err.Error()
			tr.DialErr = strings.HasPrefix(tr.Err, "dial ")
		}
	case <-time.After(15 * time.Second):
	}
	tr.RetMs = int(time.Since(t0) / time.Millisecond)
	sconn.Close() // what Server.handle does after the handler returned
	// the client's writer ends once its connection is closed by the other side at the latest
	select {
	case <-writerDone:
	case <-time.After(5 * time.Second):
	}
	tr.Csent = int(csent.Load())
	tr.WaitedEOF = waited.Load().(string)
	// every upstream connection must now be closed: the servers' readers end
	for _, s := range ups {
		select {
		case <-s.eofSeen:
			s.obs.ClosedAfterReturn = true
		case <-time.After(3 * time.Second):
		}
	}
	select {
	case <-creadDone:
	case <-time.After(3 * time.Second):
	}
	cc.Close()
	// (peer state is process-wide and keyed by address: when the refusing address was used by an earlier scenario the
	// upstream is out of rotation from the start and nothing is dialled; such a run simply has no abandoned connection)
	if abandoned != nil && abandonedAccepted.Load() {
		select {
		case <-abandonedClosed:
			abandoned.ClosedAfterReturn = true
		case <-time.After(3 * time.Second):
		}
		tr.Ups = append(tr.Ups, *abandoned)
		tr.Crecv = append([]crecvObs{{Intact: true}}, tr.Crecv...)
	}
	for _, s := range ups {
		if c, ok := s.conn.Load().(net.Conn); ok {
			c.Close()
		}
		s.ln.Close()
		select {
		case <-s.done:
		case <-time.After(3 * time.Second):
		}
		tr.Ups = append(tr.Ups, *s.obs)
	}
	return tr, nil
}

func init() {
	register("proxy-run", "the real l4proxy relay between loopback TCP client and upstreams (C03)", func(args []string) error {
		fs := flag.NewFlagSet("proxy-run", flag.ExitOnError)
		in := fs.String("in", "", "scenario grid (NDJSON from L4ProxyGrid)")
		out := fs.String("out", "", "traces (NDJSON for L4ProxyTrace)")
		sum := fs.String("summary", "", "summary JSON")
		fs.Parse(args)
		// a leaked upstream connection must not be "closed" by the garbage collector's finalizer before the
		// check looks at it: no collections unless memory really runs short
		debug.SetGCPercent(-1)
		debug.SetMemoryLimit(6 << 30)
		var scens []proxyScen
		if err := vh.ReadLines(*in, 1, func(i int, line []byte) {
			var s proxyScen
			if err := json.Unmarshal(line, &s); err != nil {
				panic(err)
			}
			scens = append(scens, s)
		}); err != nil {
			return err
		}
		lw, err := vh.NewLineWriter(*out)
		if err != nil {
			return err
		}
		var wg sync.WaitGroup
		var mu sync.Mutex
		var errs []string
		var samples []any
		var bytesRelayed int64
		sem := make(chan struct{}, 24)
		for i, s := range scens {
			wg.Add(1)
			sem <- struct{}{}
			go func(i int, s proxyScen) {
				defer wg.Done()
				defer func() { <-sem }()
				tr, err := runProxy(s, i)
				mu.Lock()
				defer mu.Unlock()
				if err != nil {
					errs = append(errs, err.Error())
					return
				}
				lw.Write(tr)
				for _, u := range tr.Ups {
					bytesRelayed += int64(u.Recv)
				}
				if len(samples) < 2 {
					samples = append(samples, tr)
				}
			}(i, s)
		}
		wg.Wait()
		// the proxy between UDP virtual connections and a UDP upstream: datagrams of growing and shrinking sizes
		udpRuns := 0
		for k, sizes := range [][]int{growing(16, 640, 40), append(growing(640, 16, 20), growing(16, 1400, 20)...), {64, 64, 64, 2048, 64, 4000, 16},
			// a datagram that exactly fills the buffer the relay reads with (io.Discard copies through 8192 bytes), and its neighbours
			{64, 8192, 64, 8191, 64, 8193, 64}, {2048, 64, 64}, {8192, 64}} {
			tr, err := runProxyUDP(sizes, k)
			if err != nil {
				errs = append(errs, err.Error())
				continue
			}
			lw.Write(tr)
			udpRuns++
		}
		if err := lw.Close(); err != nil {
			return err
		}
		return writeJSON(*sum, map[string]any{"runs": len(scens), "udp_runs": udpRuns, "errors": errs, "bytes_relayed_up": bytesRelayed, "samples": samples})
	})
}

func growing(from, to, n int) []int {
	out := make([]int, n)
	for i := range out {
		out[i] = from + (to-from)*i/(n-1)
	}
	return out
}

// runProxyUDP: one client's datagrams through the real servePacket loop and the real proxy handler to a UDP upstream
// on loopback; the upstream records what arrives. Judged by P6: every datagram arrives once, whole, in order.
func runProxyUDP(sizes []int, idx int) (map[string]any, error) {
	up, err := net.ListenPacket("udp", "127.0.0.1:0")
	if err != nil {
		return nil, err
	}
	defer up.Close()
	type got struct {
		Seq    int  `json:"seq"`
		N      int  `json:"n"`
		Intact bool `json:"intact"`
		Pieces int  `json:"pieces"` // upstream datagrams this client datagram arrived in (C03 speaks of bytes, not of boundaries)
	}
	var mu sync.Mutex
	var recv []got
	srcs := map[string]bool{}
	type partial struct {
		c, seq, size, have int
		g                  got
	}
	go func() {
		var part *partial
		buf := make([]byte, 65536)
		for {
			n, from, err := up.ReadFrom(buf)
			if err != nil {
				return
			}
			mu.Lock()
			srcs[from.String()] = true
			mu.Unlock()
			if n >= 8 {
				// the upstream answers every datagram with its sequence number (a little later, as a server does)
				ack := append([]byte(nil), buf[4:8]...)
				time.AfterFunc(3*time.Millisecond, func() { up.WriteTo(ack, from) })
			}
			g := got{Seq: -1, N: n, Pieces: 1}
			if n >= 12 && string(buf[:3]) == "VDG" {
				c, seq, size := int(buf[3]), int(binary.BigEndian.Uint32(buf[4:])), int(binary.BigEndian.Uint32(buf[8:]))
				g.Seq, g.Intact = seq, n <= size
				for i := 12; i < n && i < size; i++ {
					if buf[i] != vh.DgByte(c, seq, i) {
						g.Intact = false
					}
				}
				if n < size {
					// the rest may follow in a datagram of its own
					part = &partial{c: c, seq: seq, size: size, have: n, g: g}
					continue
				}
			} else if part != nil && n <= part.size-part.have {
				for i := 0; i < n; i++ {
					if buf[i] != vh.DgByte(part.c, part.seq, part.have+i) {
						part.g.Intact = false
					}
				}
				part.have += n
				part.g.N, part.g.Pieces = part.have, part.g.Pieces+1
				if part.have < part.size {
					continue
				}
				g, part = part.g, nil
			}
			if part != nil {
				// an incomplete datagram followed by something else: it stays incomplete
				part.g.Intact = false
				mu.Lock()
				recv = append(recv, part.g)
				mu.Unlock()
				part = nil
			}
			mu.Lock()
			recv = append(recv, g)
			mu.Unlock()
		}
	}()
	rec := vh.NewRecorder(nil)
	pc := vh.NewFakePC(rec)
	ctx, cancel := caddy.NewContext(caddy.Context{Context: context.Background()})
	defer cancel()
	routes := []map[string]any{{"handle": []map[string]any{{"handler": "proxy", "upstreams": []map[string]any{{"dial": []string{"udp/" + up.LocalAddr().String()}}}}}}}
	b, _ := json.Marshal(routes)
	srv := &layer4.Server{MatchingTimeout: caddy.Duration(5 * time.Second)}
	if err := json.Unmarshal(b, &srv.Routes); err != nil {
		return nil, err
	}
	if err := srv.Provision(ctx, zap.NewNop()); err != nil {
		return nil, err
	}
	go layer4.VerifServePacket(srv, pc)
	for i, size := range sizes {
		pc.Inject(1, i+1, size)
		time.Sleep(2 * time.Millisecond)
	}
	for k := 0; k < 300; k++ {
		mu.Lock()
		n := len(recv)
		mu.Unlock()
		if n >= len(sizes) {
			break
		}
		time.Sleep(5 * time.Millisecond)
	}
	time.Sleep(20 * time.Millisecond)
	pc.Close()
	mu.Lock()
	defer mu.Unlock()
	sent := make([]map[string]int, len(sizes))
	for i, sz := range sizes {
		if sz < vh.DgMin {
			sz = vh.DgMin
		}
		sent[i] = map[string]int{"seq": i + 1, "n": sz}
	}
	if recv == nil {
		recv = []got{}
	}
	acks := []int{}
	for _, e := range rec.Snapshot() {
		if e["e"] == "Reply" {
			acks = append(acks, e["a"].(int))
		}
	}
	return map[string]any{"id": fmt.Sprintf("proxy:udp:%d", idx), "udp": map[string]any{"sent": sent, "recv": recv, "acks": acks, "sources": len(srcs)}}, nil
}
