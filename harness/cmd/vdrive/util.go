package main

import (
	"encoding/json"
	"os"
)

func writeJSON(path string, v any) error {
	b, err := json.MarshalIndent(v, "", " ")
	if err != nil {
		return err
	}
	if path == "" || path == "-" {
		_, err = os.Stdout.Write(append(b, '\n'))
		return err
	}
	return os.WriteFile(path, append(b, '\n'), 0o644)
}
