package main

import (
	"encoding/json"
	"errors"
	"flag"
	"fmt"
	"io"
	"net"
	"strings"
	"syscall"
	"time"

	"github.com/caddyserver/caddy/v2"
	"go.uber.org/zap"

	"github.com/mholt/caddy-l4/layer4"

	"verifharness/vh"
)

// dyn-run: the real proxy handler behind the real http matcher, its one upstream dialling `{l4.http.host}:PORT`
// (spec L4Dyn / L4DynTrace; beyond the listed properties). Backends are loopback addresses 127.0.0.x that share one
// port: one accepts (and answers), one refuses (bound, not listening). Clients name a backend in the Host header.

type dynStep struct {
	Op string `json:"op"` // "conn" | "wait" | "check"
	H  string `json:"h,omitempty"`
}

const dynFailDuration = 400 * time.Millisecond
const dynActiveInterval = 40 * time.Millisecond

// bindOnly reserves ip:port without listening: connections to it are refused
func bindOnly(ip [4]byte, port int) (int, error) {
	fd, err := syscall.Socket(syscall.AF_INET, syscall.SOCK_STREAM, 0)
	if err != nil {
		return -1, err
	}
	syscall.SetsockoptInt(fd, syscall.SOL_SOCKET, syscall.SO_REUSEADDR, 1)
	if err := syscall.Bind(fd, &syscall.SockaddrInet4{Port: port, Addr: ip}); err != nil {
		syscall.Close(fd)
		return -1, err
	}
	return fd, nil
}

func runDyn(id string, maxFails int, active bool, steps []dynStep) (map[string]any, error) {
	// the accepting backend "a" = 127.0.0.2:P, the refusing ones "b" = 127.0.0.3:P, "c" = 127.0.0.4:P
	ln, err := net.Listen("tcp", "127.0.0.2:0")
	if err != nil {
		return nil, err
	}
	defer ln.Close()
	port := ln.Addr().(*net.TCPAddr).Port
	go func() {
		for {
			c, err := ln.Accept()
			if err != nil {
				return
			}
			go func() {
				defer c.Close()
				buf := make([]byte, 4096)
				c.SetReadDeadline(time.Now().Add(2 * time.Second))
				if n, _ := c.Read(buf); n > 0 { // the active checker connects and says nothing
					c.Write([]byte("OK"))
				}
			}()
		}
	}()
	ips := map[string][4]byte{"a": {127, 0, 0, 2}, "b": {127, 0, 0, 3}, "c": {127, 0, 0, 4}}
	name := func(h string) string { ip := ips[h]; return fmt.Sprintf("%d.%d.%d.%d", ip[0], ip[1], ip[2], ip[3]) }
	for _, h := range []string{"b", "c"} {
		fd, err := bindOnly(ips[h], port)
		if err != nil {
			return nil, fmt.Errorf("reserving %s:%d: %v", name(h), port, err)
		}
		defer syscall.Close(fd)
	}
	up := map[string]bool{"a": true, "b": false, "c": false}

	hj := map[string]any{"handler": "proxy", "upstreams": []map[string]any{{"dial": []string{fmt.Sprintf("{l4.http.host}:%d", port)}}}}
	hc := map[string]any{"passive": map[string]any{"max_fails": maxFails, "fail_duration": dynFailDuration.String()}}
	if active {
		hc["active"] = map[string]any{"interval": dynActiveInterval.String(), "timeout": "200ms"}
	}
	hj["health_checks"] = hc
	routes := []map[string]any{{"match": []map[string]any{{"http": []map[string]any{{}}}}, "handle": []map[string]any{hj}}}
	raw, _ := json.Marshal(routes)
	var rl layer4.RouteList
	if err := json.Unmarshal(raw, &rl); err != nil {
		return nil, err
	}
	base, err := vh.CaddyContext()
	if err != nil {
		return nil, err
	}
	ctx, cancel := caddy.NewContext(base)
	defer cancel()
	if err := rl.Provision(ctx); err != nil {
		return nil, fmt.Errorf("provisioning the route list: %v", err)
	}
	compiled := rl.Compile(zap.NewNop(), 2*time.Second, layer4.HandlerFunc(func(*layer4.Connection) error { return errors.New("fell through to the fallback") }))

	dln, err := net.Listen("tcp", "127.0.0.1:0")
	if err != nil {
		return nil, err
	}
	defer dln.Close()
	var hist []map[string]any
	for _, st := range steps {
		ev := map[string]any{"op": st.Op}
		switch st.Op {
		case "wait":
			time.Sleep(dynFailDuration + 300*time.Millisecond)
		case "check":
			time.Sleep(8 * dynActiveInterval)
		case "conn":
			cc, err := net.Dial("tcp", dln.Addr().String())
			if err != nil {
				return nil, err
			}
			sc, err := dln.Accept()
			if err != nil {
				return nil, err
			}
			cx := layer4.WrapConnection(sc, make([]byte, 0, 2048), zap.NewNop())
			herr := make(chan error, 1)
			go func() {
				e := compiled.Handle(cx)
				cx.Close()
				herr <- e
			}()
			fmt.Fprintf(cc, "GET / HTTP/1.1\r\nHost: %s\r\n\r\n", name(st.H))
			cc.SetReadDeadline(time.Now().Add(5 * time.Second))
			got, _ := io.ReadAll(cc)
			cc.Close()
			var e error
			select {
			case e = <-herr:
			case <-time.After(5 * time.Second):
				return nil, fmt.Errorf("%s: the handler did not return", id)
			}
			out := "?"
			switch {
			case string(got) == "OK":
				out = "served"
			case e != nil && strings.Contains(e.Error(), "no upstreams available"):
				out = "unavailable"
			case e != nil && (strings.Contains(e.Error(), "refused") || strings.Contains(e.Error(), "dial")):
				out = "dialfail"
			}
			if out == "?" {
				return nil, fmt.Errorf("%s: connection naming %s ended in a way the harness does not know: got %q, handler error %v", id, st.H, got, e)
			}
			ev["h"], ev["up"], ev["out"] = st.H, up[st.H], out
			if e != nil {
				ev["err"] = e.Error()
			}
		}
		hist = append(hist, ev)
	}
	return map[string]any{"id": id, "hosts": []string{"a", "b", "c"}, "maxFails": maxFails, "active": active, "hist": hist}, nil
}

func init() {
	register("dyn-run", "the proxy handler with a placeholder in its dial address (L4Dyn; beyond the listed properties)", func(args []string) error {
		fs := flag.NewFlagSet("dyn-run", flag.ExitOnError)
		out := fs.String("out", "", "observations (NDJSON for L4DynTrace)")
		fs.Parse(args)
		lw, err := vh.NewLineWriter(*out)
		if err != nil {
			return err
		}
		c := func(h string) dynStep { return dynStep{Op: "conn", H: h} }
		type scen struct {
			name     string
			maxFails int
			active   bool
			steps    []dynStep
		}
		scens := []scen{
			{"served", 1, false, []dynStep{c("a"), c("a")}},
			{"other-fails", 1, false, []dynStep{c("a"), c("b"), c("a")}},
			{"other-fails-forgotten", 1, false, []dynStep{c("b"), {Op: "wait"}, c("a")}},
			{"two-others-fail", 2, false, []dynStep{c("b"), c("a"), c("c"), c("a"), {Op: "wait"}, c("a")}},
			{"same-fails-twice", 2, false, []dynStep{c("b"), c("b"), c("b"), c("a")}},
			{"active", 1, true, []dynStep{{Op: "check"}, c("a")}},
		}
		for _, s := range scens {
			tr, err := runDyn("dyn:"+s.name, s.maxFails, s.active, s.steps)
			if err != nil {
				return err
			}
			lw.Write(tr)
		}
		return lw.Close()
	})
}
