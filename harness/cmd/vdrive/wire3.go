package main

import (
	"bytes"
	"strings"

	"golang.org/x/net/http2"
	"golang.org/x/net/http2/hpack"
)

// encodeHTTP2: an HTTP/2 connection opened with prior knowledge (RFC 9113 3.4)
func encodeHTTP2(v *wireVec) (*wireCase, error) {
	m, cfg := v.Msg, v.Cfg
	var buf bytes.Buffer
	buf.WriteString("PRI * HTTP/2.0\r\n\r\nSM\r\n\r\n")
	c := &wireCase{module: "http"}
	switch ms_(m, "h2") {
	case "preface_only":
		// stops inside the second half of the preface
		c.first = buf.Bytes()[:20]
	case "bigframe":
		// a frame header that announces the largest frame: 16 MiB - 1 of DATA on stream 1
		buf.Write([]byte{0xFF, 0xFF, 0xFF, 0x00, 0x00, 0x00, 0x00, 0x00, 0x01})
		buf.Write(filler(64, 3))
		c.first = buf.Bytes()
	case "manyframes":
		fr := http2.NewFramer(&buf, nil)
		fr.WriteSettings()
		for i := 0; i < 4; i++ {
			fr.WriteWindowUpdate(0, 1000)
			fr.WritePriority(uint32(2*i+3), http2.PriorityParam{StreamDep: 0, Weight: 10})
			fr.WritePing(false, [8]byte{1, 2, 3, 4, 5, 6, 7, byte(i)})
		}
		c.first = buf.Bytes()
	default:
		fr := http2.NewFramer(&buf, nil)
		fr.WriteSettings()
		var hb bytes.Buffer
		enc := hpack.NewEncoder(&hb)
		enc.WriteField(hpack.HeaderField{Name: ":method", Value: ms_(m, "method")})
		enc.WriteField(hpack.HeaderField{Name: ":scheme", Value: "https"})
		enc.WriteField(hpack.HeaderField{Name: ":path", Value: ms_(m, "path")})
		enc.WriteField(hpack.HeaderField{Name: ":authority", Value: ms_(m, "host")})
		if t := ms_(m, "tenant"); t != "" && t != "none" {
			for _, v := range strings.Split(t, "_") {
				enc.WriteField(hpack.HeaderField{Name: "x-tenant", Value: v})
			}
		}
		fr.WriteHeaders(http2.HeadersFrameParam{StreamID: 1, BlockFragment: hb.Bytes(), EndHeaders: true, EndStream: true})
		c.first = buf.Bytes()
	}
	switch ms_(cfg, "filter") {
	case "none":
		c.cfg = []map[string]any{}
	case "host":
		c.cfg = []map[string]any{{"host": []string{"example.com"}}}
	case "path":
		c.cfg = []map[string]any{{"path": []string{"/api/*"}}}
	case "method":
		c.cfg = []map[string]any{{"method": []string{"POST"}}}
	case "header":
		c.cfg = []map[string]any{{"header": map[string][]string{"X-Test": {"*"}}}}
	case "tenant":
		c.cfg = []map[string]any{{"header": map[string][]string{"X-Tenant": {"alpha"}}}}
	}
	return c, nil
}
