package main

import (
	"bytes"
	"context"
	"encoding/binary"
	"encoding/json"
	"flag"
	"fmt"
	"github.com/caddyserver/caddy/v2/caddyconfig/caddyfile"
	"io"
	"net"
	"os"
	"runtime"
	"runtime/debug"
	"strconv"
	"strings"
	"sync"
	"sync/atomic"
	"time"

	"github.com/caddyserver/caddy/v2"
	"github.com/mholt/caddy-l4/layer4"
	"github.com/mholt/caddy-l4/modules/l4socks"
	"go.uber.org/zap"

	"verifharness/vh"
)

type socksCase struct {
	Cfg struct {
		Cmds  []string `json:"cmds"`
		Creds []struct {
			U string `json:"u"`
			P string `json:"p"`
		} `json:"creds"`
		Form string `json:"form"` // "json": the handler's fields are set as the JSON loader does; "caddyfile": through UnmarshalCaddyfile
	} `json:"cfg"`
	Sc struct {
		Methods []int  `json:"methods"`
		Auth    string `json:"auth"`
		Cmd     int    `json:"cmd"`
		Atyp    int    `json:"atyp"`
	} `json:"sc"`
	Sent struct {
		U string `json:"u"`
		P string `json:"p"`
	} `json:"sent"`
	May bool `json:"may"`
}

type socksTrace struct {
	ID       string `json:"id"`
	Cfg      any    `json:"cfg"`
	Sc       any    `json:"sc"`
	Served   bool   `json:"served"`
	Outbound bool   `json:"outbound"`
	Method   int    `json:"method"`
	AuthRep  int    `json:"authRep"`
	Reply    int    `json:"reply"`
	May      bool   `json:"may"`
	Panic    string `json:"panic"`
}

// one target listener per worker: counts accepted connections
type socksTarget struct {
	ln      net.Listener
	accepts atomic.Int64
}

func newSocksTarget() (*socksTarget, error) {
	ln, err := net.Listen("tcp", "127.0.0.1:0")
	if err != nil {
		return nil, err
	}
	t := &socksTarget{ln: ln}
	go func() {
		for {
			c, err := ln.Accept()
			if err != nil {
				return
			}
			t.accepts.Add(1)
			c.Close()
		}
	}()
	return t, nil
}

var socksLoadMu sync.Mutex

func runSocks(c *socksCase, i int, tgt *socksTarget) (*socksTrace, error) {
	tr := &socksTrace{ID: fmt.Sprintf("socks:%d", i), Cfg: c.Cfg, Sc: c.Sc, Method: -1, AuthRep: -1, Reply: -1, May: c.May}
	h := &l4socks.Socks5Handler{Commands: c.Cfg.Cmds}
	if len(c.Cfg.Creds) > 0 {
		h.Credentials = map[string]string{}
		for _, cr := range c.Cfg.Creds {
			h.Credentials[cr.U] = cr.P
		}
	}
	if c.Cfg.Form == "caddyfile" {
		// the same configuration written in the documented Caddyfile syntax and parsed by the handler itself
		var sb strings.Builder
		sb.WriteString("socks5 {\n")
		if len(c.Cfg.Cmds) > 0 {
			sb.WriteString("\tcommands")
			for _, x := range c.Cfg.Cmds {
				sb.WriteString(" " + strconv.Quote(x))
			}
			sb.WriteString("\n")
		}
		if len(c.Cfg.Creds) > 0 {
			sb.WriteString("\tcredentials")
			for _, cr := range c.Cfg.Creds {
				sb.WriteString(" " + strconv.Quote(cr.U) + " " + strconv.Quote(cr.P))
			}
			sb.WriteString("\n")
		}
		sb.WriteString("}\n")
		h = &l4socks.Socks5Handler{}
		if err := h.UnmarshalCaddyfile(caddyfile.NewTestDispenser(sb.String())); err != nil {
			return nil, fmt.Errorf("caddyfile %q: %v", sb.String(), err)
		}
	}
	ctx, cancel := caddy.NewContext(caddy.Context{Context: context.Background()})
	defer cancel()
	// the handler is created, filled from JSON and provisioned by Caddy's module loader, as in a loaded configuration
	// (the Caddyfile form contributes the JSON its parser produced); instances of other cases live in the same process
	raw, err := json.Marshal(h)
	if err != nil {
		return nil, err
	}
	// (configurations are loaded one at a time, as Caddy does; the sessions then run in parallel)
	socksLoadMu.Lock()
	mod, err := ctx.LoadModuleByID("layer4.handlers.socks5", raw)
	socksLoadMu.Unlock()
	if err != nil {
		return nil, fmt.Errorf("loading %s: %v", raw, err)
	}
	h = mod.(*l4socks.Socks5Handler)
	cli, srv := net.Pipe()
	defer cli.Close()
	cx := layer4.WrapConnection(srv, nil, zap.NewNop())
	done := make(chan struct{})
	panicked := make(chan string, 1)
	go func() {
		defer close(done)
		defer func() {
			if r := recover(); r != nil {
				panicked <- fmt.Sprint(r)
				srv.Close()
			}
		}()
		h.Handle(cx, nil)
		srv.Close()
	}()
	before := tgt.accepts.Load()
	cli.SetDeadline(time.Now().Add(2 * time.Second))
	finish := func() (*socksTrace, error) {
		cli.Close()
		select {
		case <-done:
		case <-time.After(2 * time.Second):
		}
		// an outbound connection may be accepted a moment after the reply
		if tr.Served {
			for k := 0; k < 200 && tgt.accepts.Load() == before; k++ {
				time.Sleep(time.Millisecond)
			}
		}
		if tgt.accepts.Load() > before {
			tr.Outbound = true
		}
		select {
		case tr.Panic = <-panicked:
		default:
		}
		return tr, nil
	}
	// greeting
	g := []byte{5, byte(len(c.Sc.Methods))}
	for _, m := range c.Sc.Methods {
		g = append(g, byte(m))
	}
	if _, err := cli.Write(g); err != nil {
		return finish()
	}
	rep := make([]byte, 2)
	if _, err := io.ReadFull(cli, rep); err != nil {
		return finish()
	}
	tr.Method = int(rep[1])
	if rep[1] == 0xff {
		return finish()
	}
	if rep[1] == 2 {
		var a []byte
		if c.Sc.Auth == "malformed" {
			a = []byte{9, 1, 'x', 1, 'y'}
		} else {
			a = []byte{1, byte(len(c.Sent.U))}
			a = append(a, c.Sent.U...)
			a = append(a, byte(len(c.Sent.P)))
			a = append(a, c.Sent.P...)
		}
		if _, err := cli.Write(a); err != nil {
			return finish()
		}
		if _, err := io.ReadFull(cli, rep); err != nil {
			return finish()
		}
		tr.AuthRep = int(rep[1])
		if rep[1] != 0 {
			return finish()
		}
	}
	// request
	port := tgt.ln.Addr().(*net.TCPAddr).Port
	req := []byte{5, byte(c.Sc.Cmd), 0, byte(c.Sc.Atyp)}
	switch c.Sc.Atyp {
	case 1:
		req = append(req, 127, 0, 0, 1)
	case 3:
		req = append(req, 9)
		req = append(req, "localhost"...)
	case 4:
		req = append(req, net.IPv6loopback...)
	default:
		req = append(req, 127, 0, 0, 1)
	}
	var pb [2]byte
	binary.BigEndian.PutUint16(pb[:], uint16(port))
	req = append(req, pb[:]...)
	if _, err := cli.Write(req); err != nil {
		return finish()
	}
	hd := make([]byte, 4)
	if _, err := io.ReadFull(cli, hd); err != nil {
		return finish()
	}
	tr.Reply = int(hd[1])
	if hd[1] == 0 {
		tr.Served = true
		if c.Sc.Cmd == 3 {
			tr.Outbound = true // a relay listener was announced
		}
	}
	return finish()
}

func init() {
	register("socks-run", "every TLC-enumerated (configuration, client script) pair on the real SOCKS5 handler (C16)", func(args []string) error {
		fs := flag.NewFlagSet("socks-run", flag.ExitOnError)
		in := fs.String("in", "", "cases (NDJSON from L4Socks5Grid)")
		out := fs.String("out", "", "traces (NDJSON for L4Socks5Trace)")
		sum := fs.String("summary", "", "summary JSON")
		fs.Parse(args)
		os.Setenv("VERIF_USER", "dave")
		os.Setenv("VERIF_PASS", "dpw")
		os.Setenv("VERIF_CMD", "connect")
		os.Unsetenv("VERIF_UNSET")
		lw, err := vh.NewLineWriter(*out)
		if err != nil {
			return err
		}
		nw := runtime.NumCPU()
		targets := make(chan *socksTarget, nw)
		for w := 0; w < nw; w++ {
			t, err := newSocksTarget()
			if err != nil {
				return err
			}
			defer t.ln.Close()
			targets <- t
		}
		var served, mayN, total int64
		var mu sync.Mutex
		var samples []any
		var errs []string
		err = vh.ReadLines(*in, nw, func(i int, line []byte) {
			var c socksCase
			if err := json.Unmarshal(line, &c); err != nil {
				panic(err)
			}
			t := <-targets
			tr, err := runSocks(&c, i, t)
			targets <- t
			if err != nil {
				mu.Lock()
				errs = append(errs, err.Error())
				mu.Unlock()
				return
			}
			atomic.AddInt64(&total, 1)
			if tr.Served || tr.Outbound {
				atomic.AddInt64(&served, 1)
			}
			if c.May {
				atomic.AddInt64(&mayN, 1)
			}
			lw.Write(tr)
			if i%4001 == 17 {
				mu.Lock()
				if len(samples) < 3 {
					samples = append(samples, tr)
				}
				mu.Unlock()
			}
		})
		if err != nil {
			return err
		}
		// sessions through a real layer4 Server (pooled matching buffers shared by consecutive connections)
		seq, err := runSocksServerSeq(8)
		if err != nil {
			return err
		}
		pps, err := runSocksBehindPP()
		if err != nil {
			return err
		}
		for _, tr := range pps {
			lw.Write(tr)
		}
		seqServed := 0
		for _, tr := range seq {
			lw.Write(tr)
			if tr.Served && tr.May {
				seqServed++
			}
		}
		if err := lw.Close(); err != nil {
			return err
		}
		return writeJSON(*sum, map[string]any{"cases": total, "served": served, "may_serve": mayN, "errors": errs, "samples": samples, "server_sequence_connections": len(seq), "server_sequence_served": seqServed})
	})
}

// runSocksServerSeq: one real Server with the route "socks5 matcher -> socks5 handler (credentials alice/secret)";
// per round, consecutive connections: a long non-SOCKS stream, alice's whole session in one write, a client that
// sends one byte and hangs up, and a client that sends NOTHING. Only alice may be served. One P and no garbage
// collection, so that the buffer pool hands buffers from one connection to the next.
// runSocksBehindPP: the socks5 handler behind the shipped proxy_protocol handler (no matcher), over loopback TCP so that
// the client decides what travels in one segment: a PROXY header and the first bytes of the SOCKS5 conversation together,
// the rest later. The conversation as a whole decides; nothing of it may get lost between the two handlers.
func runSocksBehindPP() ([]*socksTrace, error) {
	tgt, err := newSocksTarget()
	if err != nil {
		return nil, err
	}
	defer tgt.ln.Close()
	base, err := vh.CaddyContext()
	if err != nil {
		return nil, err
	}
	ctx, cancel := caddy.NewContext(base)
	defer cancel()
	srv := &layer4.Server{MatchingTimeout: caddy.Duration(2 * time.Second)}
	raw, _ := json.Marshal([]map[string]any{{"handle": []map[string]any{{"handler": "proxy_protocol"},
		{"handler": "socks5", "credentials": map[string]string{"alice": "secret"}}}}})
	if err := json.Unmarshal(raw, &srv.Routes); err != nil {
		return nil, err
	}
	if err := srv.Provision(ctx, zap.NewNop()); err != nil {
		return nil, err
	}
	port := tgt.ln.Addr().(*net.TCPAddr).Port
	alice := []byte{5, 1, 2, 1, 5, 'a', 'l', 'i', 'c', 'e', 6, 's', 'e', 'c', 'r', 'e', 't', 5, 1, 0, 1, 127, 0, 0, 1, byte(port >> 8), byte(port)}
	cfg := map[string]any{"cmds": []string{}, "creds": []map[string]string{{"u": "alice", "p": "secret"}}, "form": "behind-pp"}
	var out []*socksTrace
	n := 0
	one := func(name, hdr string, first, rest []byte, methods []int, may bool) error {
		n++
		ln, err := net.Listen("tcp", "127.0.0.1:0")
		if err != nil {
			return err
		}
		defer ln.Close()
		cc, err := net.Dial("tcp", ln.Addr().String())
		if err != nil {
			return err
		}
		defer cc.Close()
		sconn, err := ln.Accept()
		if err != nil {
			return err
		}
		before := tgt.accepts.Load()
		tr := &socksTrace{ID: fmt.Sprintf("socks:behind-pp:%d:%s", n, name), Cfg: cfg,
			Sc: map[string]any{"methods": methods, "auth": "right", "cmd": 1, "atyp": 1}, Method: -1, AuthRep: -1, Reply: -1, May: may}
		done := make(chan struct{})
		go func() {
			defer close(done)
			defer func() {
				if r := recover(); r != nil {
					tr.Panic = fmt.Sprint(r)
				}
			}()
			layer4.VerifServerHandle(srv, sconn)
		}()
		var got []byte
		rdone := make(chan struct{})
		go func() {
			defer close(rdone)
			buf := make([]byte, 256)
			for {
				cc.SetReadDeadline(time.Now().Add(2 * time.Second))
				k, err := cc.Read(buf)
				got = append(got, buf[:k]...)
				if err != nil {
					return
				}
			}
		}()
		cc.Write(append([]byte(hdr), first...))
		time.Sleep(30 * time.Millisecond)
		cc.Write(rest)
		time.Sleep(60 * time.Millisecond)
		cc.(*net.TCPConn).CloseWrite()
		select {
		case <-done:
		case <-time.After(3 * time.Second):
		}
		cc.Close()
		<-rdone
		for k := 0; k < 30 && tgt.accepts.Load() == before; k++ {
			time.Sleep(time.Millisecond)
		}
		tr.Outbound = tgt.accepts.Load() > before
		tr.Served = bytes.Contains(got, []byte{5, 0, 0, 1})
		out = append(out, tr)
		return nil
	}
	for _, hdr := range []string{"PROXY UNKNOWN\r\n", "PROXY TCP4 203.0.113.7 198.51.100.9 40000 443\r\n"} {
		// a valid session, its first three bytes in the header's segment
		if err := one("alice", hdr, alice[:3], alice[3:], []int{2}, true); err != nil {
			return nil, err
		}
		// "05 01 05" in the header's segment, alice's whole session later: the conversation offers method 5 only
		if err := one("odd", hdr, []byte{5, 1, 5}, alice, []int{5}, false); err != nil {
			return nil, err
		}
	}
	return out, nil
}

func runSocksServerSeq(rounds int) ([]*socksTrace, error) {
	old := runtime.GOMAXPROCS(1)
	defer runtime.GOMAXPROCS(old)
	gc := debug.SetGCPercent(-1)
	defer debug.SetGCPercent(gc)
	tgt, err := newSocksTarget()
	if err != nil {
		return nil, err
	}
	defer tgt.ln.Close()
	base, err := vh.CaddyContext()
	if err != nil {
		return nil, err
	}
	ctx, cancel := caddy.NewContext(base)
	defer cancel()
	srv := &layer4.Server{MatchingTimeout: caddy.Duration(2 * time.Second)}
	raw, _ := json.Marshal([]map[string]any{{"match": []map[string]any{{"socks5": map[string]any{}}},
		"handle": []map[string]any{{"handler": "socks5", "credentials": map[string]string{"alice": "secret"}}}}})
	if err := json.Unmarshal(raw, &srv.Routes); err != nil {
		return nil, err
	}
	if err := srv.Provision(ctx, zap.NewNop()); err != nil {
		return nil, err
	}
	port := tgt.ln.Addr().(*net.TCPAddr).Port
	alice := []byte{5, 1, 2, 1, 5, 'a', 'l', 'i', 'c', 'e', 6, 's', 'e', 'c', 'r', 'e', 't', 5, 1, 0, 1, 127, 0, 0, 1, byte(port >> 8), byte(port)}
	cfg := map[string]any{"cmds": []string{}, "creds": []map[string]string{{"u": "alice", "p": "secret"}}, "form": "server"}
	var out []*socksTrace
	n := 0
	var pulls []int
	auth := "right"
	one := func(name string, stream []byte, methods []int, may bool) {
		n++
		rec := vh.NewRecorder(stream)
		sc := &vh.ScriptConn{Rec: rec, Slen: len(stream), EndKind: "eof", Start: time.Now(), Unit: time.Hour, Pulls: pulls,
			Remote: &net.TCPAddr{IP: net.IPv4(10, 9, 0, byte(n)), Port: 30000 + n}}
		before := tgt.accepts.Load()
		tr := &socksTrace{ID: fmt.Sprintf("socks:server:%d:%s", n, name), Cfg: cfg,
			Sc: map[string]any{"methods": methods, "auth": auth, "cmd": 1, "atyp": 1}, Method: -1, AuthRep: -1, Reply: -1, May: may}
		func() {
			defer func() {
				if r := recover(); r != nil {
					tr.Panic = fmt.Sprint(r)
				}
			}()
			layer4.VerifServerHandle(srv, sc)
		}()
		for k := 0; k < 30 && tgt.accepts.Load() == before; k++ {
			time.Sleep(time.Millisecond)
		}
		tr.Outbound = tgt.accepts.Load() > before
		// a success reply: version 5, reply code 0 after the method (and status) replies
		w := sc.Written
		tr.Served = bytes.Contains(w, []byte{5, 0, 0, 1})
		out = append(out, tr)
	}
	for r := 0; r < rounds; r++ {
		one("decoy", filler(3000, byte(r)), []int{}, false)
		one("alice", alice, []int{2}, true)
		one("onebyte", []byte{5}, []int{}, false)
		one("silent", []byte{}, []int{}, false)
	}
	// (in rounds of their own, so that the hand-over of pooled buffers in the rounds above stays what it was)
	for r := 0; r < rounds; r++ {
		// the version byte arrives alone, the rest later: greeting 05 01 02, then a user/password message that names the
		// user "\x01\x05" with a password longer than what follows - to be refused. If the bytes "01 02" that the matcher
		// looked at were lost on the way to the handler, the rest would read as alice's valid login.
		odd := append([]byte{5, 1, 2, 1, 2}, alice[3:]...)
		pulls, auth = []int{1, len(odd) - 1}, "wronguser"
		one("split-odd", odd, []int{2}, false)
		auth = "right"
		pulls = []int{1, len(alice) - 1}
		one("split-alice", alice, []int{2}, true)
		// a first segment "05 01" in front of alice's whole session: the stream offers method 5 only and must be refused; if
		// the first segment were lost after matching, the rest would be alice's valid session
		pre := append([]byte{5, 1}, alice...)
		pulls = []int{2, len(pre) - 2}
		one("split-prefix", pre, []int{5}, false)
		pulls = nil
	}
	return out, nil
}
