package main

import (
	"crypto/aes"
	"crypto/cipher"
	"crypto/hmac"
	"crypto/md5"
	"crypto/sha1"
	"crypto/sha256"
	"crypto/sha512"
	"encoding/base64"
	"encoding/binary"
	"encoding/hex"
	"fmt"
	"hash"
	"os"
	"path/filepath"
	"sync"
	"time"

	"golang.org/x/crypto/sha3"
)

// OpenVPN client reset messages, written from the protocol description (openvpn-protocol,
// cryptographic layer, tls-crypt-v2.txt) with the standard library only: nothing of
// modules/l4openvpn is used to build a vector.

func init() {
	wireEncoders["openvpn"] = encodeOpenVPN
}

// deterministic key material
func ovKeyBytes(n int, seed byte) []byte {
	out := make([]byte, 0, n)
	h := sha256.Sum256([]byte{seed, 'o', 'v', 'p', 'n'})
	for len(out) < n {
		out = append(out, h[:]...)
		h = sha256.Sum256(h[:])
	}
	return out[:n]
}

var (
	ovGroup = map[string][]byte{"k1": ovKeyBytes(256, 1), "k2": ovKeyBytes(256, 2)}
	ovSrv   = map[string][]byte{"s1": ovKeyBytes(128, 11), "s2": ovKeyBytes(128, 12)}
	ovKc    = map[string][]byte{"a": ovKeyBytes(256, 21), "b": ovKeyBytes(256, 22)}
)

func ovHMAC(h func() hash.Hash, key, data []byte) []byte {
	m := hmac.New(h, key)
	m.Write(data)
	return m.Sum(nil)
}

func ovCTR(key, iv, in []byte) []byte {
	blk, err := aes.NewCipher(key)
	if err != nil {
		panic(err)
	}
	out := make([]byte, len(in))
	cipher.NewCTR(blk, iv).XORKeyStream(out, in)
	return out
}

// ovWrap builds WKc = tag || AES-256-CTR(Kc || metadata) || length, under a 1024-bit server key
// (cipher key = bytes 0..32, HMAC key = bytes 64..96), tag = HMAC-SHA256(length || Kc || metadata).
func ovWrap(kc, meta, srv []byte) []byte {
	plain := append(append([]byte{}, kc...), meta...)
	total := 32 + len(plain) + 2
	lenb := binary.BigEndian.AppendUint16(nil, uint16(total))
	tag := ovHMAC(sha256.New, srv[64:96], append(append([]byte{}, lenb...), plain...))
	enc := ovCTR(srv[0:32], tag[:16], plain)
	return append(append(append([]byte{}, tag...), enc...), lenb...)
}

// ovClientKey is what an OpenVPN client configuration carries: Kc || WKc (base64)
func ovClientKey(which string) string {
	kc, srv := ovKc["a"], ovSrv["s1"]
	if which == "c2" {
		kc, srv = ovKc["b"], ovSrv["s2"]
	}
	return base64.StdEncoding.EncodeToString(append(append([]byte{}, kc...), ovWrap(kc, nil, srv)...))
}

var ovDigests = map[string]func() hash.Hash{"md5": md5.New, "sha1": sha1.New, "sha256": sha256.New, "sha512": sha512.New, "sha3-256": sha3.New256}

// ovCryptBody: replay id, timestamp, tag, encrypted(ack count, packet id) of a tls-crypt message under key (256 bytes,
// client->server: cipher key bytes 128..160, HMAC key bytes 192..224)
func ovCryptBody(op byte, session []byte, rpid, ts uint32, acks byte, pid uint32, key []byte, corrupt bool) []byte {
	hdr := append([]byte{op}, session...)
	hdr = binary.BigEndian.AppendUint32(hdr, rpid)
	hdr = binary.BigEndian.AppendUint32(hdr, ts)
	plain := binary.BigEndian.AppendUint32([]byte{acks}, pid)
	tag := ovHMAC(sha256.New, key[192:224], append(append([]byte{}, hdr...), plain...))
	enc := ovCTR(key[128:160], tag[:16], plain)
	if corrupt {
		tag[5] ^= 0x40
	}
	out := append([]byte{}, hdr[1:]...)
	out = append(out, tag...)
	return append(out, enc...)
}

var ovKeyDir string
var ovKeyDirOnce sync.Once

// ovKeyFile writes a key file once per process and returns its path
func ovKeyFile(name, body string) (string, error) {
	var err error
	ovKeyDirOnce.Do(func() { ovKeyDir, err = os.MkdirTemp("", "verif-ovpn-keys-") })
	if err != nil || ovKeyDir == "" {
		return "", fmt.Errorf("key directory: %v", err)
	}
	p := filepath.Join(ovKeyDir, name+".key")
	if _, serr := os.Stat(p); serr == nil {
		return p, nil
	}
	return p, os.WriteFile(p, []byte(body), 0o600)
}

var ovChecked error
var ovOnce sync.Once

func encodeOpenVPN(v *wireVec) (*wireCase, error) {
	// the encoder is only trusted after it has reproduced packets of a real OpenVPN
	ovOnce.Do(func() { ovChecked = ovSelfCheck() })
	if ovChecked != nil {
		return nil, ovChecked
	}
	m, cfg := v.Msg, v.Cfg
	c := &wireCase{module: "openvpn"}
	mode := ms_(m, "mode")
	opcode := byte(7)
	if mode == "crypt2" {
		opcode = 10
	}
	switch ms_(m, "opcode") {
	case "swapped":
		opcode = 17 - opcode
	case "other":
		opcode = 8
	}
	op := opcode<<3 | byte(mi(m, "keyid"))
	session := []byte{0x5a, 0x11, 0x22, 0x33, 0x44, 0x55, 0x66, 0x77}
	if ms_(m, "session") == "zero" {
		session = make([]byte, 8)
	}
	rpid := uint32(1)
	switch ms_(m, "rpid") {
	case "two":
		rpid = 2
	case "early":
		rpid = 0x0f000001
	}
	now := time.Now().Unix()
	ts := uint32(now)
	switch ms_(m, "ts") {
	case "old":
		ts = uint32(now - 120)
	case "future":
		ts = uint32(now + 120)
	}
	acks, pid := byte(mi(m, "acks")), uint32(mi(m, "pid"))
	sig := ms_(m, "sig")
	var body []byte // everything after the opcode byte
	switch mode {
	case "plain":
		body = append(append([]byte{}, session...), acks)
		body = binary.BigEndian.AppendUint32(body, pid)
	case "auth":
		key := ovGroup["k1"]
		quarter := key[192:256]
		switch sig {
		case "q1":
			quarter = key[64:128]
		case "b":
			quarter = ovGroup["k2"][192:256]
		}
		var mac []byte
		if d := ms_(m, "digest"); d == "bad" {
			mac = filler(24, 9)
		} else {
			hf := ovDigests[d]
			size := hf().Size()
			// HMAC over: replay packet id, timestamp, opcode/key id, session id, ack count, packet id
			in := binary.BigEndian.AppendUint32(nil, rpid)
			in = binary.BigEndian.AppendUint32(in, ts)
			in = append(in, op)
			in = append(in, session...)
			in = append(in, acks)
			in = binary.BigEndian.AppendUint32(in, pid)
			mac = ovHMAC(hf, quarter[:min(size, 64)], in)
			if sig == "corrupt" {
				mac[3] ^= 0x10
			}
		}
		body = append(append([]byte{}, session...), mac...)
		body = binary.BigEndian.AppendUint32(body, rpid)
		body = binary.BigEndian.AppendUint32(body, ts)
		body = append(body, acks)
		body = binary.BigEndian.AppendUint32(body, pid)
	case "crypt":
		key := ovGroup["k1"]
		if sig == "b" {
			key = ovGroup["k2"]
		}
		body = ovCryptBody(op, session, rpid, ts, acks, pid, key, sig == "corrupt")
	case "crypt2":
		kc, srv := ovKc["a"], ovSrv["s1"]
		if sig == "b" {
			kc, srv = ovKc["b"], ovSrv["s2"]
		}
		body = ovCryptBody(op, session, rpid, ts, acks, pid, kc, sig == "corrupt")
		var meta []byte
		wk := ms_(m, "wk")
		if wk == "meta" {
			meta = append([]byte{0}, filler(8, 4)...) // type 0 = user defined
		}
		w := ovWrap(kc, meta, srv)
		switch wk {
		case "corrupt":
			w[7] ^= 0x01
		case "badlen":
			binary.BigEndian.PutUint16(w[len(w)-2:], uint16(len(w)+1))
		}
		body = append(body, w...)
	default:
		return nil, fmt.Errorf("openvpn mode %q", mode)
	}
	msg := append([]byte{op}, body...)
	for i := 0; i < mi(m, "pad"); i++ {
		msg = append(msg, 0xEE)
	}
	if v.Net == "tcp" {
		l := len(msg)
		switch ms_(m, "lenfield") {
		case "short":
			l--
		case "long":
			l++
		case "zero":
			l = 0
		}
		msg = append(binary.BigEndian.AppendUint16(nil, uint16(l)), msg...)
	}
	c.first = msg
	// matcher configuration
	cc := map[string]any{}
	if l := mlist(cfg, "modes"); len(l) > 0 {
		cc["modes"] = l
	}
	if b, _ := cfg["ignore_timestamp"].(bool); b {
		cc["ignore_timestamp"] = true
	}
	if b, _ := cfg["ignore_crypto"].(bool); b {
		cc["ignore_crypto"] = true
	}
	file := ms_(cfg, "via") == "file"
	if k := ms_(cfg, "group_key"); k != "none" {
		if file {
			// an OpenVPN static key file: comment lines, 16 lines of 32 hex digits between the markers
			h := hex.EncodeToString(ovGroup[k])
			body := "#\n# 2048 bit OpenVPN static key\n#\n-----BEGIN OpenVPN Static key V1-----\n"
			for i := 0; i < len(h); i += 32 {
				body += h[i:i+32] + "\n"
			}
			body += "-----END OpenVPN Static key V1-----\n"
			p, err := ovKeyFile("group-"+k, body)
			if err != nil {
				return nil, err
			}
			cc["group_key_file"] = p
		} else {
			cc["group_key"] = hex.EncodeToString(ovGroup[k])
		}
	}
	if d := ms_(cfg, "auth_digest"); d != "" {
		cc["auth_digest"] = d
	}
	if d := ms_(cfg, "direction"); d != "" {
		cc["group_key_direction"] = d
	}
	b64file := func(name, kind, b64 string) (string, error) {
		body := "-----BEGIN OpenVPN tls-crypt-v2 " + kind + " key-----\n"
		for i := 0; i < len(b64); i += 64 {
			body += b64[i:min(i+64, len(b64))] + "\n"
		}
		body += "-----END OpenVPN tls-crypt-v2 " + kind + " key-----\n"
		return ovKeyFile(name, body)
	}
	if k := ms_(cfg, "server_key"); k != "none" {
		b64 := base64.StdEncoding.EncodeToString(ovSrv[k])
		if file {
			p, err := b64file("server-"+k, "server", b64)
			if err != nil {
				return nil, err
			}
			cc["server_key_file"] = p
		} else {
			cc["server_key"] = b64
		}
	}
	if k := ms_(cfg, "client_keys"); k != "none" {
		if file {
			p, err := b64file("client-"+k, "client", ovClientKey(k))
			if err != nil {
				return nil, err
			}
			cc["client_key_files"] = []string{p}
		} else {
			cc["client_keys"] = []string{ovClientKey(k)}
		}
	}
	c.cfg = cc
	return c, nil
}
