package vh

import (
	"io"
	"math"
	"net"
	"os"
	"sync"
	"time"
)

// ScriptConn is a deterministic net.Conn: the client's stream is fixed, and the sizes of the
// socket reads issued by prefetch follow a script (the Pull events of a TLA+ behaviour or a
// random schedule). There is no real time and no goroutine: a read either returns bytes or
// the end condition (EOF, or a deadline error when the client is "silent" and a deadline is armed).
type ScriptConn struct {
	Rec  *Recorder
	Slen int // the client sends Stream[:Slen] and then ends
	// EOFWithData: the read that delivers the last bytes of the stream reports io.EOF in the same call, as an io.Reader
	// may (crypto/tls does when the peer writes and closes at once)
	EOFWithData bool
	EndKind     string // "eof" | "silent" | "hold" (the client keeps the connection open: a read past the end blocks until Close / Release)
	Pulls       []int  // sizes of the successive prefetch-issued socket reads; afterwards: as much as asked
	Start       time.Time
	Unit        time.Duration // deadlines are Start + list*Unit

	mu       sync.Mutex
	pos      int
	deadline time.Time
	closed   bool
	Written  []byte
	Local    net.Addr
	Remote   net.Addr
	relOnce  sync.Once
	released chan struct{}
}

// Release ends a "hold" client: blocked and later reads return EOF.
func (c *ScriptConn) Release() {
	c.mu.Lock()
	if c.released == nil {
		c.released = make(chan struct{})
	}
	ch := c.released
	c.mu.Unlock()
	c.relOnce.Do(func() { close(ch) })
}

func (c *ScriptConn) Read(p []byte) (int, error) {
	c.mu.Lock()
	defer c.mu.Unlock()
	if len(p) == 0 {
		return 0, nil
	}
	if !c.deadline.IsZero() && !time.Now().Before(c.deadline) {
		// like a socket: a read entered after the deadline fails, whatever is waiting
		if c.Rec.InHandler || c.Rec.InRoute {
			c.Rec.AddAux(Ev{"e": "HSock", "k": "timeout"})
		} else {
			c.Rec.Add(Ev{"e": "Sock", "k": "timeout"})
		}
		return 0, os.ErrDeadlineExceeded
	}
	rest := c.Slen - c.pos
	inH := c.Rec.InHandler || c.Rec.InRoute
	n := len(p)
	if n > rest {
		n = rest
	}
	if !inH && len(c.Pulls) > 0 && n > 0 {
		if c.Pulls[0] < n {
			n = c.Pulls[0]
		}
		c.Pulls = c.Pulls[1:]
	}
	if n > 0 {
		copy(p, c.Rec.Stream[c.pos:c.pos+n])
		c.pos += n
		if inH {
			c.Rec.AddAux(Ev{"e": "HPull", "n": n})
		} else {
			c.Rec.Add(Ev{"e": "Pull", "n": n})
		}
		if c.EOFWithData && c.EndKind == "eof" && c.pos == c.Slen {
			return n, io.EOF
		}
		return n, nil
	}
	// nothing more will come
	if c.EndKind == "hold" {
		if c.released == nil {
			c.released = make(chan struct{})
		}
		ch := c.released
		c.mu.Unlock()
		<-ch
		c.mu.Lock()
	}
	kind := "eof"
	var err error = io.EOF
	if c.EndKind == "silent" {
		if !c.deadline.IsZero() {
			kind, err = "timeout", os.ErrDeadlineExceeded
		} else {
			// a read without deadline on a silent client would block for ever
			kind = "block"
		}
	}
	if inH {
		c.Rec.AddAux(Ev{"e": "HSock", "k": kind})
	} else {
		c.Rec.Add(Ev{"e": "Sock", "k": kind})
	}
	return 0, err
}

func (c *ScriptConn) Write(p []byte) (int, error) {
	c.mu.Lock()
	c.Written = append(c.Written, p...)
	c.mu.Unlock()
	return len(p), nil
}

func (c *ScriptConn) Close() error {
	c.mu.Lock()
	c.closed = true
	c.mu.Unlock()
	if c.EndKind == "hold" {
		c.Release()
	}
	c.Rec.AddAux(Ev{"e": "Closed"})
	if c.Rec.Sink != nil {
		c.Rec.Sink.Add(Ev{"e": "ConnClosed", "c": c.Rec.ID})
	}
	return nil
}

func (c *ScriptConn) Closed() bool { c.mu.Lock(); defer c.mu.Unlock(); return c.closed }
func (c *ScriptConn) Pos() int     { c.mu.Lock(); defer c.mu.Unlock(); return c.pos }

func (c *ScriptConn) LocalAddr() net.Addr {
	if c.Local != nil {
		return c.Local
	}
	return &net.TCPAddr{IP: net.IPv4(127, 0, 0, 1), Port: 4000}
}
func (c *ScriptConn) RemoteAddr() net.Addr {
	if c.Remote != nil {
		return c.Remote
	}
	return &net.TCPAddr{IP: net.IPv4(127, 0, 0, 1), Port: 50000}
}
func (c *ScriptConn) SetDeadline(t time.Time) error      { return c.SetReadDeadline(t) }
func (c *ScriptConn) SetWriteDeadline(t time.Time) error { return nil }
func (c *ScriptConn) SetReadDeadline(t time.Time) error {
	c.mu.Lock()
	c.deadline = t
	c.mu.Unlock()
	l := 0
	if !t.IsZero() {
		l = int(math.Round(float64(t.Sub(c.Start)) / float64(c.Unit)))
		if l <= 0 {
			l = -1 // armed, but not with any list's deadline
		}
	}
	if c.Rec.InRoute {
		// a handler of a matched route manages its own deadlines (proxy_protocol does)
		c.Rec.AddAux(Ev{"e": "HDl", "l": l})
		return nil
	}
	c.Rec.Add(Ev{"e": "Dl", "l": l})
	return nil
}
