package vh

import (
	"encoding/binary"
	"fmt"
	"net"
	"sync"
	"time"
)

// FakePC is a scripted net.PacketConn: datagrams are delivered on command (Inject) and
// replies are recorded. ReadFrom records DgIn when it hands a datagram to the server.
type FakePC struct {
	Rec    *Recorder
	in     chan fakeDg
	closed chan struct{}
	once   sync.Once
}

type fakeDg struct {
	client int
	seq    int
	data   []byte
}

func NewFakePC(rec *Recorder) *FakePC {
	return &FakePC{Rec: rec, in: make(chan fakeDg, 4096), closed: make(chan struct{})}
}

func ClientAddr(c int) *net.UDPAddr {
	return &net.UDPAddr{IP: net.IPv4(10, 0, 0, byte(c)), Port: 40000 + c}
}
func ClientName(c int) string { return fmt.Sprintf("c%d", c) }

// ClientOfAddrString is ClientOfAddr for an address in string form.
func ClientOfAddrString(a string) string {
	var ip [4]int
	var port int
	if n, _ := fmt.Sscanf(a, "%d.%d.%d.%d:%d", &ip[0], &ip[1], &ip[2], &ip[3], &port); n == 5 && port > 40000 && port < 40256 {
		return ClientName(port - 40000)
	}
	return "?"
}

// clientOfAddr maps an address back to the client name ("?" if unknown)
func ClientOfAddr(a net.Addr) string {
	if u, ok := a.(*net.UDPAddr); ok && u.Port > 40000 && u.Port < 40256 {
		return ClientName(u.Port - 40000)
	}
	if a != nil {
		var ip [4]int
		var port int
		if n, _ := fmt.Sscanf(a.String(), "%d.%d.%d.%d:%d", &ip[0], &ip[1], &ip[2], &ip[3], &port); n == 5 && port > 40000 && port < 40256 {
			return ClientName(port - 40000)
		}
	}
	return "?"
}

// Datagram payload: a 12-byte header (magic "VDG", client, seq, size) followed by filler in
// which every byte depends on the datagram's identity and the byte's offset, so that pieces
// read with a small buffer can be attributed and checked. Sizes are at least DgMin.
const DgMin = 16

func MakeDatagram(client, seq, size int) []byte {
	if size < DgMin {
		size = DgMin
	}
	b := make([]byte, size)
	copy(b, "VDG")
	b[3] = byte(client)
	binary.BigEndian.PutUint32(b[4:], uint32(seq))
	binary.BigEndian.PutUint32(b[8:], uint32(size))
	for i := 12; i < size; i++ {
		b[i] = DgByte(client, seq, i)
	}
	return b
}

func DgByte(client, seq, off int) byte {
	x := uint32(client)*2654435761 ^ uint32(seq)*40503 ^ uint32(off)*2246822519
	x ^= x >> 15
	x *= 2246822519
	x ^= x >> 13
	return byte(x)
}

// ParseDgHeader decodes the header of a first piece.
func ParseDgHeader(b []byte) (client, seq, size int, ok bool) {
	if len(b) < 12 || string(b[:3]) != "VDG" {
		return 0, 0, 0, false
	}
	return int(b[3]), int(binary.BigEndian.Uint32(b[4:])), int(binary.BigEndian.Uint32(b[8:])), true
}

func (p *FakePC) Inject(client, seq, size int) {
	p.in <- fakeDg{client, seq, MakeDatagram(client, seq, size)}
}

func (p *FakePC) ReadFrom(b []byte) (int, net.Addr, error) {
	select {
	case d := <-p.in:
		n := copy(b, d.data)
		p.Rec.Add(Ev{"e": "DgIn", "c": ClientName(d.client), "seq": d.seq, "len": n})
		return n, ClientAddr(d.client), nil
	case <-p.closed:
		return 0, nil, net.ErrClosed
	}
}

func (p *FakePC) WriteTo(b []byte, addr net.Addr) (int, error) {
	a := -1
	if len(b) >= 4 {
		a = int(binary.BigEndian.Uint32(b))
	}
	p.Rec.Add(Ev{"e": "Reply", "a": a, "to": ClientOfAddr(addr)})
	return len(b), nil
}

func (p *FakePC) Close() error                       { p.once.Do(func() { close(p.closed) }); return nil }
func (p *FakePC) LocalAddr() net.Addr                { return &net.UDPAddr{IP: net.IPv4(10, 0, 0, 254), Port: 5353} }
func (p *FakePC) SetDeadline(t time.Time) error      { return nil }
func (p *FakePC) SetReadDeadline(t time.Time) error  { return nil }
func (p *FakePC) SetWriteDeadline(t time.Time) error { return nil }
