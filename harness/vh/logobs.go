package vh

import (
	"sync"
	"time"

	"go.uber.org/zap"
	"go.uber.org/zap/zapcore"
)

// LogEntry is one log line of the code under test, with the time it was written.
type LogEntry struct {
	T      time.Time
	Level  zapcore.Level
	Msg    string
	Fields map[string]any
}

// LogObs is a zap core that keeps entries and calls On for each of them.
type LogObs struct {
	zapcore.LevelEnabler
	mu      sync.Mutex
	Entries []LogEntry
	On      func(LogEntry)
	with    []zapcore.Field
	parent  *LogObs
}

func NewLogObs(level zapcore.Level) (*zap.Logger, *LogObs) {
	o := &LogObs{LevelEnabler: level}
	return zap.New(o), o
}

func (o *LogObs) root() *LogObs {
	for o.parent != nil {
		o = o.parent
	}
	return o
}
func (o *LogObs) With(fs []zapcore.Field) zapcore.Core {
	return &LogObs{LevelEnabler: o.LevelEnabler, with: append(append([]zapcore.Field{}, o.with...), fs...), parent: o}
}
func (o *LogObs) Check(e zapcore.Entry, ce *zapcore.CheckedEntry) *zapcore.CheckedEntry {
	if o.Enabled(e.Level) {
		return ce.AddCore(e, o)
	}
	return ce
}
func (o *LogObs) Write(e zapcore.Entry, fs []zapcore.Field) error {
	enc := zapcore.NewMapObjectEncoder()
	for _, f := range append(append([]zapcore.Field{}, o.with...), fs...) {
		f.AddTo(enc)
	}
	le := LogEntry{T: time.Now(), Level: e.Level, Msg: e.Message, Fields: enc.Fields}
	r := o.root()
	r.mu.Lock()
	r.Entries = append(r.Entries, le)
	on := r.On
	r.mu.Unlock()
	if on != nil {
		on(le)
	}
	return nil
}
func (o *LogObs) Sync() error { return nil }

func (o *LogObs) All() []LogEntry {
	r := o.root()
	r.mu.Lock()
	defer r.mu.Unlock()
	return append([]LogEntry{}, r.Entries...)
}
