package vh

import (
	"net"
	"sync"
	"time"
)

// FakeListener is a scripted net.Listener: connections are handed out on command.
type FakeListener struct {
	ch       chan net.Conn
	closed   chan struct{}
	once     sync.Once
	OnAccept func(net.Conn)
	// LateClose: a blocked Accept learns of Close only that much later (listeners that are closed by way of a
	// deadline, as Caddy's shared listeners are, behave like this)
	LateClose time.Duration
}

func NewFakeListener() *FakeListener {
	return &FakeListener{ch: make(chan net.Conn, 1024), closed: make(chan struct{})}
}

func (l *FakeListener) Offer(c net.Conn) { l.ch <- c }

func (l *FakeListener) Accept() (net.Conn, error) {
	select {
	case <-l.closed:
		return nil, net.ErrClosed
	default:
	}
	select {
	case c := <-l.ch:
		if l.OnAccept != nil {
			l.OnAccept(c)
		}
		return c, nil
	case <-l.closed:
		return nil, net.ErrClosed
	}
}

func (l *FakeListener) Close() error {
	l.once.Do(func() {
		if l.LateClose > 0 {
			time.AfterFunc(l.LateClose, func() { close(l.closed) })
			return
		}
		close(l.closed)
	})
	return nil
}
func (l *FakeListener) Addr() net.Addr { return &net.TCPAddr{IP: net.IPv4(127, 0, 0, 1), Port: 4000} }

// Pending returns the connections that were offered but never accepted.
func (l *FakeListener) Pending() []net.Conn {
	var out []net.Conn
	for {
		select {
		case c := <-l.ch:
			out = append(out, c)
		default:
			return out
		}
	}
}
