package vh

import (
	"crypto/ecdsa"
	"crypto/elliptic"
	"crypto/rand"
	"crypto/x509"
	"crypto/x509/pkix"
	"encoding/json"
	"encoding/pem"
	"fmt"
	"math/big"
	"os"
	"sync"
	"time"

	"github.com/caddyserver/caddy/v2"
	_ "github.com/caddyserver/caddy/v2/modules/caddytls"
	_ "github.com/caddyserver/caddy/v2/modules/filestorage"
)

var (
	caddyOnce sync.Once
	caddyErr  error
	// CertPEM / KeyPEM of the self-signed certificate (CN and SAN "verif.test", "*.wild.test", "localhost")
	CertPEM, KeyPEM string
)

// SelfSigned creates a self-signed certificate for the given names.
func SelfSigned(names ...string) (certPEM, keyPEM string, err error) {
	key, err := ecdsa.GenerateKey(elliptic.P256(), rand.Reader)
	if err != nil {
		return "", "", err
	}
	tmpl := &x509.Certificate{SerialNumber: big.NewInt(time.Now().UnixNano()), Subject: pkix.Name{CommonName: names[0]},
		NotBefore: time.Now().Add(-time.Hour), NotAfter: time.Now().Add(24 * time.Hour),
		KeyUsage: x509.KeyUsageDigitalSignature, ExtKeyUsage: []x509.ExtKeyUsage{x509.ExtKeyUsageServerAuth}, DNSNames: names}
	der, err := x509.CreateCertificate(rand.Reader, tmpl, tmpl, &key.PublicKey, key)
	if err != nil {
		return "", "", err
	}
	kb, err := x509.MarshalECPrivateKey(key)
	if err != nil {
		return "", "", err
	}
	return string(pem.EncodeToMemory(&pem.Block{Type: "CERTIFICATE", Bytes: der})),
		string(pem.EncodeToMemory(&pem.Block{Type: "EC PRIVATE KEY", Bytes: kb})), nil
}

// CaddyContext starts (once per process) an in-process Caddy instance with the tls app, a
// self-signed certificate loaded from PEM, admin disabled, logs discarded, storage in a
// scratch directory - and returns its context, with which handlers that need apps (the real
// l4tls handler) can be provisioned.
func CaddyContext() (caddy.Context, error) {
	caddyOnce.Do(func() {
		CertPEM, KeyPEM, caddyErr = SelfSigned("verif.test", "*.wild.test", "localhost", "a.example.com", "b.example.com")
		if caddyErr != nil {
			return
		}
		dir, err := os.MkdirTemp("", "verif-caddy-")
		if err != nil {
			caddyErr = err
			return
		}
		os.Setenv("XDG_DATA_HOME", dir)
		os.Setenv("XDG_CONFIG_HOME", dir)
		cfg := map[string]any{
			"admin":   map[string]any{"disabled": true, "config": map[string]any{"persist": false}},
			"logging": map[string]any{"logs": map[string]any{"default": map[string]any{"writer": map[string]any{"output": "discard"}}}},
			"storage": map[string]any{"module": "file_system", "root": dir},
			"apps": map[string]any{
				"tls": map[string]any{
					// only a certificate loaded from PEM: no automation policy, so no issuer, no pki app
					// and nothing is installed into any trust store
					"certificates": map[string]any{"load_pem": []map[string]any{{"certificate": CertPEM, "key": KeyPEM, "tags": []string{"verif"}}}},
				},
			},
		}
		b, _ := json.Marshal(cfg)
		if err := caddy.Load(b, true); err != nil {
			caddyErr = fmt.Errorf("caddy.Load: %v", err)
			return
		}
	})
	if caddyErr != nil {
		return caddy.Context{}, caddyErr
	}
	return caddy.ActiveContext(), nil
}
