package vh

import (
	"encoding/binary"
	"errors"
	"fmt"
	"io"
	"net"
	"sync"
	"sync/atomic"

	"github.com/caddyserver/caddy/v2"
	"github.com/mholt/caddy-l4/layer4"
)

// NSlots is the number of distinct scripted-matcher module names. A matcher set is a JSON
// object keyed by module name, so two scripted matchers in one set need two names.
const NSlots = 8

var errScripted = errors.New("verif: scripted matcher error")

// RecKey is the connection variable under which the recorder travels (the variable table is
// shared by every Connection derived from the first one through Wrap or struct copy).
const RecKey = "verif_rec"

func recOf(cx *layer4.Connection) *Recorder {
	if r, ok := cx.GetVar(RecKey).(*Recorder); ok {
		return r
	}
	if a := cx.RemoteAddr(); a != nil {
		// real sockets: the pair of addresses (a client port alone may be in use towards another listener at the same time)
		if l := cx.LocalAddr(); l != nil {
			if r := RecByAddr(l.String() + "|" + a.String()); r != nil {
				return r
			}
		}
		return RecByAddr(a.String())
	}
	return nil
}

// VM is the scripted matcher: it asks for At bytes; while fewer are visible it reports
// "need more" exactly like a shipped matcher does (by reading past the prefetched bytes),
// afterwards it answers V for ever: "Y" match, "N" no match, "E" error.
type VM struct {
	At   int    `json:"at"`
	V    string `json:"v"`
	W    string `json:"w"`
	From int    `json:"from"`
	Kind string `json:"kind,omitempty"` // when set: applies only to connections of this scenario role, "N" otherwise
	slot int
}

func (m *VM) CaddyModule() caddy.ModuleInfo {
	s := m.slot
	return caddy.ModuleInfo{
		ID:  caddy.ModuleID(fmt.Sprintf("layer4.matchers.verif_m%d", s)),
		New: func() caddy.Module { return &VM{slot: s} },
	}
}

// kindMatches: a scenario role, or with a trailing '*' every role that starts so
func kindMatches(pat, kind string) bool {
	if n := len(pat); n > 0 && pat[n-1] == '*' {
		return len(kind) >= n-1 && kind[:n-1] == pat[:n-1]
	}
	return pat == kind
}

func (m *VM) Match(cx *layer4.Connection) (bool, error) {
	rec := recOf(cx)
	if m.Kind != "" && (rec == nil || !kindMatches(m.Kind, rec.Kind)) {
		return false, nil
	}
	vis := len(cx.MatchingBytes())
	if rec != nil {
		bl, _, _, _ := layer4.VerifConnState(cx)
		rec.NoteBuf(bl)
	}
	var err error
	if m.At > 0 {
		buf := make([]byte, m.At)
		_, err = io.ReadFull(cx, buf)
	}
	ret := "M"
	var ok bool
	if err == nil {
		ret = m.V
		if rec != nil && rec.Expect < m.From {
			ret = m.W
		}
		switch ret {
		case "Y":
			ok = true
		case "E":
			err = errScripted
			if rec != nil {
				rec.MatcherErr = true
			}
		}
	} else if !errors.Is(err, layer4.ErrConsumedAllPrefetchedBytes) {
		ret = "X:" + err.Error()
	}
	if rec != nil {
		rec.AddAux(Ev{"e": "MatchCall", "at": m.At, "v": m.V, "vis": vis, "ret": ret})
	}
	return ok, err
}

// VH is the recording handler.
//
//	mark  : first handler of every route: records Handle(l, r, vis), calls next
//	term  : reads the connection to its end, records HRead and Term, does not call next
//	pass  : calls next
//	eat   : reads exactly N bytes, records HRead, calls next (error if the stream ends first)
//	wrap  : calls next with cx.Wrap(conn reading through cx)
//	enter : placed before a subroute handler: records Enter(l, vis); when the subroute comes
//	        back without terminal handler, handler error or fallback it records Abort
//	fb    : placed after a subroute handler: records Fallback(l, vis), calls next
type VH struct {
	K    string `json:"k"`
	N    int    `json:"n,omitempty"`
	L    int    `json:"l,omitempty"`
	R    int    `json:"r,omitempty"`
	Buf  int    `json:"buf,omitempty"`
	Echo bool   `json:"echo,omitempty"`
	Fail bool   `json:"fail,omitempty"` // kind "udp": return an error after the datagrams were read
	Then bool   `json:"then,omitempty"` // kind "udp": call the next handler after the datagrams were read (non-terminal)

	next layer4.Handler
}

func (*VH) CaddyModule() caddy.ModuleInfo {
	return caddy.ModuleInfo{
		ID:  "layer4.handlers.verif_h",
		New: func() caddy.Module { return new(VH) },
	}
}

type passConn struct{ net.Conn }

func readRecorded(rec *Recorder, cx *layer4.Connection, n int) (Segs, error) {
	var segs Segs
	buf := make([]byte, 32*1024)
	got := 0
	rec.InHandler = true
	defer func() { rec.InHandler = false }()
	for n < 0 || got < n {
		want := len(buf)
		if n >= 0 && n-got < want {
			want = n - got
		}
		k, err := cx.Read(buf[:want])
		if k > 0 {
			segs = rec.NoteRead(segs, buf[:k])
			got += k
		}
		if err != nil {
			return segs, err
		}
		if k == 0 {
			return segs, io.ErrNoProgress
		}
	}
	return segs, nil
}

func addHRead(rec *Recorder, segs Segs) {
	if len(segs) > 0 {
		rec.Add(Ev{"e": "HRead", "segs": segs})
	}
}

// ListEnded reports why a route list came back without fallback, terminal handler or handler
// error: the cause is what the socket said last, a scripted matcher's error, or a full buffer.
func ListEnded(rec *Recorder, before int) (string, bool) {
	rec.mu.Lock()
	defer rec.mu.Unlock()
	if rec.EchoL != 0 {
		// the real echo handler consumed the connection (its Term event is added after the run)
		return "", false
	}
	for _, e := range rec.Hist[before:] {
		switch e["e"] {
		case "Term", "HErr", "Abort":
			return "", false
		}
	}
	if len(rec.Hist) > 0 {
		last := rec.Hist[len(rec.Hist)-1]
		if last["e"] == "Sock" {
			return last["k"].(string), true
		}
	}
	if rec.MatcherErr {
		return "merr", true
	}
	// "buffer full" is only recorded when the matching limit was really reached; a list that simply
	// came back gets no Abort event (clause R5b then judges the silent return)
	// What the matching buffer can hold, in stream positions [bufStart, bufEnd): a prefetch appends to it; once the handlers
	// have consumed up to (or beyond) its end it is empty, and the next prefetch starts a new one where the stream stands
	// - a later matching round then has the whole limit to itself.
	consumed, bufStart, bufEnd := 0, 0, 0
	for _, e := range rec.Hist {
		switch e["e"] {
		case "Pull":
			if consumed >= bufEnd {
				bufStart, bufEnd = consumed, consumed
			}
			bufEnd += e["n"].(int)
		case "HRead":
			if segs, ok := e["segs"].(Segs); ok {
				for _, sg := range segs {
					if sg[1] > consumed {
						consumed = sg[1]
					}
				}
			}
		}
	}
	pulled, drainedAt := bufEnd, bufStart
	if pulled-drainedAt >= layer4.MaxMatchingBytes {
		return "full", true
	}
	return "", false
}

// association ids of the "udp" handler kind
var assocCounter atomic.Int64

// AssocByPtr maps the identity of the virtual connection (the pointer the hooks see) to the
// association id its handler announced.
var AssocByPtr sync.Map

func ResetAssocCounter() { assocCounter.Store(0) }

// UDPGate, when set, is called by the "udp" handler after each datagram and before it
// returns; it lets a scheduler hold the handler goroutine at those points.
var UDPGate func(point string, a int, client string)

// handleUDP is the recording handler for virtual UDP connections: it announces a new
// association, reads up to N datagrams (each possibly in several pieces when its buffer is
// smaller than the datagram), optionally replies, and returns.
func (h *VH) handleUDP(cx *layer4.Connection, rec *Recorder) error {
	a := int(assocCounter.Add(1))
	client := ClientOfAddr(cx.RemoteAddr())
	AssocByPtr.Store(fmt.Sprintf("%p", cx.Conn), a)
	rec.Add(Ev{"e": "New", "a": a, "c": client})
	bufSize := h.Buf
	if bufSize < DgMin {
		bufSize = 9000
	}
	buf := make([]byte, bufSize)
	whole := 0
	// what was read and not yet attributed to a datagram: bytes prefetched for matching arrive as ONE run in which
	// consecutive datagrams follow each other, so the handler cuts the byte stream at the datagram headers
	var pending []byte
	more := func() bool {
		n, err := cx.Read(buf)
		if n > 0 {
			pending = append(pending, buf[:n]...)
		}
		return err == nil && n > 0
	}
	for whole < h.N {
		if g := UDPGate; g != nil {
			g("read", a, client)
		}
		if len(pending) == 0 && !more() {
			break
		}
		for len(pending) < 12 && more() {
		}
		c, seq, size, ok := ParseDgHeader(pending)
		if !ok {
			rec.Add(Ev{"e": "Dlv", "a": a, "c": "?", "seq": -1, "off": 0, "n": len(pending)})
			pending = nil
			whole++
			continue
		}
		for len(pending) < size && more() {
		}
		got := size
		if len(pending) < size {
			got = len(pending)
		}
		intact := true
		for i := 12; i < got; i++ {
			if pending[i] != DgByte(c, seq, i) {
				intact = false
			}
		}
		pending = pending[got:]
		off := got
		// one event per datagram: how many bytes of it arrived, and whether they were its own
		if intact {
			rec.Add(Ev{"e": "Dlv", "a": a, "c": ClientName(c), "seq": seq, "off": 0, "n": off})
		} else {
			rec.Add(Ev{"e": "Dlv", "a": a, "c": "?", "seq": -1, "off": 0, "n": off})
		}
		whole++
		if h.Echo {
			var out [4]byte
			binary.BigEndian.PutUint32(out[:], uint32(a))
			cx.Write(out[:])
		}
	}
	if g := UDPGate; g != nil {
		g("return", a, client)
	}
	rec.Add(Ev{"e": "End", "a": a})
	if h.Then && h.next != nil {
		return h.next.Handle(cx)
	}
	if h.Fail {
		return errors.New("verif_h: handler failed (as a proxy does when no upstream is available)")
	}
	return nil
}

// identifyDg decodes the header of a first piece and checks the filler that follows it.
func identifyDg(b []byte) (c, seq, size int, ok bool) {
	c, seq, size, ok = ParseDgHeader(b)
	if !ok || len(b) > size {
		return 0, 0, 0, false
	}
	for i := 12; i < len(b); i++ {
		if b[i] != DgByte(c, seq, i) {
			return 0, 0, 0, false
		}
	}
	return c, seq, size, true
}

func (h *VH) Handle(cx *layer4.Connection, next layer4.Handler) error {
	if h.K == "closers" {
		// reads one datagram, then N goroutines close the connection at the same instant (as the goroutines of a
		// relaying handler do when both directions end together); a panic here kills the process, as in production
		buf := make([]byte, 64)
		cx.Read(buf)
		var wg sync.WaitGroup
		start := make(chan struct{})
		for g := 0; g < h.N; g++ {
			wg.Add(1)
			go func() {
				defer wg.Done()
				<-start
				cx.Close()
			}()
		}
		close(start)
		wg.Wait()
		return nil
	}
	rec := recOf(cx)
	if rec == nil && h.K == "pass" {
		return next.Handle(cx) // a non-terminal handler that does nothing needs no recorder
	}
	if rec == nil {
		return errors.New("verif_h: no recorder on connection")
	}
	switch h.K {
	case "udp":
		hh := *h
		hh.next = next
		return hh.handleUDP(cx, rec)
	case "mark":
		rec.Add(Ev{"e": "Handle", "l": h.L, "r": h.R, "vis": len(cx.MatchingBytes()), "pos": rec.Expect})
		rec.InRoute = true
		return next.Handle(cx)
	case "endmark":
		// last handler of a route: the router takes over again (matching resumes)
		rec.InRoute = false
		return next.Handle(cx)
	case "pass":
		return next.Handle(cx)
	case "term":
		segs, _ := readRecorded(rec, cx, -1)
		addHRead(rec, segs)
		rec.Add(Ev{"e": "Term", "l": h.L, "r": h.R})
		return nil
	case "eat":
		segs, err := readRecorded(rec, cx, h.N)
		addHRead(rec, segs)
		if err != nil {
			rec.Add(Ev{"e": "HErr"})
			return err
		}
		return next.Handle(cx)
	case "addrrec":
		// what a handler behind proxy_protocol sees: connection addresses and placeholders
		ev := Ev{"e": "Addr", "remote": cx.RemoteAddr(), "local": cx.LocalAddr()}
		if repl, ok := cx.Context.Value(layer4.ReplacerCtxKey).(*caddy.Replacer); ok {
			if v, ok := repl.Get("l4.conn.remote_addr"); ok {
				ev["phRemote"] = v
			}
			if v, ok := repl.Get("l4.conn.local_addr"); ok {
				ev["phLocal"] = v
			}
		}
		rec.Add(ev)
		return next.Handle(cx)
	case "flag":
		rec.Add(Ev{"e": "Flag", "l": h.L})
		return next.Handle(cx)
	case "termraw":
		// terminal: keeps the raw bytes it read
		buf := make([]byte, 32*1024)
		rec.InHandler = true
		for {
			k, err := cx.Read(buf)
			rec.Raw = append(rec.Raw, buf[:k]...)
			if err != nil || k == 0 {
				break
			}
		}
		rec.InHandler = false
		rec.Add(Ev{"e": "Term", "l": h.L, "r": h.R})
		return nil
	case "echomark":
		rec.EchoL, rec.EchoR = h.L, h.R
		return next.Handle(cx)
	case "teemark":
		rec.TeeAt = rec.Expect
		rec.TeeSeen = true
		rec.Add(Ev{"e": "Tee"})
		return next.Handle(cx)
	case "branchterm":
		// the branch of a tee: reads until its pipe ends; the harness turns what it read into
		// the Branch event when the run is over
		var segs Segs
		buf := make([]byte, 32*1024)
		for {
			k, err := cx.Read(buf)
			if k > 0 {
				rec.branchMu.Lock()
				segs = rec.noteBranch(segs, buf[:k])
				rec.BranchSegs = segs
				rec.branchMu.Unlock()
			}
			if err != nil || k == 0 {
				break
			}
		}
		rec.branchMu.Lock()
		rec.BranchDone = true
		rec.branchMu.Unlock()
		return nil
	case "ppmark":
		// the real proxy_protocol handler ran before this marker and stripped the header: the
		// N bytes at the expected position count as read by it
		rec.Add(Ev{"e": "HRead", "segs": Segs{{rec.Expect, rec.Expect + h.N}}})
		rec.Expect += h.N
		return next.Handle(cx)
	case "eatrec":
		// eat for timed runs: records how many bytes it got (one event), then ends the connection
		segs, err := readRecorded(rec, cx, h.N)
		n := 0
		for _, s := range segs {
			n += s[1] - s[0]
		}
		if err != nil {
			rec.Add(Ev{"e": "HErr", "n": n})
			return err
		}
		rec.Add(Ev{"e": "HRead", "n": n})
		return nil
	case "wrap":
		return next.Handle(cx.Wrap(passConn{cx}))
	case "enter":
		rec.Add(Ev{"e": "Enter", "l": h.L, "vis": len(cx.MatchingBytes()), "pos": rec.Expect})
		rec.InRoute = false
		rec.MatcherErr = false
		before := rec.Len()
		fbSeen := false
		err := next.Handle(cx)
		rec.mu.Lock()
		for _, e := range rec.Hist[before:] {
			if e["e"] == "Fallback" && e["l"] == h.L {
				fbSeen = true
			}
		}
		rec.mu.Unlock()
		if err == nil && !fbSeen {
			if kind, ok := ListEnded(rec, before); ok {
				rec.Add(Ev{"e": "Abort", "k": kind})
			}
		}
		return err
	case "fb":
		rec.Add(Ev{"e": "Fallback", "l": h.L, "vis": len(cx.MatchingBytes()), "pos": rec.Expect})
		rec.InRoute = true
		return next.Handle(cx)
	}
	return fmt.Errorf("verif_h: unknown kind %q", h.K)
}

func init() {
	for s := 0; s < NSlots; s++ {
		caddy.RegisterModule(&VM{slot: s})
	}
	caddy.RegisterModule(&VH{})
}

var (
	_ layer4.ConnMatcher = (*VM)(nil)
	_ layer4.NextHandler = (*VH)(nil)
)
