package vh

import (
	"bufio"
	"encoding/json"
	"fmt"
	"os"
	"sort"
	"strings"
	"sync"
)

// CanonEv renders an event of the router vocabulary as a canonical string.
func CanonEv(e map[string]any) string {
	keys := make([]string, 0, len(e))
	for k := range e {
		if k != "e" {
			keys = append(keys, k)
		}
	}
	sort.Strings(keys)
	var sb strings.Builder
	fmt.Fprintf(&sb, "%v", e["e"])
	for _, k := range keys {
		b, _ := json.Marshal(e[k])
		fmt.Fprintf(&sb, " %s=%s", k, b)
	}
	return sb.String()
}

func CanonHist(h []Ev) []string {
	out := make([]string, len(h))
	for i, e := range h {
		out[i] = CanonEv(e)
	}
	return out
}

// ReadLines streams the lines of a file to fn using nworkers goroutines; fn receives the
// zero-based line number.
func ReadLines(path string, nworkers int, fn func(i int, line []byte)) error {
	f, err := os.Open(path)
	if err != nil {
		return err
	}
	defer f.Close()
	type item struct {
		i int
		b []byte
	}
	ch := make(chan item, 256)
	var wg sync.WaitGroup
	for w := 0; w < nworkers; w++ {
		wg.Add(1)
		go func() {
			defer wg.Done()
			for it := range ch {
				fn(it.i, it.b)
			}
		}()
	}
	sc := bufio.NewScanner(f)
	sc.Buffer(make([]byte, 1<<20), 64<<20)
	i := 0
	for sc.Scan() {
		b := append([]byte(nil), sc.Bytes()...)
		ch <- item{i, b}
		i++
	}
	close(ch)
	wg.Wait()
	return sc.Err()
}

// LineWriter is a mutex-protected NDJSON writer.
type LineWriter struct {
	mu sync.Mutex
	f  *os.File
	w  *bufio.Writer
	N  int
}

func NewLineWriter(path string) (*LineWriter, error) {
	f, err := os.Create(path)
	if err != nil {
		return nil, err
	}
	return &LineWriter{f: f, w: bufio.NewWriterSize(f, 1<<20)}, nil
}

func (lw *LineWriter) Write(v any) {
	b, err := json.Marshal(v)
	if err != nil {
		panic(err)
	}
	lw.mu.Lock()
	lw.w.Write(b)
	lw.w.WriteByte('\n')
	lw.N++
	lw.mu.Unlock()
}

func (lw *LineWriter) Close() error {
	lw.mu.Lock()
	defer lw.mu.Unlock()
	if err := lw.w.Flush(); err != nil {
		return err
	}
	return lw.f.Close()
}
