// Package vh holds the conformance harness of /verif: scripted connections, recording
// Caddy modules and the replayers that bind the TLA+ specifications to the real code.
package vh

import (
	"bytes"
	"math/rand"
	"sync"
	"time"
)

// Ev is one observable event; keys follow the vocabulary of the TLA+ specifications.
type Ev map[string]any

// Recorder collects the events of one connection (or one run) in program order.
type Recorder struct {
	mu     sync.Mutex
	MaxBuf int  // largest matching buffer seen on any Connection of this client (bytes)
	Hist   []Ev // events of the specification's vocabulary
	Aux    []Ev // everything else (matcher calls, closes, ...)
	Stream []byte
	Expect int // next stream position a handler is expected to read

	Kind string    // scenario role of this connection (scripted matchers may filter on it)
	ID   string    // connection id in multi-connection runs
	Sink *Recorder // when set, events are ALSO appended to this shared recorder with "c": ID

	branchMu     sync.Mutex
	BranchSegs   Segs // what a tee branch has read so far
	BranchDone   bool
	branchExp    int
	Raw          []byte // raw bytes kept by the "termraw" handler
	EchoL, EchoR int    // route whose real echo handler ran (0: none)
	TeeAt        int    // stream position at which the tee started (-1: no tee)

	T0 time.Time // when set, every event is stamped with "t" = milliseconds since T0

	InHandler  bool // a recording handler is reading right now
	InRoute    bool // the handlers of a matched route are running (between its first and last marker)
	TeeSeen    bool
	MatcherErr bool // a scripted matcher returned its own error since the flag was cleared
}

func NewRecorder(stream []byte) *Recorder { return &Recorder{Stream: stream} }

func (r *Recorder) Add(e Ev) {
	r.mu.Lock()
	if !r.T0.IsZero() {
		if _, has := e["t"]; !has {
			e["t"] = int(time.Since(r.T0) / time.Millisecond)
		}
	}
	r.Hist = append(r.Hist, e)
	r.mu.Unlock()
	if r.Sink != nil {
		c := Ev{}
		for k, v := range e {
			c[k] = v
		}
		c["c"] = r.ID
		r.Sink.Add(c)
	}
}

// Snapshot returns a copy of the history.
func (r *Recorder) Snapshot() []Ev {
	r.mu.Lock()
	defer r.mu.Unlock()
	return append([]Ev{}, r.Hist...)
}

// recorders of connections the harness cannot reach before the code under test wraps them
// (Server.handle, servePacket, the listener wrapper), keyed by the client's address
var recByAddr sync.Map

func RegisterRec(addr string, r *Recorder) { recByAddr.Store(addr, r) }
func UnregisterRec(addr string)            { recByAddr.Delete(addr) }
func RecByAddr(addr string) *Recorder {
	if v, ok := recByAddr.Load(addr); ok {
		return v.(*Recorder)
	}
	return nil
}

func (r *Recorder) AddAux(e Ev) {
	r.mu.Lock()
	r.Aux = append(r.Aux, e)
	r.mu.Unlock()
}

func (r *Recorder) Len() int {
	r.mu.Lock()
	defer r.mu.Unlock()
	return len(r.Hist)
}

// Last returns the most recent event of the vocabulary (nil if none).
func (r *Recorder) Last() Ev {
	r.mu.Lock()
	defer r.mu.Unlock()
	if len(r.Hist) == 0 {
		return nil
	}
	return r.Hist[len(r.Hist)-1]
}

// MakeStream returns n deterministic pseudo-random bytes for the given tag. Any window of
// 8 or more bytes identifies its position (collisions are astronomically unlikely and only
// make Locate answer -1, i.e. a report, never a silent acceptance).
func MakeStream(tag int64, n int) []byte {
	rng := rand.New(rand.NewSource(0x5eed0000 + tag))
	b := make([]byte, n)
	rng.Read(b)
	return b
}

// Locate maps a chunk read by a consumer to the stream positions it carries.
// It prefers the expected position; otherwise it searches. -1: not a window of the stream.
func Locate(stream []byte, chunk []byte, expect int) int {
	if len(chunk) == 0 {
		return expect
	}
	if expect >= 0 && expect+len(chunk) <= len(stream) && bytes.Equal(stream[expect:expect+len(chunk)], chunk) {
		return expect
	}
	return bytes.Index(stream, chunk)
}

// Segs accumulates coalesced [lo,hi) segments.
type Segs [][2]int

func (s Segs) Add(lo, n int) Segs {
	if n == 0 {
		return s
	}
	if lo >= 0 && len(s) > 0 && s[len(s)-1][1] == lo && s[len(s)-1][0] >= 0 {
		s[len(s)-1][1] = lo + n
		return s
	}
	return append(s, [2]int{lo, lo + n})
}

// NoteRead maps what a consumer read to segments (in pieces, so that a chunk spanning a
// discontinuity is still decoded) and advances Expect.
func (r *Recorder) NoteRead(s Segs, chunk []byte) Segs {
	for len(chunk) > 0 {
		// longest prefix that continues at the expected position
		exp := r.Expect
		k := 0
		for k < len(chunk) && exp+k < len(r.Stream) && r.Stream[exp+k] == chunk[k] {
			k++
		}
		if k > 0 && (k == len(chunk) || k >= 8) {
			s = s.Add(exp, k)
			r.Expect = exp + k
			chunk = chunk[k:]
			continue
		}
		// not where expected: locate a window (use up to 64 bytes to identify it)
		w := len(chunk)
		if w > 64 {
			w = 64
		}
		lo := bytes.Index(r.Stream, chunk[:w])
		if lo < 0 || w < 8 && len(chunk) >= 8 {
			s = append(s, [2]int{-1, -1 + len(chunk)})
			return s
		}
		if w < 8 {
			// tiny unexpected chunk: report the located position (may be ambiguous, never accepted as expected)
			s = s.Add(lo, w)
			r.Expect = lo + w
			chunk = chunk[w:]
			continue
		}
		k = 0
		for k < len(chunk) && lo+k < len(r.Stream) && r.Stream[lo+k] == chunk[k] {
			k++
		}
		s = s.Add(lo, k)
		r.Expect = lo + k
		chunk = chunk[k:]
	}
	return s
}

// noteBranch decodes what a tee branch read (its own expected position, independent of the main chain's).
func (r *Recorder) noteBranch(s Segs, chunk []byte) Segs {
	if r.branchExp == 0 && len(s) == 0 {
		// the branch starts where the main chain stood when the tee ran
		r.branchExp = r.TeeAt
	}
	for len(chunk) > 0 {
		exp := r.branchExp
		k := 0
		for k < len(chunk) && exp+k < len(r.Stream) && r.Stream[exp+k] == chunk[k] {
			k++
		}
		if k > 0 && (k == len(chunk) || k >= 8) {
			s = s.Add(exp, k)
			r.branchExp = exp + k
			chunk = chunk[k:]
			continue
		}
		w := len(chunk)
		if w > 64 {
			w = 64
		}
		lo := bytes.Index(r.Stream, chunk[:w])
		if lo < 0 {
			return append(s, [2]int{-1, -1 + len(chunk)})
		}
		k = 0
		for k < len(chunk) && lo+k < len(r.Stream) && r.Stream[lo+k] == chunk[k] {
			k++
		}
		s = s.Add(lo, k)
		r.branchExp = lo + k
		chunk = chunk[k:]
	}
	return s
}

// WaitBranch waits for the tee branch to finish (its pipe is closed when the main chain reads
// EOF) and appends the Branch event.
func (r *Recorder) WaitBranch(max time.Duration) {
	deadline := time.Now().Add(max)
	for {
		r.branchMu.Lock()
		done := r.BranchDone
		r.branchMu.Unlock()
		r.mu.Lock()
		caught := r.TeeSeen && r.branchExpSeen() >= r.Expect
		r.mu.Unlock()
		if done || caught || time.Now().After(deadline) {
			break
		}
		time.Sleep(100 * time.Microsecond)
	}
	r.branchMu.Lock()
	segs := append(Segs{}, r.BranchSegs...)
	r.branchMu.Unlock()
	r.Add(Ev{"e": "Branch", "segs": segs})
}

// branchExpSeen: how far into the stream the tee's branch has read
func (r *Recorder) branchExpSeen() int {
	r.branchMu.Lock()
	defer r.branchMu.Unlock()
	return r.branchExp
}

// NoteBuf remembers the largest matching buffer observed.
func (r *Recorder) NoteBuf(n int) {
	r.mu.Lock()
	if n > r.MaxBuf {
		r.MaxBuf = n
	}
	r.mu.Unlock()
}
