package vh

import (
	"context"
	"encoding/json"
	"fmt"
	"net"
	"time"

	"github.com/caddyserver/caddy/v2"
	"github.com/mholt/caddy-l4/layer4"
	"go.uber.org/zap"
)

// Abstract configuration, exactly the shape of the TLA+ constant `cfg` of L4Router.
type Matcher struct {
	K    string      `json:"k"`    // "thr" | "not"
	At   int         `json:"at"`   // threshold (bytes)
	V    string      `json:"v"`    // "Y" | "N" | "E": verdict once At bytes are visible and From bytes were consumed
	W    string      `json:"w"`    // verdict while fewer than From bytes were consumed
	From int         `json:"from"` // stream position from which V applies
	Sub  [][]Matcher `json:"sub"`  // matcher sets of a "not"
}
type HandlerSpec struct {
	K string `json:"k"`
	N int    `json:"n"`
}
type RouteSpec struct {
	Sets [][]Matcher   `json:"sets"`
	Hs   []HandlerSpec `json:"hs"`
}
type RouterCfg struct {
	Lists [][]RouteSpec `json:"lists"`
}

// Unit of the per-list matching timeouts: list L gets L*Unit, so that the scripted
// connection can tell from a deadline which list armed it.
const DlUnit = 1000 * time.Hour

func setJSON(set []Matcher, scale int) (map[string]json.RawMessage, error) {
	if len(set) > NSlots {
		return nil, fmt.Errorf("matcher set larger than %d", NSlots)
	}
	out := map[string]json.RawMessage{}
	slot := 0
	for _, m := range set {
		switch m.K {
		case "thr":
			b, _ := json.Marshal(map[string]any{"at": m.At * scale, "v": m.V, "w": m.W, "from": m.From * scale})
			out[fmt.Sprintf("verif_m%d", slot)] = b
			slot++
		case "not":
			if _, dup := out["not"]; dup {
				return nil, fmt.Errorf("two not-matchers in one set")
			}
			var inner []map[string]json.RawMessage
			for _, s := range m.Sub {
				j, err := setJSON(s, scale)
				if err != nil {
					return nil, err
				}
				inner = append(inner, j)
			}
			b, _ := json.Marshal(inner)
			out["not"] = b
		default:
			return nil, fmt.Errorf("unknown matcher kind %q", m.K)
		}
	}
	return out, nil
}

// routesJSON renders list L of cfg as the JSON of a layer4.RouteList, inserting the
// recording markers (mark first in every route; enter/fb around every subroute handler).
func routesJSON(cfg *RouterCfg, L int, scale int) ([]map[string]any, error) {
	var routes []map[string]any
	for ri, r := range cfg.Lists[L-1] {
		route := map[string]any{}
		if len(r.Sets) > 0 {
			var sets []map[string]json.RawMessage
			for _, s := range r.Sets {
				j, err := setJSON(s, scale)
				if err != nil {
					return nil, err
				}
				sets = append(sets, j)
			}
			route["match"] = sets
		}
		hs := []map[string]any{{"handler": "verif_h", "k": "mark", "l": L, "r": ri + 1}}
		for _, h := range r.Hs {
			switch h.K {
			case "term":
				hs = append(hs, map[string]any{"handler": "verif_h", "k": "term", "l": L, "r": ri + 1})
			case "pass", "wrap":
				hs = append(hs, map[string]any{"handler": "verif_h", "k": h.K})
			case "thr":
				// the real throttle handler with limits that never make it wait
				hs = append(hs, map[string]any{"handler": "throttle", "read_bytes_per_second": 1e12, "read_burst_size": 1 << 24})
			case "tee":
				hs = append(hs, map[string]any{"handler": "verif_h", "k": "teemark"},
					map[string]any{"handler": "tee", "branch": []map[string]any{{"handler": "verif_h", "k": "branchterm"}}})
			case "pp":
				// the real proxy_protocol handler, then a marker that accounts for the header it stripped
				hs = append(hs, map[string]any{"handler": "proxy_protocol"}, map[string]any{"handler": "verif_h", "k": "ppmark", "n": h.N * scale})
			case "echo":
				hs = append(hs, map[string]any{"handler": "verif_h", "k": "echomark", "l": L, "r": ri + 1}, map[string]any{"handler": "echo"})
			case "eat":
				hs = append(hs, map[string]any{"handler": "verif_h", "k": "eat", "n": h.N * scale})
			case "sub":
				if h.N < 2 || h.N > len(cfg.Lists) {
					return nil, fmt.Errorf("sub refers to list %d", h.N)
				}
				sub, err := routesJSON(cfg, h.N, scale)
				if err != nil {
					return nil, err
				}
				hs = append(hs,
					map[string]any{"handler": "verif_h", "k": "enter", "l": h.N},
					map[string]any{"handler": "subroute", "routes": sub, "matching_timeout": int64(time.Duration(h.N) * DlUnit)},
					map[string]any{"handler": "verif_h", "k": "fb", "l": h.N})
			default:
				return nil, fmt.Errorf("unknown handler kind %q", h.K)
			}
		}
		hs = append(hs, map[string]any{"handler": "verif_h", "k": "endmark"})
		route["handle"] = hs
		routes = append(routes, route)
	}
	return routes, nil
}

// UseCaddyEnv makes RunRouter provision under the in-process Caddy instance (CaddyContext).
var UseCaddyEnv = true

// RouterRun is one execution of the real router.
type RouterRun struct {
	Cfg     *RouterCfg
	Scale   int // abstract unit in bytes (1 or 1024)
	Slen    int // in abstract units
	EndKind string
	Pulls   []int // in abstract units
	Tag     int64
	// Second: after the first connection, run an identical second connection through the SAME provisioned and
	// compiled route list (handlers keep state between connections); its history is left in SecondHist
	Second     bool
	SecondHist []Ev
}

// RunRouter provisions the real route list from JSON, compiles it with a recording fallback
// and runs it on a scripted connection. It returns the recorded history (vocabulary of
// L4RouterAbs), auxiliary events and whether the real code panicked.
func RunRouter(run *RouterRun) (hist []Ev, aux []Ev, err error) {
	rj, err := routesJSON(run.Cfg, 1, run.Scale)
	if err != nil {
		return nil, nil, err
	}
	raw, _ := json.Marshal(rj)
	var routes layer4.RouteList
	if len(rj) > 0 {
		if err := json.Unmarshal(raw, &routes); err != nil {
			return nil, nil, fmt.Errorf("unmarshal routes: %v", err)
		}
	}
	base := caddy.Context{Context: context.Background()}
	if UseCaddyEnv {
		// contexts derived from the in-process Caddy instance: module loggers are discarded
		if base, err = CaddyContext(); err != nil {
			return nil, nil, err
		}
	}
	ctx, cancel := caddy.NewContext(base)
	defer cancel()
	if err := routes.Provision(ctx); err != nil {
		return nil, nil, fmt.Errorf("provision: %v", err)
	}

	fallback := layer4.HandlerFunc(func(cx *layer4.Connection) error {
		rec := cx.GetVar(RecKey).(*Recorder)
		rec.Add(Ev{"e": "Fallback", "l": 1, "vis": len(cx.MatchingBytes()), "pos": rec.Expect})
		// the harness's fallback reads the rest of the stream: it must have received it intact
		segs, _ := readRecorded(rec, cx, -1)
		addHRead(rec, segs)
		return nil
	})
	compiled := routes.Compile(zap.NewNop(), DlUnit, fallback)
	one := func() *Recorder {
		stream := MakeStream(run.Tag, run.Slen*run.Scale+64)
		if n := ppHeaderLen(run.Cfg); n > 0 {
			// the stream begins with a PROXY header of exactly n units
			hdr := MakeProxyHeader(n * run.Scale)
			if n*run.Scale == 28 && run.Tag%2 == 1 {
				// every other behaviour: a v1 "PROXY UNKNOWN ..." line of the same length (what follows UNKNOWN is ignored)
				hdr = []byte("PROXY UNKNOWN 0123456789ab\r\n")
			}
			copy(stream, hdr)
		}
		rec := NewRecorder(stream)
		pulls := make([]int, len(run.Pulls))
		for i, p := range run.Pulls {
			pulls[i] = p * run.Scale
		}
		sc := &ScriptConn{Rec: rec, Slen: run.Slen * run.Scale, EndKind: run.EndKind, Pulls: pulls,
			Start: time.Now(), Unit: DlUnit}
		cx := layer4.WrapConnection(sc, make([]byte, 0, 2048), zap.NewNop())
		cx.SetVar(RecKey, rec)
		runOne(rec, sc, cx, compiled)
		return rec
	}
	rec := one()
	if run.Second {
		run.SecondHist = one().Hist
	}
	return rec.Hist, rec.Aux, nil
}

func runOne(rec *Recorder, sc *ScriptConn, cx *layer4.Connection, compiled layer4.Handler) {
	defer func() {
		if p := recover(); p != nil {
			rec.Add(Ev{"e": "Panic", "msg": fmt.Sprint(p)})
		}
	}()
	herr := compiled.Handle(cx)
	if rec.EchoL != 0 {
		// the real echo handler ran: what it wrote back is what it read
		var segs Segs
		segs = rec.NoteRead(segs, sc.Written)
		addHRead(rec, segs)
		rec.Add(Ev{"e": "Term", "l": rec.EchoL, "r": rec.EchoR})
	}
	if herr != nil {
		noted := false
		for _, e := range rec.Snapshot() {
			if e["e"] == "HErr" {
				noted = true
			}
		}
		if !noted {
			rec.Add(Ev{"e": "HErr"})
		}
	}
	fbSeen := false
	for _, e := range rec.Hist {
		if e["e"] == "Fallback" && e["l"] == 1 {
			fbSeen = true
		}
	}
	if herr == nil && !fbSeen {
		if kind, ok := ListEnded(rec, 0); ok {
			rec.Add(Ev{"e": "Abort", "k": kind})
		}
	}
	if rec.TeeSeen {
		// the branch's pipe closes when the main chain reads EOF; otherwise it never finishes: wait until the branch has
		// read as far as the main chain has (it runs in a goroutine of its own and may be behind on a busy machine),
		// two seconds at most - a branch that never gets there is what R8 reports
		rec.WaitBranch(2 * time.Second)
	}
	if bl, _, _, _ := layer4.VerifConnState(cx); true {
		rec.NoteBuf(bl)
	}
	// the largest matching buffer any matcher saw (C05: limit plus one prefetch chunk at most)
	rec.Add(Ev{"e": "Buf", "n": rec.MaxBuf})
	rec.Add(Ev{"e": "Return"})
}

// ScaleHist divides every byte quantity of a history by scale; ok is false when some
// quantity is not a multiple (the history then has no counterpart in the scaled model).
func ScaleHist(hist []Ev, scale int) (out []Ev, ok bool) {
	ok = true
	div := func(v int) int {
		if v%scale != 0 {
			ok = false
		}
		return v / scale
	}
	for _, e := range hist {
		n := Ev{}
		_ = n
		for k, v := range e {
			n[k] = v
		}
		switch e["e"] {
		case "Buf":
			n["n"] = e["n"].(int) / scale
		case "Pull":
			n["n"] = div(e["n"].(int))
		case "Handle", "Enter", "Fallback":
			n["vis"] = div(e["vis"].(int))
			n["pos"] = div(e["pos"].(int))
		case "HRead", "Branch":
			ss := Segs{}
			for _, s := range e["segs"].(Segs) {
				if s[0] < 0 {
					ok = false
				}
				ss = append(ss, [2]int{div(s[0]), div(s[1])})
			}
			n["segs"] = ss
		}
		out = append(out, n)
	}
	return
}

// ScaleCfg multiplies every byte quantity of a configuration by scale.
func ScaleCfg(cfg *RouterCfg, scale int) *RouterCfg {
	var sm func(m Matcher) Matcher
	sm = func(m Matcher) Matcher {
		o := Matcher{K: m.K, At: m.At * scale, V: m.V, W: m.W, From: m.From * scale, Sub: [][]Matcher{}}
		for _, s := range m.Sub {
			ns := []Matcher{}
			for _, x := range s {
				ns = append(ns, sm(x))
			}
			o.Sub = append(o.Sub, ns)
		}
		return o
	}
	out := &RouterCfg{}
	for _, l := range cfg.Lists {
		nl := []RouteSpec{}
		for _, r := range l {
			nr := RouteSpec{Sets: [][]Matcher{}, Hs: []HandlerSpec{}}
			for _, s := range r.Sets {
				ns := []Matcher{}
				for _, m := range s {
					ns = append(ns, sm(m))
				}
				nr.Sets = append(nr.Sets, ns)
			}
			for _, h := range r.Hs {
				if h.K == "eat" {
					h.N *= scale
				}
				nr.Hs = append(nr.Hs, h)
			}
			nl = append(nl, nr)
		}
		out.Lists = append(out.Lists, nl)
	}
	return out
}

func usesKind(cfg *RouterCfg, k string) bool { l, _ := findKind(cfg, k); return l != 0 }

// findKind returns list and route (1-based) of the first handler of that kind.
func findKind(cfg *RouterCfg, k string) (int, int) {
	for li, l := range cfg.Lists {
		for ri, r := range l {
			for _, h := range r.Hs {
				if h.K == k {
					return li + 1, ri + 1
				}
			}
		}
	}
	return 0, 0
}

// ppHeaderLen returns the header length (in units) the configuration's proxy_protocol handler expects.
func ppHeaderLen(cfg *RouterCfg) int {
	for _, l := range cfg.Lists {
		for _, r := range l {
			for _, h := range r.Hs {
				if h.K == "pp" {
					return h.N
				}
			}
		}
	}
	return 0
}

// MakeProxyHeader builds a PROXY protocol header: n = 28 gives the v2 header for TCP over
// IPv4 (203.0.113.7:4242 -> 198.51.100.9:443), n = 52 the v2 header for TCP over IPv6, anything
// else the v1 text header (46 bytes; the caller then uses that length).
func MakeProxyHeader(n int) []byte {
	sig := []byte{0x0D, 0x0A, 0x0D, 0x0A, 0x00, 0x0D, 0x0A, 0x51, 0x55, 0x49, 0x54, 0x0A}
	switch n {
	case 28:
		h := append(sig, 0x21, 0x11, 0, 12)
		return append(h, 203, 0, 113, 7, 198, 51, 100, 9, 0x10, 0x92, 0x01, 0xBB)
	case 52:
		h := append(sig, 0x21, 0x21, 0, 36)
		src := net.ParseIP("2001:db8::7").To16()
		dst := net.ParseIP("2001:db8::9").To16()
		h = append(h, src...)
		h = append(h, dst...)
		return append(h, 0x10, 0x92, 0x01, 0xBB)
	}
	return []byte("PROXY TCP4 203.0.113.7 198.51.100.9 4242 443\r\n")
}

// V1HeaderLen is the length of the v1 header MakeProxyHeader(0) returns.
var V1HeaderLen = len(MakeProxyHeader(0))
