package vh

import (
	"errors"
	"net"
	"os"
	"time"
)

// ObsConn wraps a real net.Conn and records what the code under test does with it.
// A Read is stamped AFTER it returns (one-sided: recorded times are never too early).
type ObsConn struct {
	net.Conn
	Rec *Recorder
}

func (c *ObsConn) Read(p []byte) (int, error) {
	n, err := c.Conn.Read(p)
	if n > 0 {
		if c.Rec.InHandler {
			c.Rec.AddAux(Ev{"e": "HPull", "n": n})
		} else {
			c.Rec.Add(Ev{"e": "Pull", "n": n})
		}
	}
	if err != nil {
		k := "err"
		if errors.Is(err, os.ErrDeadlineExceeded) {
			k = "timeout"
		} else if err.Error() == "EOF" {
			k = "eof"
		}
		c.Rec.AddAux(Ev{"e": "SockErr", "k": k, "t": int(time.Since(c.Rec.T0) / time.Millisecond)})
	}
	return n, err
}

func (c *ObsConn) Close() error {
	c.Rec.Add(Ev{"e": "Closed"})
	return c.Conn.Close()
}
