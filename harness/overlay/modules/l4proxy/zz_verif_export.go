// Accessors added to package l4proxy at build time through `go build -overlay` by /verif.
// Not part of the repository; adds exported doors only.
package l4proxy

import (
	"fmt"
	"sync/atomic"

	"github.com/caddyserver/caddy/v2"
)

// VerifPeer is the abstract state of one peer.
type VerifPeer struct {
	Unhealthy bool `json:"unhealthy"`
	Fails     int  `json:"fails"`
	Conns     int  `json:"conns"`
}

// VerifUpstream is the abstract state of one upstream.
type VerifUpstream struct {
	Peers    []VerifPeer `json:"peers"`
	MaxConns int         `json:"maxConns"`
}

// VerifBuildPool constructs a pool in exactly that state (white box: the fields are unexported).
func VerifBuildPool(ups []VerifUpstream, maxFails int) UpstreamPool {
	var pool UpstreamPool
	var policy *PassiveHealthChecks
	if maxFails > 0 {
		policy = &PassiveHealthChecks{MaxFails: maxFails}
	}
	for i, vu := range ups {
		u := &Upstream{MaxConnections: vu.MaxConns, healthCheckPolicy: policy}
		for j, vp := range vu.Peers {
			addr := fmt.Sprintf("10.9.%d.%d:80", i, j)
			u.Dial = append(u.Dial, addr)
			na, _ := caddy.ParseNetworkAddress(addr)
			p := &peer{address: na}
			if vp.Unhealthy {
				atomic.StoreInt32(&p.unhealthy, 1)
			}
			atomic.StoreInt32(&p.fails, int32(vp.Fails))
			atomic.StoreInt32(&p.numConns, int32(vp.Conns))
			u.peers = append(u.peers, p)
		}
		pool = append(pool, u)
	}
	return pool
}

// VerifSetUnhealthy flips the health of every peer of an upstream.
func VerifSetUnhealthy(u *Upstream, unhealthy bool) {
	var v int32
	if unhealthy {
		v = 1
	}
	for _, p := range u.peers {
		atomic.StoreInt32(&p.unhealthy, v)
	}
}

// VerifPeerState reads the counters of the peer registered for a dial address.
func VerifPeerState(dialAddr string) (fails, conns int, unhealthy, ok bool) {
	var p *peer
	peers.Range(func(key, value any) bool {
		if key == dialAddr {
			p = value.(*peer)
			return false
		}
		return true
	})
	if p == nil {
		return 0, 0, false, false
	}
	return int(atomic.LoadInt32(&p.fails)), int(atomic.LoadInt32(&p.numConns)), atomic.LoadInt32(&p.unhealthy) != 0, true
}

// VerifAvailable exposes Upstream.available.
func VerifAvailable(u *Upstream) bool { return u.available() }

// VerifPeerAddr returns the dial address of a peer hook object ("" if it is none).
func VerifPeerAddr(obj any) string {
	if p, ok := obj.(*peer); ok && p != nil {
		return p.address.JoinHostPort(0)
	}
	return ""
}

// VerifUpstreamName returns the dial list of an upstream hook object.
func VerifUpstreamName(obj any) string {
	if u, ok := obj.(*Upstream); ok && u != nil {
		return u.String()
	}
	return ""
}

// VerifPeerCounters reads the counters of a peer hook object.
func VerifPeerCounters(obj any) (fails, conns int, unhealthy bool) {
	if p, ok := obj.(*peer); ok && p != nil {
		return int(atomic.LoadInt32(&p.fails)), int(atomic.LoadInt32(&p.numConns)), atomic.LoadInt32(&p.unhealthy) != 0
	}
	return 0, 0, false
}

// VerifUpstreamsAvailable reports availability of each upstream of a provisioned handler.
func VerifUpstreamsAvailable(h *Handler) []bool {
	out := make([]bool, len(h.Upstreams))
	for i, u := range h.Upstreams {
		out[i] = u.available()
	}
	return out
}

// VerifHandlerCounters reads fails / conns / unhealthy of every peer of a provisioned handler.
func VerifHandlerCounters(h *Handler) (fails, conns [][]int, unhealthy [][]bool) {
	for _, u := range h.Upstreams {
		var f, c []int
		var uh []bool
		for _, p := range u.peers {
			f = append(f, int(atomic.LoadInt32(&p.fails)))
			c = append(c, int(atomic.LoadInt32(&p.numConns)))
			uh = append(uh, atomic.LoadInt32(&p.unhealthy) != 0)
		}
		fails, conns, unhealthy = append(fails, f), append(conns, c), append(unhealthy, uh)
	}
	return
}

// VerifHandlerOf returns the handler behind a hook object (nil if it is none).
func VerifHandlerOf(obj any) *Handler {
	h, _ := obj.(*Handler)
	return h
}

// VerifPeerRefs: reference count of a dial address in the process-wide peers pool, and whether it has an entry.
func VerifPeerRefs(dialAddr string) (int, bool) { return peers.References(dialAddr) }

// VerifPoolPeerID: identity of the peer the pool holds for a dial address ("" if none).
func VerifPoolPeerID(dialAddr string) string {
	id := ""
	peers.Range(func(key, value any) bool {
		if key == dialAddr {
			id = fmt.Sprintf("%p", value)
			return false
		}
		return true
	})
	return id
}

// VerifHandlerPeerIDs: identity of the peers the handler's upstreams point to, by dial address.
func VerifHandlerPeerIDs(h *Handler) map[string]string {
	out := map[string]string{}
	for _, u := range h.Upstreams {
		for i, p := range u.peers {
			if i < len(u.Dial) {
				out[u.Dial[i]] = fmt.Sprintf("%p", p)
			}
		}
	}
	return out
}

// VerifCountFailure counts one dial failure against a peer of a provisioned handler the way dialPeers does.
func VerifCountFailure(h *Handler, ui, pi int) { h.countFailure(h.Upstreams[ui].peers[pi]) }
