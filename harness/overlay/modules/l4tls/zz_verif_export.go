// Accessor added to package l4tls at build time through `go build -overlay` by /verif.
package l4tls

// VerifParseRawClientHello exposes the matcher's own ClientHello parser.
func VerifParseRawClientHello(data []byte) ClientHelloInfo { return parseRawClientHello(data) }
