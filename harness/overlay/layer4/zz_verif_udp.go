package layer4

import "fmt"

// VerifPacketConnID identifies the packetConn behind a hook object or a net.Conn ("" if it is none).
func VerifPacketConnID(obj any) string {
	if pc, ok := obj.(*packetConn); ok {
		return fmt.Sprintf("%p", pc)
	}
	return ""
}

// VerifPacketConnAddr returns the client address of a packetConn hook object.
func VerifPacketConnAddr(obj any) string {
	if pc, ok := obj.(*packetConn); ok && pc.addr != nil {
		return pc.addr.String()
	}
	return ""
}

// VerifPacketConnKey: the server socket's address and the client's address of a virtual UDP connection
// (client ports are reused from run to run; the pair identifies the association of one run).
func VerifPacketConnKey(obj any) string {
	if pc, ok := obj.(*packetConn); ok && pc.addr != nil && pc.PacketConn != nil {
		return pc.PacketConn.LocalAddr().String() + "|" + pc.addr.String()
	}
	return ""
}
