package layer4

import "fmt"

// VerifPacketConnID identifies the packetConn behind a hook object or a net.Conn ("" if it is none).
func VerifPacketConnID(obj any) string {
	if pc, ok := obj.(*packetConn); ok {
		return fmt.Sprintf("%p", pc)
	}
	return ""
}

// VerifPacketConnAddr returns the client address of a packetConn hook object.
func VerifPacketConnAddr(obj any) string {
	if pc, ok := obj.(*packetConn); ok && pc.addr != nil {
		return pc.addr.String()
	}
	return ""
}
