package layer4

import "unsafe"

func unsafePointer(p *byte) unsafe.Pointer { return unsafe.Pointer(p) }
