// Accessors added to package layer4 at build time through `go build -overlay` by /verif.
// This file is not part of the repository; it only ADDS exported doors to unexported
// functions so that the harness can drive them. It never replaces repository code.
package layer4

import (
	"net"
	"time"

	"go.uber.org/zap"
)

// VerifServerHandle runs Server.handle (buffer from the pool, route, close) on conn.
func VerifServerHandle(s *Server, conn net.Conn) { s.handle(conn) }

// VerifServe runs the TCP accept loop on ln.
func VerifServe(s *Server, ln net.Listener) error { return s.serve(ln) }

// VerifListenerWrapperLogger re-compiles a provisioned wrapper's routes with another logger, so that a
// harness can observe what the routing loop logs (exactly what Provision does, with a given logger).
func VerifListenerWrapperLogger(lw *ListenerWrapper, logger *zap.Logger) {
	lw.logger = logger
	lw.compiledRoute = lw.Routes.Compile(logger, time.Duration(lw.MatchingTimeout), listenerHandler{})
}

// VerifServePacket runs the UDP demultiplexing loop on pc.
func VerifServePacket(s *Server, pc net.PacketConn) error { return s.servePacket(pc) }

// VerifServerWith builds a Server around an already compiled handler.
func VerifServerWith(h Handler, logger *zap.Logger) *Server {
	return &Server{compiledRoute: h, logger: logger}
}

// VerifConnState exposes the record/rewind cursor of a Connection.
func VerifConnState(cx *Connection) (bufLen, offset, frozen int, matching bool) {
	return len(cx.buf), cx.offset, cx.frozenOffset, cx.matching
}

// VerifPrefetch runs one prefetch round.
func VerifPrefetch(cx *Connection) error { return cx.prefetch() }

// VerifFreeze / VerifUnfreeze switch matching mode.
func VerifFreeze(cx *Connection)   { cx.freeze() }
func VerifUnfreeze(cx *Connection) { cx.unfreeze() }

// VerifBufID identifies the backing array of the connection's matching buffer.
func VerifBufID(cx *Connection) uintptr {
	if cap(cx.buf) == 0 {
		return 0
	}
	b := cx.buf[:1]
	return uintptr(unsafePointer(&b[0]))
}
